import sys; sys.path.insert(0, '/repo')
import xtuml
from xtuml import consistency_check as cc
def build(index_spelling):
    m = xtuml.MetaModel()
    m.define_class('C', [('Id', 'unique_id'), ('Name', 'string')])
    m.define_unique_identifier('C', 1, index_spelling)
    m.new('C', Id=0)      # null identifier
    return m
a = cc.check_uniqueness_constraint(build('Id'))
b = cc.check_uniqueness_constraint(build('ID'))
print('declared spelling:', a, ' other spelling:', b)
sys.exit(0 if a == b == 1 else 1)
