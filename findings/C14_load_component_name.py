# C14: load_component(resource, name) restricts the result to the named component
import os
from bridgepoint import ooaofooa
res = os.path.join('/repo', 'tests', 'resources', 'Simple_Model.xtuml')
try:
    ooaofooa.load_component(res, name='No_Such_Component')
    raise SystemExit('name ignored: a component that does not exist was "loaded"')
except ooaofooa.OoaOfOoaException:
    pass
mm = ooaofooa.load_metamodel(res)
names = [c.Name for c in mm.select_many('C_C')]
if names:
    c = ooaofooa.load_component(res, name=names[0])
    assert c is not None
print('ok', names)
