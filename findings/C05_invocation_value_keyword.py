# C05: a bridge / operation invocation used as a value is regenerated as parsable OAL
import xtuml
from bridgepoint import oal
import _pb
from xtuml import where_eq as where
text, m = _pb.regenerate('x = EE::b();')
try:
    oal.parse(text)
except oal.ParseException as e:
    raise SystemExit('regenerated text does not parse: %r (%s)' % (text, e))
assert 'EE::b()' in text, text
# instance based operation as a value
m = _pb.model()
o_obj = m.select_any('O_OBJ', where(Key_Lett='OBJECT'))
o_tfr = m.new('O_TFR', Name='op', Instance_Based=1); xtuml.relate(o_tfr, o_obj, 115)
xtuml.relate(o_tfr, m.select_any('S_DT', where(Name='integer')), 116)
f = _pb.prebuild_text(m, 'create object instance o of OBJECT; y = o.op();')
from bridgepoint import sourcegen
text = sourcegen.gen_text_action(f)
oal.parse(text)
print('ok')
