# C01 (known finding): a class or attribute named like an association number (R<digits>...) is written verbatim and cannot be loaded back
import xtuml
m = xtuml.MetaModel()
m.define_class('R5', [('Id', 'INTEGER')])
s = xtuml.serialize_schema(m)
l = xtuml.ModelLoader()
try:
    l.input(s)
    print('ok')
except xtuml.ParsingException as e:
    raise SystemExit('not loadable: %s' % e)
