# C01: a schema whose association phrase contains a quote must survive serialize -> load -> serialize
import xtuml
m = xtuml.MetaModel()
m.define_class('N', [('Id', 'INTEGER'), ('Prev_Id', 'INTEGER')])
m.define_association('R1', 'N', ['Prev_Id'], False, True, "it's after", 'N', ['Id'], False, True, "it's before")
s1 = xtuml.serialize_schema(m)
l = xtuml.ModelLoader(); l.input(s1)
m2 = l.build_metamodel()
ass = m2.associations[0]
assert ass.source_link.phrase == "it's before" and ass.target_link.phrase == "it's after", (ass.source_link.phrase, ass.target_link.phrase)
assert xtuml.serialize_schema(m2) == s1
print('ok')
