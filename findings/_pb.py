'''tiny harness for prebuild/sourcegen demonstrations (mirrors tests/test_bridgepoint/utils.py setUp)'''
import xtuml
from bridgepoint import ooaofooa, prebuild, sourcegen, oal
from xtuml import where_eq as where


def model():
    m = ooaofooa.Loader().build_metamodel()
    pe_pe = m.new('PE_PE'); s_sync = m.new('S_SYNC', Name='f'); xtuml.relate(s_sync, pe_pe, 8001)
    xtuml.relate(m.select_any('S_DT', where(Name='void')), s_sync, 25)
    pe2 = m.new('PE_PE'); o_obj = m.new('O_OBJ', Key_Lett='OBJECT', Name='OBJECT'); xtuml.relate(o_obj, pe2, 8001)
    for name, is_set in (('inst_ref<OBJECT>', False), ('inst_ref_set<OBJECT>', True)):
        pe = m.new('PE_PE'); s_dt = m.new('S_DT', Name=name); s_irdt = m.new('S_IRDT', isSet=is_set)
        xtuml.relate(s_dt, pe, 8001); xtuml.relate(s_irdt, s_dt, 17); xtuml.relate(s_irdt, o_obj, 123)
    # a second function g(a, b) and an external entity EE with bridge b()
    pe = m.new('PE_PE'); g = m.new('S_SYNC', Name='g'); xtuml.relate(g, pe, 8001)
    xtuml.relate(m.select_any('S_DT', where(Name='integer')), g, 25)
    pe = m.new('PE_PE'); ee = m.new('S_EE', Key_Lett='EE', Name='EE'); xtuml.relate(ee, pe, 8001)
    brg = m.new('S_BRG', Name='b'); xtuml.relate(brg, ee, 19)
    xtuml.relate(brg, m.select_any('S_DT', where(Name='integer')), 20)
    return m


def prebuild_text(m, text):
    s_sync = m.select_any('S_SYNC', where(Name='f'))
    s_sync.Action_Semantics_internal = text
    s_sync.Suc_Pars = 1
    prebuild.prebuild_action(s_sync)
    return s_sync


def regenerate(text):
    m = model()
    return sourcegen.gen_text_action(prebuild_text(m, text)), m
