# C08: keyword case must not change what SELECT MANY computes / what prebuild persists
import xtuml
from bridgepoint import interpret, ooaofooa
import _pb
d = ooaofooa.Domain()
d.define_class('A', [('Id', 'unique_id')])
d.new('A'); d.new('A'); d.new('A')
lower = interpret.run_function(d, 'f', 'select many xs from instances of A; return cardinality xs;', {})
upper = interpret.run_function(d, 'f', 'SELECT MANY xs FROM INSTANCES OF A; RETURN CARDINALITY xs;', {})
assert lower == upper == 3, (lower, upper)
_, m1 = _pb.regenerate('select many xs from instances of OBJECT;')
_, m2 = _pb.regenerate('SELECT MANY xs FROM INSTANCES OF OBJECT;')
c1 = m1.select_any('ACT_FIO').cardinality; c2 = m2.select_any('ACT_FIO').cardinality
assert c1 == c2, (c1, c2)
print('ok')
