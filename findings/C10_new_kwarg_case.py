# C10: constructor keywords are case-insensitive, also for referential attributes
import xtuml
m = xtuml.MetaModel()
m.define_class('A', [('Id', 'unique_id')])
m.define_class('B', [('Id', 'unique_id'), ('A_Id', 'unique_id'), ('Name', 'string')])
m.define_association('R1', 'B', ['A_Id'], True, True, '', 'A', ['Id'], False, True, '').formalize()
a1 = m.new('A')
b1 = m.new('B', A_Id=a1.Id)
b2 = m.new('B', a_id=a1.Id, name='x')
assert b2.A_Id == a1.Id and xtuml.navigate_one(b2).A['R1']() is a1
assert list(b2.__dict__) == ['Id', 'Name'], b2.__dict__
print('ok')
