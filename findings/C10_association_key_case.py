'''C10: an association whose key is spelled in another letter case than the declared attribute gives that attribute two values.
exit 0 = every spelling addresses one value (property holds), exit 1 = defect present'''
import sys
sys.path.insert(0, '/repo')
import xtuml
m = xtuml.MetaModel()
m.define_class('A', [('Id', 'unique_id')])
m.define_class('B', [('Id', 'unique_id'), ('A_Id', 'unique_id')])
m.define_association('R1', 'B', ['a_id'], False, True, '', 'A', ['id'], False, True, '').formalize()
a = m.new('A')
b = m.new('B')
xtuml.relate(b, a, 1)
vals = (b.a_id, b.A_Id, b.A_ID)
print('a.Id =', a.Id, ' b.a_id, b.A_Id, b.A_ID =', vals)
ok = vals[0] == vals[1] == vals[2] == a.Id
sys.exit(0 if ok else 1)
