# C12: a value of the wrong lexical class must be rejected with ParsingException, not ValueError
import xtuml
bad = ["CREATE TABLE X (A INTEGER); INSERT INTO X VALUES ('abc');",
       "CREATE TABLE X (A INTEGER); INSERT INTO X VALUES (1.5);",
       "CREATE TABLE X (A REAL); INSERT INTO X VALUES ('abc');",
       "CREATE TABLE X (A UNIQUE_ID); INSERT INTO X VALUES ('abc');",
       'CREATE TABLE X (A UNIQUE_ID); INSERT INTO X VALUES ("not-a-guid");',
       'CREATE TABLE X (A INTEGER); INSERT INTO X (A) VALUES ("zz");']
for text in bad:
    l = xtuml.ModelLoader()
    l.input(text)
    try:
        l.build_metamodel()
        raise SystemExit('accepted: ' + text)
    except xtuml.ParsingException:
        pass
print('ok')
