# C15: a bare `return;` ends the action and delivers nothing
from bridgepoint import interpret, ooaofooa
d = ooaofooa.Domain()
d.define_class('A', [('N', 'integer')])
r = interpret.run_function(d, 'f', 'create object instance a of A; a.N = 1; return; a.N = 2;', {})
assert r is None
assert d.select_any('A').N == 1
print('ok')
