# C11: a null identifying value is counted whatever the letter case of the declared type name
import xtuml
m = xtuml.MetaModel()
m.define_class('A', [('Id', 'unique_id')])
m.define_unique_identifier('A', 1, 'Id')
a = m.new('A')
a.Id = 0
n = xtuml.check_uniqueness_constraint(m)
assert n == 1, n
assert not m.is_consistent()
print('ok')
