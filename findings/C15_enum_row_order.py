# C15: enumerators read as their position in the modelled order (R56), independent of the row order in the file
from bridgepoint import ooaofooa
rows = {
 'dt':  'INSERT INTO S_DT VALUES ("00000000-0000-0000-0000-0000000000d1", "00000000-0000-0000-0000-000000000000", \'Color\', \'\', \'\');',
 'edt': 'INSERT INTO S_EDT VALUES ("00000000-0000-0000-0000-0000000000d1");',
 'e1':  'INSERT INTO S_ENUM VALUES ("00000000-0000-0000-0000-0000000000e1", \'Red\', \'\', "00000000-0000-0000-0000-0000000000d1", "00000000-0000-0000-0000-000000000000");',
 'e2':  'INSERT INTO S_ENUM VALUES ("00000000-0000-0000-0000-0000000000e2", \'Green\', \'\', "00000000-0000-0000-0000-0000000000d1", "00000000-0000-0000-0000-0000000000e1");',
 'e3':  'INSERT INTO S_ENUM VALUES ("00000000-0000-0000-0000-0000000000e3", \'Blue\', \'\', "00000000-0000-0000-0000-0000000000d1", "00000000-0000-0000-0000-0000000000e2");',
}
def enum_for(order):
    l = ooaofooa.Loader(load_globals=False)
    l.input('\n'.join(rows[k] for k in order))
    m = l.build_metamodel()
    return ooaofooa.mk_enum(m.select_any('S_EDT'))
a = enum_for(['dt', 'edt', 'e1', 'e2', 'e3'])
b = enum_for(['e3', 'dt', 'e2', 'edt', 'e1'])
assert (a.Red, a.Green, a.Blue) == (0, 1, 2), a
assert (b.Red, b.Green, b.Blue) == (0, 1, 2), b
print('ok')
