'''C12: an accepted INSERT with named columns and fewer values than names must be rejected with ParsingException, not IndexError.
exit 0 = documented failure, exit 1 = defect present'''
import sys
sys.path.insert(0, '/repo')
import xtuml
l = xtuml.ModelLoader()
l.input('CREATE TABLE A (x INTEGER, y INTEGER); INSERT INTO A (x, y) VALUES (1);')
try:
    l.build_metamodel()
    print('accepted'); sys.exit(1)
except xtuml.ParsingException as e:
    print('ParsingException:', e); sys.exit(0)
except Exception as e:
    print('unrelated %s: %s' % (type(e).__name__, e)); sys.exit(1)
