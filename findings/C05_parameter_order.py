# C05/C06: invocation parameters and event data are regenerated in source order, and V_PAR.Next_Value_ID designates the next parameter
import xtuml
import _pb
from xtuml import navigate_one as one
text, m = _pb.regenerate('::g(a:1, b:2, c:3);')
assert 'a: 1, b: 2, c: 3' in text, text
pars = {p.Name: p for p in m.select_many('V_PAR')}
assert pars['a'].Next_Value_ID == pars['b'].Value_ID, 'a.Next_Value_ID must designate b'
assert pars['b'].Next_Value_ID == pars['c'].Value_ID
assert not pars['c'].Next_Value_ID
print('ok')
