# C03: creating rows through the API with referential values links them exactly as loading the same rows does
import xtuml
from xtuml import navigate_one as one
schema = """
CREATE TABLE N (Id INTEGER, Prev_Id INTEGER);
CREATE ROP REF_ID R1 FROM 1C N (Prev_Id) PHRASE 'succeeds' TO 1C N (Id) PHRASE 'precedes';
"""
l = xtuml.ModelLoader(); l.input(schema + "INSERT INTO N VALUES (1, 0); INSERT INTO N VALUES (2, 1);")
loaded = xtuml.serialize_instances(l.build_metamodel())
l2 = xtuml.ModelLoader(); l2.input(schema); m2 = l2.build_metamodel()
a1 = m2.new('N', Id=1)
a2 = m2.new('N', Id=2, Prev_Id=1)
assert one(a2).N[1, 'succeeds']() is a1, 'the new instance must refer to its predecessor'
assert a2.Prev_Id == 1 and not a1.Prev_Id, (a1.Prev_Id, a2.Prev_Id)
assert xtuml.serialize_instances(m2) == loaded
print('ok')
