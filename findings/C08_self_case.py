# C08: the letter case of the keyword SELF in instance-name position (relate / unrelate / delete) must change neither the tree nor the
# prebuilt population
import xtuml
from bridgepoint import prebuild, oal
import _pb
from xtuml import where_eq as where


def population(text):
    m = _pb.model()
    o_obj = m.select_any('O_OBJ', where(Name='OBJECT'))
    o_tfr = m.new('O_TFR', Name='op', Instance_Based=1, Action_Semantics_internal=text, Suc_Pars=1)
    xtuml.relate(o_tfr, o_obj, 115)
    xtuml.relate(o_tfr, m.select_any('S_DT', where(Name='void')), 116)
    prebuild.prebuild_action(o_tfr)
    return sorted(v.Name for v in m.select_many('V_VAR')), len(m.select_many('V_INT'))


def names(text):
    st = oal.parse(text).statement_list.children[0] if hasattr(oal.parse(text), 'statement_list') else None
    return st


lower = population('delete object instance self; delete object instance self;')
upper = population('delete object instance SELF; delete object instance SELF;')
assert lower == upper == (['self'], 1), (lower, upper)


def name_fields(node, out):
    for k, v in sorted(vars(node).items()):
        if k in ('character_stream', 'position'):
            continue
        if isinstance(v, str):
            out.append((type(node).__name__, k, v))
        elif hasattr(v, '__dict__'):
            name_fields(v, out)
        elif isinstance(v, (list, tuple)):
            for x in v:
                if hasattr(x, '__dict__'):
                    name_fields(x, out)
    return out


a = name_fields(oal.parse('relate self to x across R1; unrelate x from self across R1; delete object instance self;'), [])
b = name_fields(oal.parse('relate SELF to x across R1; unrelate x from Self across R1; delete object instance sELF;'), [])
assert a == b, (a, b)
print('ok')
