# C13: parsing is total in bounded time -- an unterminated block comment must not take exponential time
import time, signal
from bridgepoint import oal
def alarm(*a): raise SystemExit('TIMEOUT: lexing an unterminated comment of 30 lines did not finish in 5 s')
signal.signal(signal.SIGALRM, alarm); signal.alarm(5)
t = time.time()
try:
    oal.parse('x = 1;\n/*' + '\n' * 30)
except oal.ParseException:
    pass
assert oal.parse('/* a * b \n ** c **/ x = 1; /***/').children
print('ok %.2fs' % (time.time() - t))
