# C06: ACT_SMT.Previous_Statement_ID designates the previous statement in source order (none for the first)
import _pb
text, m = _pb.regenerate('x = 1;\ny = 2;\nz = 3;')
smts = sorted(m.select_many('ACT_SMT'), key=lambda s: s.LineNumber)
assert [s.LineNumber for s in smts] == [1, 2, 3]
assert not smts[0].Previous_Statement_ID, 'first statement has no previous statement'
assert smts[1].Previous_Statement_ID == smts[0].Statement_ID
assert smts[2].Previous_Statement_ID == smts[1].Statement_ID
assert text.index('x = 1') < text.index('y = 2') < text.index('z = 3'), text
print('ok')
