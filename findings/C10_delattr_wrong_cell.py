# C10: deleting a name that matches nothing must not delete another stored attribute
import xtuml
m = xtuml.MetaModel()
m.define_class('A', [('Id', 'integer'), ('N', 'integer')])
a = m.new('A', 1, 2)
try:
    del a.zzz
except AttributeError:
    pass
assert a.__dict__ == {'Id': 1, 'N': 2}, a.__dict__
del a.n
assert a.__dict__ == {'Id': 1}, a.__dict__
print('ok')
