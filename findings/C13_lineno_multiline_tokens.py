# C13: line numbers stay exact after tokens that span lines (end <newline> if, ticked phrase with newline)
from bridgepoint import oal
text = "x = 1;\nif (x == 1)\n  x = 2;\nend\nif;\ny = 3;\nwhile (x < 3)\n x = x + 1;\nend\n\nwhile;\nz = 4;"
root = oal.parse(text)
stmts = root.block.statement_list.children
got = [(type(s).__name__, s.position.start_line) for s in stmts]
assert got == [('AssignmentNode', 1), ('IfNode', 2), ('AssignmentNode', 6), ('WhileNode', 7), ('AssignmentNode', 12)], got
print('ok')
