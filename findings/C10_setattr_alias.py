# C10: writing an attribute under two different spellings must address one cell
import xtuml
m = xtuml.MetaModel()
m.define_class('A', [('Name', 'string')])
a = m.new('A')
a.NAME = 'x'
a.name = 'y'
assert a.Name == 'y' and a.NAME == 'y', (a.Name, a.NAME, a.__dict__)
assert list(a.__dict__) == ['Name'], a.__dict__
print('ok')
