import xtuml
from xtuml import navigate_many as many
m = xtuml.MetaModel()
m.define_class('A', [('Id','unique_id')])
m.define_class('B', [('Id','unique_id'),('A_Id','unique_id')])
a = m.define_association('R1','B',['A_Id'],False,True,'','A',['Id'],False,True,'')
a.formalize()
a1=m.new('A'); b1=m.new('B'); a2=m.new('A')
xtuml.relate(a1,b1,'R1')
try:
    xtuml.relate(a2,b1,'R1'); print('no exc')
except xtuml.RelateException as e:
    print('rejected')
print('a2->B', list(many(a2).B['R1']()), 'b1->A', list(many(b1).A['R1']()))
assert not list(many(a2).B['R1']()), 'asymmetric after rejected relate'
