#!/venv/bin/python
'''collect the refactorings of one round from the sub-agents' scratch worktrees: confirm (patch applies, unedited suite passes) and keep as
/verif/refactored/<ID>-r<round>-<N>.   usage: refcollect.py <round> [ID ...]'''
import concurrent.futures, json, os, shutil, subprocess, sys, tempfile
PY = '/venv/bin/python'
PROPS = ['C01','C02','C03','C04','C05','C06','C07','C08','C09','C10','C11','C12','C13','C14','C15','C16','C17','C18','C19','C20']

def one(job):
    pid, n, rnd = job
    diff = '/tmp/refac/%s/ref%s.diff' % (pid, n)
    note = '/tmp/refac/%s/ref%s.md' % (pid, n)
    if not os.path.exists(diff):
        return pid, n, 'no diff'
    wt = tempfile.mkdtemp(prefix='pyx-rc-')
    try:
        subprocess.run('git -C /repo archive HEAD | tar -x -C %s' % wt, shell=True, check=True)
        p = subprocess.run(['git', 'apply', diff], cwd=wt, capture_output=True, text=True)
        if p.returncode != 0:
            return pid, n, 'does not apply: ' + p.stderr[:200]
        p = subprocess.run([PY, '-m', 'pytest', '-q', '-p', 'no:cacheprovider', 'tests'], cwd=wt, capture_output=True, text=True,
                           env=dict(os.environ, PYTHONPATH=wt))
        last = (p.stdout.strip().splitlines() or [''])[-1]
        if '244 passed' not in last:
            return pid, n, 'suite: ' + last
        d = '/verif/refactored/%s-r%s-%s' % (pid, rnd, n)
        os.makedirs(d, exist_ok=True)
        shutil.copy(diff, d + '/patch.diff')
        if os.path.exists(note):
            shutil.copy(note, d + '/note.md')
        json.dump({'target_property': pid, 'round': int(rnd),
                   'source': 'independent sub-agent asked for a behaviour-preserving refactoring (structural / control flow / expression level)',
                   'test_suite_with_change': last}, open(d + '/meta.json', 'w'), indent=1)
        return pid, n, 'kept (' + last + ')'
    finally:
        shutil.rmtree(wt, ignore_errors=True)

rnd = sys.argv[1]
ids = sys.argv[2:] or PROPS
with concurrent.futures.ThreadPoolExecutor(max_workers=12) as ex:
    for pid, n, res in ex.map(one, [(p, n, rnd) for p in ids for n in (1, 2, 3)]):
        print(pid, n, res)
