#!/venv/bin/python
'''dev tool: normal form of functions in the reference tree and with a patch applied.  nfdiff.py <patch.diff> module:qual ...'''
import ast, os, shutil, subprocess, sys, tempfile, difflib
sys.path.insert(0, os.path.join(os.path.dirname(os.path.abspath(__file__)), '..'))
t = tempfile.mkdtemp(prefix='pyx-nf-')
for pkg in ('xtuml', 'bridgepoint'):
    shutil.copytree('/repo/' + pkg, t + '/' + pkg, ignore=shutil.ignore_patterns('__pycache__', '__oal_*', '__xtuml_*'))
subprocess.run(['patch', '-p1', '-s', '-d', t, '-i', os.path.abspath(sys.argv[1])], check=True)
os.environ['PYX_NO_EQUIV'] = '1'
from sa import src, equiv
def nf(root, q):
    os.environ['PYX_REPO'] = root
    r = src.Repo()
    return equiv.alpha(r.nfunc(q))
for q in sys.argv[2:]:
    a, b = nf('/repo', q), nf(t, q)
    print('====', q, 'SAME' if a == b else 'DIFFERENT')
    if a != b:
        print('\n'.join(difflib.unified_diff(a.splitlines(), b.splitlines(), 'reference', 'patched', lineterm='', n=2)))
shutil.rmtree(t)
