#!/venv/bin/python
'''Confirm a seeded mutation produced by a sub-agent in /tmp/seed/<ID>/ and run all checks against it.
usage: seedeval.py <ID> <N> [--keep]      (N = 1 | 2)'''
import json, os, shutil, subprocess, sys, re
PY = '/venv/bin/python'
PROPS = ['C01','C02','C03','C04','C05','C06','C07','C08','C09','C10','C11','C12','C13','C14','C15','C16','C17','C18','C19','C20']
TABS = ['xtuml/__xtuml_lextab.py','xtuml/__xtuml_parsetab.py','bridgepoint/__oal_lextab.py','bridgepoint/__oal_parsetab.py']

def sh(cmd, cwd, env=None, timeout=900):
    p = subprocess.run(cmd, cwd=cwd, shell=True, capture_output=True, text=True, env=env, timeout=timeout)
    return p.returncode, p.stdout + p.stderr

def clean(wt):
    sh('git checkout -- xtuml bridgepoint', wt)
    for t in TABS:
        try: os.remove(os.path.join(wt, t))
        except OSError: pass

def main():
    pid, n = sys.argv[1], sys.argv[2]
    srcdir = '/tmp/seed/%s' % pid
    diff, demo, notes = ['%s/%s%s.%s' % (srcdir, a, n, b) for a, b in (('mut','diff'),('demo','py'),('notes','md'))]
    res = {'property': pid, 'n': n}
    # evaluate on a fresh worktree of the CURRENT /repo HEAD (the agents' worktrees may predate later fix commits)
    wt = '/tmp/seedeval/%s_%s' % (pid, n)
    sh('git -C /repo worktree remove --force %s' % wt, '/tmp')
    os.makedirs('/tmp/seedeval', exist_ok=True)
    rc, out = sh('git -C /repo worktree add --detach %s HEAD' % wt, '/tmp')
    if rc != 0:
        print(json.dumps({'error': out[-300:]})); return 1
    shutil.copy(demo, wt + '/' + os.path.basename(demo))
    demo = wt + '/' + os.path.basename(demo)
    clean(wt)
    rc, out = sh('%s %s' % (PY, demo), wt); res['demo_clean_exit'] = rc
    rc, out = sh('git apply %s' % diff, wt); res['apply'] = rc
    if rc != 0:
        print(json.dumps(res), out[-300:]); sh('git -C /repo worktree remove --force %s' % wt, '/tmp'); return 1
    for t in TABS:
        try: os.remove(os.path.join(wt, t))
        except OSError: pass
    rc, out = sh('%s -m pytest -q -p no:cacheprovider tests' % PY, wt); res['tests'] = out.strip().splitlines()[-1] if out.strip() else ''
    rc, out = sh('%s %s' % (PY, demo), wt); res['demo_mutant_exit'] = rc; res['demo_tail'] = out.strip().splitlines()[-1][:200] if out.strip() else ''
    env = dict(os.environ, PYX_REPO=wt, PYX_NO_EVIDENCE='1')
    caught = {}
    for p in PROPS:
        rc, out = sh('%s /verif/sa/check.py %s --tier quick' % (PY, p), '/verif', env)
        if rc != 0:
            lines = [l for l in out.splitlines() if (' -- ' in l and not l.startswith(('RULE','KNOWN-FINDING','  info'))) or l.startswith('ANALYSIS-ERROR')]
            caught[p] = {'exit': rc, 'lines': [l[:260] for l in lines[:3]]}
    res['caught_by'] = caught
    res['confirmed'] = (res['demo_clean_exit'] == 0 and '244 passed' in res['tests'] and res['demo_mutant_exit'] != 0)
    if res['confirmed'] and '--keep' in sys.argv:
        d = '/verif/seeded/%s-%s%s' % (pid, os.environ.get('SEED_TAG', ''), n)
        os.makedirs(d, exist_ok=True)
        shutil.copy(diff, d + '/patch.diff'); shutil.copy(demo, d + '/demo.py')
        meta = {'breaks_property': pid, 'source': 'independent sub-agent given only the property text and a scratch worktree',
                'needs_to_manifest': open(notes).read() if os.path.exists(notes) else '',
                'confirmed': {'demo_on_clean_tree_exit': res['demo_clean_exit'], 'test_suite_with_change': res['tests'],
                              'demo_with_change_exit': res['demo_mutant_exit'], 'demo_failure': res['demo_tail']},
                'what_was_run': 'tools/seedeval.py: git apply in scratch worktree, full pytest suite, demo before/after, all 18 quick checks with PYX_REPO=<worktree>',
                'detected_by': {p: v['lines'] for p, v in caught.items() if v['exit'] == 1},
                'analysis_error_in': [p for p, v in caught.items() if v['exit'] == 2]}
        json.dump(meta, open(d + '/meta.json', 'w'), indent=1)
    sh('git -C /repo worktree remove --force %s' % wt, '/tmp')
    print(json.dumps(res, indent=1))
    return 0

if __name__ == '__main__':
    sys.exit(main())
