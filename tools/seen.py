#!/venv/bin/python
'''dev tool: the spelling of a function the rules read (after the equivalence step) for a refactoring / seeded patch.
usage: seen.py <patch.diff> module:qual ...'''
import ast, os, shutil, subprocess, sys, tempfile
sys.path.insert(0, os.path.join(os.path.dirname(os.path.abspath(__file__)), '..'))
t = tempfile.mkdtemp(prefix='pyx-seen-')
for pkg in ('xtuml', 'bridgepoint'):
    shutil.copytree('/repo/' + pkg, t + '/' + pkg, ignore=shutil.ignore_patterns('__pycache__', '__oal_*', '__xtuml_*'))
subprocess.run(['patch', '-p1', '-s', '-d', t, '-i', os.path.abspath(sys.argv[1])], check=True)
os.environ['PYX_REPO'] = t
from sa.src import Repo
r = Repo()
eq = r.equivalence
print('proven equivalent:', eq['proven_equivalent']); print('changed:', eq['changed'])
for q in sys.argv[2:]:
    print('----', q); print(ast.unparse(r.func(q)))
shutil.rmtree(t)
