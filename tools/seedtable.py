#!/venv/bin/python
'''print the markdown table of DESIGN.md section 9 from /verif/seeded/*/meta.json'''
import glob, json, os, re
rows = []
for d in sorted(glob.glob('/verif/seeded/*/meta.json'), key=lambda p: (os.path.basename(os.path.dirname(p)).split('-')[0], p)):
    m = json.load(open(d))
    i = os.path.basename(os.path.dirname(d))
    rules = []
    own = m['breaks_property']
    for prop, lines in sorted(m.get('detected_by', {}).items(), key=lambda kv: (kv[0] != own, kv[0])):
        for l in lines:
            mm = re.search(r' (C\d\d-[A-Z0-9.\-]+) -- ', l)
            if mm and mm.group(1) not in rules:
                rules.append(mm.group(1))
    first = [l for l in m['needs_to_manifest'].splitlines() if l.strip()][0].strip()[:110].replace('|', '/')
    rows.append('| %s | %s | %s | %s | %s |' % (i, own, ', '.join(rules[:4]) or '-', 'yes' if m.get('missed_at_first') else '', first))
print('| change | property | reported by | missed at first | what it needs to show (first line of the sub-agent\'s note) |')
print('|---|---|---|---|---|')
print('\n'.join(rows))
