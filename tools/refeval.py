#!/venv/bin/python
'''Evaluate a behaviour-preserving refactoring produced by a sub-agent: usage refeval.py <ID> <N> [--keep]'''
import json, os, shutil, subprocess, sys
PY = '/venv/bin/python'
PROPS = ['C01','C02','C03','C04','C05','C06','C07','C08','C09','C10','C11','C12','C13','C14','C15','C17','C18','C19','C20']

def sh(cmd, cwd, env=None, timeout=900):
    p = subprocess.run(cmd, cwd=cwd, shell=True, capture_output=True, text=True, env=env, timeout=timeout)
    return p.returncode, p.stdout + p.stderr

def main():
    pid, n = sys.argv[1], sys.argv[2]
    diff = '/tmp/refac/%s/ref%s.diff' % (pid, n)
    note = '/tmp/refac/%s/ref%s.md' % (pid, n)
    wt = '/tmp/refeval/%s_%s' % (pid, n)
    sh('git -C /repo worktree remove --force %s' % wt, '/tmp')
    os.makedirs('/tmp/refeval', exist_ok=True)
    rc, out = sh('git -C /repo worktree add --detach %s HEAD' % wt, '/tmp')
    res = {'property': pid, 'n': n}
    rc, out = sh('git apply %s' % diff, wt); res['apply'] = rc
    if rc == 0:
        rc, out = sh('%s -m pytest -q -p no:cacheprovider tests' % PY, wt); res['tests'] = out.strip().splitlines()[-1] if out.strip() else ''
        env = dict(os.environ, PYX_REPO=wt, PYX_NO_EVIDENCE='1')
        alarms = {}
        for p in PROPS:
            rc, out = sh('%s /verif/sa/check.py %s --tier quick' % (PY, p), '/verif', env)
            if rc != 0:
                lines = [l for l in out.splitlines() if (' -- ' in l and not l.startswith(('RULE','KNOWN-FINDING','  info'))) or l.startswith('ANALYSIS-ERROR')]
                alarms[p] = {'exit': rc, 'lines': [l[:300] for l in lines[:4]]}
        res['alarms'] = alarms
        if '--keep' in sys.argv and '244 passed' in res['tests']:
            d = '/verif/refactored/%s-%s' % (pid, n)
            os.makedirs(d, exist_ok=True)
            shutil.copy(diff, d + '/patch.diff')
            if os.path.exists(note):
                shutil.copy(note, d + '/note.md')
            json.dump({'target_property': pid, 'source': 'independent sub-agent asked for a behaviour-preserving refactoring',
                       'test_suite_with_change': res['tests'], 'checks_not_silent_when_first_run': alarms}, open(d + '/meta.json', 'w'), indent=1)
    sh('git -C /repo worktree remove --force %s' % wt, '/tmp')
    print(json.dumps(res, indent=1))

if __name__ == '__main__':
    main()
