#!/bin/sh
# dev helper: apply a refactoring patch to a scratch copy and run the given quick checks against it.  usage: tryref.sh <refactored-id> <PROP>...
id=$1; shift
rm -rf /tmp/x/$id && mkdir -p /tmp/x/$id && cp -r /repo/xtuml /repo/bridgepoint /tmp/x/$id/ && patch -p1 -s -d /tmp/x/$id -i /verif/refactored/$id/patch.diff
for p in "$@"; do
  echo "== $p"; PYX_REPO=/tmp/x/$id PYX_NO_EVIDENCE=1 /venv/bin/python /verif/sa/check.py $p --tier quick | grep "ANALYSIS\| -- " | grep -v "KNOWN\|^RULE\|^  info" | cut -c1-400
done
rm -rf /tmp/x/$id
