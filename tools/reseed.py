#!/venv/bin/python
'''recompute `detected_by` / `analysis_error_in` of seeded changes with the current checker (the confirmation data - demo, test suite -
is not touched).  usage: reseed.py [ID-substring ...]'''
import concurrent.futures, glob, json, os, shutil, subprocess, sys, tempfile
PY = '/venv/bin/python'
PROPS = ['C01','C02','C03','C04','C05','C06','C07','C08','C09','C10','C11','C12','C13','C14','C15','C16','C17','C18','C19','C20']

def one(d):
    t = tempfile.mkdtemp(prefix='pyx-rs-')
    try:
        for pkg in ('xtuml', 'bridgepoint'):
            shutil.copytree('/repo/' + pkg, t + '/' + pkg, ignore=shutil.ignore_patterns('__pycache__', '__oal_*', '__xtuml_*'))
        p = subprocess.run(['patch', '-p1', '-s', '-d', t, '-i', d + '/patch.diff'], capture_output=True, text=True)
        if p.returncode != 0:
            return d, None, None
        det, ae = {}, []
        env = dict(os.environ, PYX_REPO=t, PYX_NO_EVIDENCE='1', PYX_EQUIV_CACHE=t + '-eqc')
        for prop in PROPS:
            o = subprocess.run([PY, '/verif/sa/check.py', prop, '--tier', 'quick'], capture_output=True, text=True, env=env, cwd='/verif')
            lines = [l for l in o.stdout.splitlines() if ' -- ' in l and not l.startswith(('RULE', 'KNOWN-FINDING', '  info'))]
            if o.returncode == 1 and lines:
                det[prop] = [l[:300] for l in lines[:4]]
            elif o.returncode == 2:
                ae.append(prop)
        return d, det, ae
    finally:
        shutil.rmtree(t, ignore_errors=True)
        shutil.rmtree(t + '-eqc', ignore_errors=True)

def main():
    subs = sys.argv[1:]
    dirs = [d for d in sorted(glob.glob('/verif/seeded/*')) if os.path.exists(d + '/patch.diff') and (not subs or any(s in os.path.basename(d) for s in subs))]
    with concurrent.futures.ThreadPoolExecutor(max_workers=14) as ex:
        for d, det, ae in ex.map(one, dirs):
            if det is None:
                print(os.path.basename(d), 'PATCH DOES NOT APPLY'); continue
            m = json.load(open(d + '/meta.json'))
            old = sorted(m.get('detected_by', {}))
            m['detected_by'], m['analysis_error_in'] = det, ae
            json.dump(m, open(d + '/meta.json', 'w'), indent=1)
            print('%-10s breaks %s  detected by %s%s%s' % (os.path.basename(d), m.get('breaks_property'), sorted(det) or 'NOTHING',
                                                         '  (analysis error in %s)' % ae if ae else '', '' if old == sorted(det) else '   [was %s]' % old))
main()
