#!/venv/bin/python
'''false-alarm regression: every behaviour-preserving refactoring in /verif/refactored must leave all checks silent.
usage: refall.py [ID ...]'''
import concurrent.futures, glob, json, os, shutil, subprocess, sys, tempfile
PY = '/venv/bin/python'
PROPS = ['C01','C02','C03','C04','C05','C06','C07','C08','C09','C10','C11','C12','C13','C14','C15','C16','C17','C18','C19','C20']

def prep(d):
    t = tempfile.mkdtemp(prefix='pyx-ref-')
    for pkg in ('xtuml', 'bridgepoint'):
        shutil.copytree(os.path.join('/repo', pkg), os.path.join(t, pkg), ignore=shutil.ignore_patterns('__pycache__', '__oal_*', '__xtuml_*'))
    p = subprocess.run(['patch', '-p1', '-s', '-d', t, '-i', os.path.join(d, 'patch.diff')], capture_output=True, text=True)
    assert p.returncode == 0, p.stdout + p.stderr
    return t

def run(job):
    """all checks for one scratch tree, one after the other (they share the development-only equivalence cache of that tree)"""
    i, t, props = job
    cache = t + '-eqc'
    out = []
    for prop in props:
        env = dict(os.environ, PYX_REPO=t, PYX_NO_EVIDENCE='1', PYX_EQUIV_CACHE=cache)
        p = subprocess.run([PY, '/verif/sa/check.py', prop, '--tier', 'quick'], capture_output=True, text=True, env=env, cwd='/verif')
        lines = [l for l in (p.stdout + p.stderr).splitlines() if (' -- ' in l and not l.startswith(('RULE', 'KNOWN-FINDING', '  info'))) or l.startswith('ANALYSIS-ERROR') or 'Traceback' in l]
        out.append((i, prop, p.returncode, lines))
    shutil.rmtree(cache, ignore_errors=True)
    shutil.rmtree(t, ignore_errors=True)
    return out

def main():
    ids = [a for a in sys.argv[1:] if not a.startswith('-')]
    dirs = [d for d in sorted(glob.glob('/verif/refactored/*')) if not ids or os.path.basename(d) in ids or any(os.path.basename(d).startswith(a + '-') for a in ids)]
    temps = {os.path.basename(d): prep(d) for d in dirs}
    def touches(i, path):
        return path in open('/verif/refactored/%s/patch.diff' % i).read()
    # C16 reads xtuml/meta.py only: a patch that does not touch it cannot change its verdict
    jobs = [(i, t, [p for p in PROPS if p != 'C16' or touches(i, 'xtuml/meta.py')]) for i, t in temps.items()]
    res = {}
    try:
        with concurrent.futures.ThreadPoolExecutor(max_workers=16) as ex:
            for outs in ex.map(run, jobs):
                for i, prop, rc, lines in outs:
                    if rc != 0:
                        res.setdefault(i, []).append((prop, rc, lines))
    finally:
        for t in temps.values():
            shutil.rmtree(t, ignore_errors=True)
    bad = 0
    for i in sorted(temps):
        if i in res:
            bad += 1
            for prop, rc, lines in res[i]:
                print('%-7s %s exit=%d' % (i, prop, rc))
                if '-v' in sys.argv:
                    for l in lines[:4]:
                        print('        ' + l[:260])
        else:
            print('%-7s silent' % i)
    print('%d/%d refactorings leave every check silent' % (len(temps) - bad, len(temps)))
main()
