#!/bin/sh
# dev helper: run one quick check without touching evidence, show only problems
cd /verif && PYX_NO_EVIDENCE=1 /venv/bin/python sa/check.py "$1" --tier quick 2>&1 | grep -E " -- |ANALYSIS-ERROR|Traceback|Error|^  File" | grep -v "^RULE\|^  info" | cut -c1-420
