import json,sys,glob
for f in sorted(glob.glob('/tmp/seed/eval_*.json')):
    try:
        d=json.load(open(f))
    except Exception as e:
        print(f, 'unparsable', open(f).read()[-200:]); continue
    c=d.get('caught_by',{})
    det=sorted(k for k,v in c.items() if v['exit']==1)
    err=sorted(k for k,v in c.items() if v['exit']==2)
    rules=sorted(set(l.split(' -- ')[0].split()[-1] for v in c.values() if v['exit']==1 for l in v['lines'] if ' -- ' in l))
    print('%s-%s %-14s detected_by=%s rules=%s analysis_error=%s' % (d['property'], d['n'], 'confirmed' if d.get('confirmed') else 'NOT-CONFIRMED(%s|%s|%s)'%(d.get('demo_clean_exit'),d.get('tests','')[:20],d.get('demo_mutant_exit')), det, rules, err))
