#!/venv/bin/python
'''dev tool: do the refactorings in /verif/refactored converge to the normal form of the reference tree?
usage: normconv.py [ID ...] [-v]'''
import ast, difflib, glob, json, os, shutil, subprocess, sys, tempfile
sys.path.insert(0, os.path.join(os.path.dirname(os.path.abspath(__file__)), '..'))
from sa.src import Repo
from sa import normal, equiv

def forms(root):
    os.environ['PYX_NO_EQUIV'] = '1'
    r = Repo(root)
    N = normal.Normalizer(r.modules)
    N.run()
    out = {}
    for name, m in r.modules.items():
        for q, fn, cls in N.functions(m.tree, name):
            out[q] = equiv.alpha(fn)
    return out

def alpha(fn):
    """unparse with locals renamed in order of first occurrence (docstring dropped)"""
    import copy
    fn = normal.clone(fn)
    if fn.body and isinstance(fn.body[0], ast.Expr) and isinstance(fn.body[0].value, ast.Constant):
        fn.body = fn.body[1:] or [ast.Pass()]
    params = {a.arg for a in ast.walk(fn.args) if isinstance(a, ast.arg)}
    stored = set()
    for n in ast.walk(fn):
        if isinstance(n, ast.Name) and isinstance(n.ctx, (ast.Store, ast.Del)):
            stored.add(n.id)
        if isinstance(n, ast.arg) and n.arg not in params:
            stored.add(n.arg)
    for n in ast.walk(fn):
        if isinstance(n, ast.Lambda):
            for a in ast.walk(n.args):
                if isinstance(a, ast.arg):
                    stored.add(a.arg)
    mapping = {}
    for n in normal._source_order(fn):
        nm = n.id if isinstance(n, ast.Name) else (n.arg if isinstance(n, ast.arg) else None)
        if nm in stored and nm not in params and nm not in mapping:
            mapping[nm] = 'v%d' % len(mapping)
    for n in ast.walk(fn):
        if isinstance(n, ast.Name) and n.id in mapping:
            n.id = mapping[n.id]
        elif isinstance(n, ast.arg) and n.arg in mapping:
            n.arg = mapping[n.arg]
    return ast.unparse(fn)

def main():
    verbose = '-v' in sys.argv
    ids = [a for a in sys.argv[1:] if not a.startswith('-')]
    base = forms('/repo')
    inv = set(json.load(open('/verif/sa/inventory.json'))['functions'])
    tot = conv = 0
    for d in sorted(glob.glob('/verif/refactored/*')):
        i = os.path.basename(d)
        if ids and i not in ids:
            continue
        t = tempfile.mkdtemp(prefix='pyx-nc-')
        try:
            for pkg in ('xtuml', 'bridgepoint'):
                shutil.copytree(os.path.join('/repo', pkg), os.path.join(t, pkg))
            p = subprocess.run(['patch', '-p1', '-s', '-d', t, '-i', d + '/patch.diff'], capture_output=True, text=True)
            assert p.returncode == 0, p.stdout
            try:
                f = forms(t)
            except Exception as e:
                print(i, 'ERROR', repr(e)); continue
            diff = [q for q in base if q in inv and f.get(q) != base[q]]
            tot += 1
            if not diff:
                conv += 1
            print('%-8s %s' % (i, 'CONVERGES' if not diff else 'differs: ' + ', '.join(diff)))
            if verbose:
                for q in diff:
                    for l in difflib.unified_diff(base[q].splitlines(), (f.get(q) or '').splitlines(), 'reference', 'refactored', lineterm='', n=2):
                        print('      ' + l)
        finally:
            shutil.rmtree(t, ignore_errors=True)
    print('%d/%d converge' % (conv, tot))
main()
