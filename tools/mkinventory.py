#!/venv/bin/python
'''Freeze the function inventory of the reference tree (module:function / module:Class.method) into sa/inventory.json.
A function of the analysed tree that is not in the inventory is a newly introduced helper: sa/normal.py inlines it into
its callers so that rules see what the reference functions now do.  Run only when the reference tree changes.'''
import ast, json, os, sys
root = sys.argv[1] if len(sys.argv) > 1 else '/repo'
out = []
sigs = {}
for pkg in ('xtuml', 'bridgepoint'):
    for fn in sorted(os.listdir(os.path.join(root, pkg))):
        if not fn.endswith('.py') or fn.startswith(('__oal_', '__xtuml_')):
            continue
        mod = pkg if fn == '__init__.py' else '%s.%s' % (pkg, fn[:-3])
        tree = ast.parse(open(os.path.join(root, pkg, fn)).read())
        for n in tree.body:
            if isinstance(n, ast.FunctionDef):
                out.append('%s:%s' % (mod, n.name))
                a = n.args
                if not (a.vararg or a.kwarg or a.kwonlyargs):
                    sigs.setdefault('%s.%s' % (pkg, n.name), []).append([x.arg for x in a.posonlyargs + a.args])
            elif isinstance(n, ast.ClassDef):
                for m in n.body:
                    if isinstance(m, ast.FunctionDef):
                        out.append('%s:%s.%s' % (mod, n.name, m.name))
json.dump({'reference': 'functions of lwriemen/pyxtuml at the pinned commit (plus fix: commits)', 'functions': sorted(set(out)),
           'signatures': {k: v[0] for k, v in sorted(sigs.items()) if len(v) == 1}},
          open(os.path.join(os.path.dirname(os.path.abspath(__file__)), '..', 'sa', 'inventory.json'), 'w'), indent=0)
print(len(set(out)), 'functions')
