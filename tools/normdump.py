#!/venv/bin/python
'''dev tool: print the normal form of functions.  normdump.py [--root DIR] module:qual ... | --all OUTDIR'''
import ast, os, sys
sys.path.insert(0, os.path.join(os.path.dirname(os.path.abspath(__file__)), '..'))
args = sys.argv[1:]
if args and args[0] == '--root':
    os.environ['PYX_REPO'] = args[1]; args = args[2:]
from sa.src import Repo
r = Repo()
if args and args[0] == '--all':
    out = args[1]
    for name, m in r.modules.items():
        p = os.path.join(out, m.relpath)
        os.makedirs(os.path.dirname(p), exist_ok=True)
        open(p, 'w').write(ast.unparse(m.tree) + '\n')
else:
    for q in args:
        print(ast.unparse(r.nfunc(q)))
        print()
