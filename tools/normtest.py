#!/venv/bin/python
'''dev tool (validates the CHECKER, not the repository): writes the normal form of every module into a scratch worktree
and runs the repository's test suite on it -- the normal form must behave like the original.
usage: normtest.py [patch.diff]   (patch applied to the worktree before normalising)'''
import os, subprocess, sys
wt = '/tmp/normtest_wt_%d' % os.getpid()
def sh(c, cwd='/tmp'):
    return subprocess.run(c, shell=True, cwd=cwd, capture_output=True, text=True)
sh('git -C /repo worktree remove --force %s' % wt)
sh('git -C /repo worktree add --detach %s HEAD' % wt)
if len(sys.argv) > 1:
    r = sh('git apply %s' % os.path.abspath(sys.argv[1]), wt)
    assert r.returncode == 0, r.stderr
r = sh('/venv/bin/python /verif/tools/normdump.py --root %s --all %s' % (wt, wt))
print(r.stdout[-2000:], r.stderr[-3000:])
r = sh('/venv/bin/python -m pytest -q -x -p no:cacheprovider tests 2>&1 | tail -40', wt)
print(r.stdout)
sh('git -C /repo worktree remove --force %s' % wt)
