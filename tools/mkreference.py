#!/venv/bin/python
'''Freeze the reference (function inventory, digests, normal forms, sources) of the tree the rules were confirmed on into
sa/reference.json and sa/inventory.json.  Run only when /repo's reference commit changes (e.g. after a fix: commit).'''
import json, os, sys
sys.path.insert(0, os.path.join(os.path.dirname(os.path.abspath(__file__)), '..'))
root = sys.argv[1] if len(sys.argv) > 1 else '/repo'
here = os.path.join(os.path.dirname(os.path.abspath(__file__)), '..', 'sa')
import subprocess
subprocess.check_call(['/venv/bin/python', os.path.join(os.path.dirname(os.path.abspath(__file__)), 'mkinventory.py'), root])
from sa import equiv
ref = equiv.build_reference(root)
try:
    ref['commit'] = subprocess.check_output(['git', '-C', root, 'rev-parse', 'HEAD'], text=True).strip()
except Exception:
    pass
json.dump(ref, open(os.path.join(here, 'reference.json'), 'w'), indent=0, sort_keys=True)
print(len(ref['functions']), 'functions')
