'''
Checker self-test (thorough tier): every rule is run on scratch copies of the analysed tree with ONE instance broken
(must fire and name the rule) and on behaviour-preserving edits (must stay silent).  Copies live under /tmp/pyx-sa-* and
are removed immediately.  Nothing of the analysed code is executed: a variant is just edited source text.
'''
import concurrent.futures
import os
import shutil
import subprocess
import sys
import tempfile

from .src import repo_root

HERE = os.path.dirname(os.path.abspath(__file__))
PY = sys.executable


def _copy_tree(dst):
    root = repo_root()
    for pkg in ('xtuml', 'bridgepoint'):
        os.makedirs(os.path.join(dst, pkg))
        for fn in os.listdir(os.path.join(root, pkg)):
            if fn.endswith('.py') and not fn.startswith('__oal_') and not fn.startswith('__xtuml_'):
                shutil.copy(os.path.join(root, pkg, fn), os.path.join(dst, pkg, fn))


def run_variant(v):
    '''v = dict(id, prop, file, old, new, expect ("fire"|"silent"), rule (substring expected in a VIOLATION report))'''
    d = tempfile.mkdtemp(prefix='pyx-sa-')
    try:
        _copy_tree(d)
        if v.get('patch'):
            pr = subprocess.run(['patch', '-p1', '-s', '-d', d, '-i', v['patch']], capture_output=True, text=True)
            if pr.returncode != 0:
                return dict(v, outcome='not-applicable', detail='patch does not apply to this tree: ' + (pr.stdout + pr.stderr)[:120])
            edits = []
        else:
            edits = v.get('edits') or [(v['file'], v['old'], v['new'])]
        for f, old, new in edits:
            p = os.path.join(d, f)
            strip = lambda t: '\n'.join(l.rstrip() for l in t.split('\n'))
            s, old, new = strip(open(p).read()), strip(old), strip(new)
            if s.count(old) != 1:
                return dict(v, outcome='not-applicable', detail='anchor text occurs %d times in %s' % (s.count(old), f))
            open(p, 'w').write(s.replace(old, new))
        env = dict(os.environ, PYX_REPO=d, PYX_NO_EVIDENCE='1', PYX_EVIDENCE_DIR=os.path.join(d, 'evidence'))
        env.pop('VERIF_TIER', None)
        pr = subprocess.run([PY, os.path.join(HERE, 'check.py'), v['prop'], '--tier', 'quick'], capture_output=True, text=True, env=env, timeout=600)
        out = pr.stdout
        viol = [l for l in out.splitlines() if ' -- ' in l and not l.startswith('KNOWN-FINDING') and not l.startswith('RULE')
                and not l.startswith('  info')]
        if v['expect'] == 'fire':
            hit = pr.returncode == 1 and any(v['rule'] in l for l in viol)
            outcome = 'ok' if hit else 'MISSED'
        else:
            outcome = 'ok' if pr.returncode == 0 else 'FALSE-ALARM'
        detail = ''
        if outcome != 'ok':
            detail = 'exit=%d; %s' % (pr.returncode, ' | '.join(l[:160] for l in (viol or out.splitlines()[-3:]))[:600])
        return dict(v, outcome=outcome, detail=detail, exit=pr.returncode)
    except Exception as e:
        return dict(v, outcome='ERROR', detail=repr(e))
    finally:
        shutil.rmtree(d, ignore_errors=True)


def seeded_variants(prop):
    '''confirmed seeded mutations (from independent sub-agents) that this property's check is recorded to detect'''
    import glob
    import json
    out = []
    base = os.path.join(os.path.dirname(HERE), 'seeded')
    for d in sorted(glob.glob(os.path.join(base, '*'))):
        mp = os.path.join(d, 'meta.json')
        if not os.path.exists(mp):
            continue
        meta = json.load(open(mp))
        if prop in meta.get('detected_by', {}):
            out.append(dict(id='seeded-' + os.path.basename(d), prop=prop, patch=os.path.join(d, 'patch.diff'), expect='fire', rule=prop + '-',
                            what='seeded mutation against %s' % meta.get('breaks_property')))
    return out


def refactoring_variants(prop):
    '''behaviour-preserving refactorings written by independent sub-agents (/verif/refactored): every check must stay silent'''
    import glob
    out = []
    base = os.path.join(os.path.dirname(HERE), 'refactored')
    for d in sorted(glob.glob(os.path.join(base, '*'))):
        pp = os.path.join(d, 'patch.diff')
        if os.path.exists(pp):
            out.append(dict(id='refactoring-' + os.path.basename(d), prop=prop, patch=pp, expect='silent', rule='',
                            what='behaviour-preserving refactoring'))
    return out


def run_for(prop, jobs=16):
    from .selftest_variants import VARIANTS
    vs = [v for v in VARIANTS if v['prop'] == prop] + seeded_variants(prop) + refactoring_variants(prop)
    with concurrent.futures.ThreadPoolExecutor(max_workers=jobs) as ex:
        return list(ex.map(run_variant, vs))


def rule(ctx):
    '''adds the self-test results to a thorough run'''
    res = run_for(ctx.prop)
    r = ctx.rule('%s-SELFTEST' % ctx.prop, 'checker self-test: broken variants fire, behaviour-preserving variants stay silent',
                 floor=0, oracle='scratch copies with one rule instance broken / one harmless edit')
    summary = {'variants': len(res), 'fired': 0, 'silent': 0, 'not_applicable': 0, 'problems': []}
    for x in res:
        if x['outcome'] == 'ok':
            summary['fired' if x['expect'] == 'fire' else 'silent'] += 1
            r.ok('variant %s (%s): %s as expected' % (x['id'], x.get('what', ''), 'reported by ' + x['rule'] if x['expect'] == 'fire' else 'silent'),
                 None, construct=x['id'])
        elif x['outcome'] == 'not-applicable':
            summary['not_applicable'] += 1
            r.info('variant %s not applicable to this tree: %s' % (x['id'], x['detail']))
        else:
            summary['problems'].append({'id': x['id'], 'outcome': x['outcome'], 'detail': x['detail']})
            r.info('SELF-TEST PROBLEM variant %s: %s %s' % (x['id'], x['outcome'], x['detail']))
    ctx.extra['selftest'] = summary
    return summary


if __name__ == '__main__':
    sys.path.insert(0, os.path.dirname(HERE))
    from sa.selftest_variants import VARIANTS
    props = sys.argv[1:] or sorted(set(v['prop'] for v in VARIANTS))
    bad = 0
    for p in props:
        for x in run_for(p):
            flag = '' if x['outcome'] in ('ok',) else '   <<<<<<'
            print('%-4s %-28s %-7s %-14s %s%s' % (p, x['id'], x['expect'], x['outcome'], x['detail'][:300], flag))
            if x['outcome'] not in ('ok', 'not-applicable'):
                bad += 1
    print('problems: %d' % bad)
    sys.exit(1 if bad else 0)
