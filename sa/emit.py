'''
Engine `emit`: the text a string-building function returns, as a sequence of literal pieces and holes, obtained by
abstract execution (sa/absint.py with symbolic locals): `s = a; s += b; return s`, `return a + b`, `'%s x %s' % (a, b)`,
str.format templates and conditional pieces all reduce to the same sequence, so a rule compares WHAT is written, not how
the writer spells the concatenation.
'''
import ast
import re

from .src import AnalysisError, loc, src
from . import normal

_SPEC = re.compile(r'%(?:(%)|([sdr]))')


def flatten(expr, cond=None):
    '''expr -> [('lit', text) | ('hole', ast, conversion)] ; adjacent literals merged'''
    out = []

    def lit(t):
        if not t:
            return
        if out and out[-1][0] == 'lit':
            out[-1] = ('lit', out[-1][1] + t)
        else:
            out.append(('lit', t))

    def rec(e, conv='s'):
        if isinstance(e, ast.IfExp) and cond is not None:
            # a conditional piece: the rule's abstract state says which arm is written
            try:
                which = cond(e.test)
            except AnalysisError:
                which = None
            if which is not None:
                rec(e.body if which else e.orelse, conv)
                return
        if isinstance(e, ast.Constant) and isinstance(e.value, str):
            lit(e.value)
            return
        if isinstance(e, ast.Constant) and isinstance(e.value, int) and not isinstance(e.value, bool) and conv in ('s', 'd'):
            lit(str(e.value))
            return
        if isinstance(e, ast.BinOp) and isinstance(e.op, ast.Add):
            rec(e.left)
            rec(e.right)
            return
        if isinstance(e, ast.BinOp) and isinstance(e.op, ast.Mod) and isinstance(e.left, ast.Constant) and isinstance(e.left.value, str):
            args = list(e.right.elts) if isinstance(e.right, ast.Tuple) else [e.right]
            pos = 0
            k = 0
            t = e.left.value
            for m in _SPEC.finditer(t):
                lit(t[pos:m.start()])
                pos = m.end()
                if m.group(1):
                    lit('%')
                    continue
                if k >= len(args):
                    raise AnalysisError('%s: format `%s` has more fields than arguments' % (loc(e), t))
                rec(args[k], m.group(2))
                k += 1
            if re.search(r'%(?![sdr%])', _SPEC.sub('', t)):
                raise AnalysisError('%s: format `%s` uses a conversion the emission analysis does not know' % (loc(e), t))
            lit(t[pos:])
            if k != len(args):
                raise AnalysisError('%s: format `%s` has fewer fields than arguments' % (loc(e), t))
            return
        if isinstance(e, ast.Call) and isinstance(e.func, ast.Name) and e.func.id == 'str' and len(e.args) == 1 and conv == 's':
            rec(e.args[0], 's')
            return
        out.append(('hole', e, conv))
    rec(normal._Expr().visit(normal.clone(expr)) if any(isinstance(x, ast.Call) and isinstance(x.func, ast.Attribute) and x.func.attr == 'format'
                                                        for x in ast.walk(expr)) else expr)
    return out


def show(seq):
    return ''.join(p[1] if p[0] == 'lit' else '{%s}' % src(p[1]) for p in seq)


def same(seq, expected):
    '''expected: list of ('lit', text) | ('hole', pattern-or-source)'''
    if len(seq) != len(expected):
        return False
    from . import pm
    for a, b in zip(seq, expected):
        if a[0] != b[0]:
            return False
        if a[0] == 'lit':
            if a[1] != b[1]:
                return False
        else:
            if pm.match(b[1], a[1]) is None:
                return False
    return True
