'''
Name-resolved intra-repository call graph (no execution).

Resolution (receiver evidence only, see DESIGN.md precision policy):
  f(...)                 module-level function / class of the same module, or a name imported with `from X import f`
  self.m(...)            m through the in-module MRO of the enclosing class, plus overrides in subclasses
  Class.m(self, ...)     explicit class
  pkg.f(...), mod.f(...) through the import table (package __init__ re-exports are followed)
  x.m(...)               only if m is not a container-method name and is defined by classes of the packages the caller
                         may depend on (xtuml never calls into bridgepoint); all such definitions are candidates
Nested functions and lambdas belong to their enclosing function.
'''
import ast

from .src import dotted, walk_local

CONTAINER_METHODS = {
    'append', 'extend', 'insert', 'remove', 'pop', 'clear', 'add', 'discard', 'update', 'get', 'items', 'keys',
    'values', 'setdefault', 'sort', 'index', 'count', 'copy', 'join', 'split', 'strip', 'upper', 'lower', 'replace',
    'format', 'startswith', 'endswith', 'read', 'write', 'close', 'open', 'isdigit', 'splitlines', 'rfind', 'find',
    'casefold', 'encode', 'decode', 'union', 'intersection', 'difference', 'popleft', 'appendleft',
    'debug', 'info', 'warning', 'error', 'exception', 'critical', 'set', 'tostring', 'skip', 'parse', 'token', 'lex',
    'yacc', 'print_help', 'parse_args', 'add_option', 'set_description', 'exit', 'walk', 'isdir', 'dirname',
    'lineno', 'lexpos', 'lexspan', 'linespan', 'fget', 'fset',
}


class CallGraph(object):
    def __init__(self, repo):
        self.repo = repo
        self.funcs = {}        # qual -> FunctionDef
        self.cls_of = {}       # qual -> ClassDef or None
        self.classes = {}      # 'mod:Class' -> ClassDef
        self.by_method = {}    # method name -> [qual]
        self.imports = {}      # modname -> {local name: ('module', name) | ('from', module, name)}
        for modname, mod in repo.modules.items():
            self._imports(modname, mod)
            for node in mod.tree.body:
                if isinstance(node, ast.FunctionDef):
                    self.funcs['%s:%s' % (modname, node.name)] = node
                    self.cls_of['%s:%s' % (modname, node.name)] = None
                elif isinstance(node, ast.ClassDef):
                    self.classes['%s:%s' % (modname, node.name)] = node
                    for m in node.body:
                        if isinstance(m, ast.FunctionDef):
                            q = '%s:%s.%s' % (modname, node.name, m.name)
                            self.funcs[q] = m
                            self.cls_of[q] = node
                            self.by_method.setdefault(m.name, []).append(q)
        self._edges = {}

    def _imports(self, modname, mod):
        table = {}
        pkg = modname.split('.')[0]
        for node in ast.walk(mod.tree):
            if isinstance(node, ast.Import):
                for a in node.names:
                    table[a.asname or a.name.split('.')[0]] = ('module', a.name if a.asname else a.name.split('.')[0])
            elif isinstance(node, ast.ImportFrom):
                base = node.module or ''
                if node.level:
                    base = pkg + ('.' + base if base else '')
                for a in node.names:
                    table[a.asname or a.name] = ('from', base, a.name)
        self.imports[modname] = table

    # -- resolution -------------------------------------------------------------
    def resolve_name(self, modname, name, depth=0):
        '''a bare name used in module -> list of quals (function, or class constructors)'''
        if depth > 5:
            return []
        q = '%s:%s' % (modname, name)
        if q in self.funcs:
            return [q]
        if q in self.classes:
            return self._ctor(q)
        # module-level alias  X = Y
        mod = self.repo.modules.get(modname)
        if mod is not None:
            for st in mod.tree.body:
                if isinstance(st, ast.Assign) and len(st.targets) == 1 and isinstance(st.targets[0], ast.Name) \
                        and st.targets[0].id == name and isinstance(st.value, ast.Name):
                    return self.resolve_name(modname, st.value.id, depth + 1)
        imp = self.imports.get(modname, {}).get(name)
        if imp and imp[0] == 'from':
            target_mod = imp[1]
            if target_mod in self.repo.modules:
                return self.resolve_name(target_mod, imp[2], depth + 1)
            sub = '%s.%s' % (target_mod, imp[2])
            if sub in self.repo.modules:
                return []
        return []

    def _ctor(self, clsq):
        modname = clsq.split(':')[0]
        cls = self.classes[clsq]
        for c in self.repo.mro(cls):
            q = '%s:%s.__init__' % (c._module.name, c.name)
            if q in self.funcs:
                return [q]
        return []

    def _method_in_class(self, cls, name):
        out = []
        for c in self.repo.mro(cls):
            q = '%s:%s.%s' % (c._module.name, c.name, name)
            if q in self.funcs:
                out.append(q)
                break
        # resolve bases living in another module (e.g. bridgepoint ModelLoader(xtuml.ModelLoader))
        if not out:
            for c in self.repo.mro(cls):
                for b in c.bases:
                    d = dotted(b)
                    if d and '.' in d:
                        head, _, tail = d.partition('.')
                        imp = self.imports.get(c._module.name, {}).get(head)
                        if imp and imp[0] == 'module':
                            for cand in self.resolve_attr_module(imp[1], tail):
                                if cand in self.classes:
                                    out.extend(self._method_in_class(self.classes[cand], name))
        # overrides in subclasses anywhere
        for q2, c2 in self.classes.items():
            if c2 is cls:
                continue
            if self._is_subclass(c2, cls):
                q = '%s.%s' % (q2, name)
                if q in self.funcs:
                    out.append(q)
        return out

    def _is_subclass(self, c, base):
        for b in c.bases:
            d = dotted(b)
            if d is None:
                continue
            if d.split('.')[-1] == base.name:
                return True
        return False

    def resolve_attr_module(self, modname, attr, depth=0):
        '''pkg.attr -> class or function quals, following __init__ re-exports'''
        if depth > 5 or modname not in self.repo.modules:
            sub = '%s.%s' % (modname, attr)
            return []
        q = '%s:%s' % (modname, attr)
        if q in self.funcs or q in self.classes:
            return [q]
        imp = self.imports.get(modname, {}).get(attr)
        if imp and imp[0] == 'from' and imp[1] in self.repo.modules:
            return self.resolve_attr_module(imp[1], imp[2], depth + 1)
        return []

    def callees(self, qual):
        if qual in self._edges:
            return self._edges[qual]
        fn = self.funcs[qual]
        modname = qual.split(':')[0]
        pkg = modname.split('.')[0]
        cls = self.cls_of[qual]
        out = set()
        for node in ast.walk(fn):
            if isinstance(node, ast.Attribute) and isinstance(node.value, ast.Name) and node.value.id == 'self' \
                    and cls is not None and isinstance(node.ctx, ast.Load):
                # method value (fn = self.m ; fn(...)) counts as a potential call
                out.update(self._method_in_class(cls, node.attr))
            if not isinstance(node, ast.Call):
                continue
            f = node.func
            if isinstance(f, ast.Name):
                out.update(self.resolve_name(modname, f.id))
                continue
            if not isinstance(f, ast.Attribute):
                continue
            recv = f.value
            name = f.attr
            if isinstance(recv, ast.Name) and recv.id == 'self' and cls is not None:
                out.update(self._method_in_class(cls, name))
                continue
            d = dotted(recv)
            if d is not None:
                head = d.split('.')[0]
                imp = self.imports.get(modname, {}).get(head)
                if imp and imp[0] == 'module' and '.' not in d:
                    res = self.resolve_attr_module(imp[1], name)
                    expanded = []
                    for q in res:
                        expanded.extend(self._ctor(q) if q in self.classes else [q])
                    out.update(expanded)
                    if res:
                        continue
                    sub = '%s.%s' % (imp[1], name)
                    continue
                if imp and imp[0] == 'module' and d.count('.') == 1:
                    # xtuml.ModelLoader.filename_input(self, ...)
                    res = self.resolve_attr_module(imp[1], d.split('.')[1])
                    hit = False
                    for q in res:
                        if q in self.classes:
                            out.update(self._method_in_class(self.classes[q], name))
                            hit = True
                    if hit:
                        continue
                # ClassName.m(...)
                cq = '%s:%s' % (modname, d)
                if cq in self.classes:
                    out.update(self._method_in_class(self.classes[cq], name))
                    continue
            if name in CONTAINER_METHODS:
                continue
            for q in self.by_method.get(name, []):
                qpkg = q.split('.')[0].split(':')[0]
                if pkg == 'xtuml' and qpkg != 'xtuml':
                    continue
                out.add(q)
        self._edges[qual] = out
        return out

    def reachable(self, roots):
        seen = set()
        stack = list(roots)
        while stack:
            q = stack.pop()
            if q in seen or q not in self.funcs:
                continue
            seen.add(q)
            stack.extend(self.callees(q))
        return seen

    def path(self, root, target):
        '''one call path root -> target for diagnostics'''
        prev = {root: None}
        queue = [root]
        while queue:
            q = queue.pop(0)
            if q == target:
                out = []
                while q is not None:
                    out.append(q)
                    q = prev[q]
                return list(reversed(out))
            for c in sorted(self.callees(q)) if q in self.funcs else []:
                if c not in prev:
                    prev[c] = q
                    queue.append(c)
        return None
