'''
Engine `cfg`: a statement-level control-flow graph over the statement kinds
this repository uses, with path enumeration, dominators and a few path
queries.  Nodes are simple statements, branch tests, loop heads, `with`
heads and `except` heads.  Built per function from its `ast`; nothing is
executed.
'''
import ast

from .src import AnalysisError, loc, src


class N(object):
    __slots__ = ('id', 'kind', 'ast', 'label')

    def __init__(self, id_, kind, node=None, label=''):
        self.id = id_
        self.kind = kind      # entry exit raise falloff stmt test for with except
        self.ast = node
        self.label = label

    def __repr__(self):
        if self.ast is not None:
            s = src(self.ast).split('\n')[0][:60]
            return '<%d %s %s:%s>' % (self.id, self.kind, getattr(self.ast, 'lineno', '?'), s)
        return '<%d %s>' % (self.id, self.kind)


class CFG(object):
    def __init__(self, fn):
        self.fn = fn
        self.nodes = []
        self.succ = {}
        self.entry = self._new('entry')
        self.exit = self._new('exit')        # normal exit (return / fall off)
        self.raise_exit = self._new('raise')   # exceptional exit
        self._loops = []                       # (continue_target, break_target_collector)
        self._handlers = []                    # stack of lists of handler entry nodes
        body = fn.body
        ends = self._seq(body, [(self.entry, '')])
        if ends:
            fo = self._new('falloff', fn)
            self._connect(ends, fo)
            self._edge(fo, self.exit, '')

    # -- construction --------------------------------------------------------
    def _new(self, kind, node=None, label=''):
        n = N(len(self.nodes), kind, node, label)
        self.nodes.append(n)
        self.succ[n.id] = []
        return n

    def _edge(self, a, b, label=''):
        if (b.id, label) not in self.succ[a.id]:
            self.succ[a.id].append((b.id, label))

    def _connect(self, ends, node):
        for a, label in ends:
            self._edge(a, node, label)

    def _exc_edges(self, node):
        '''node may raise: connect to every enclosing handler (conservative)'''
        for handlers in self._handlers:
            for h in handlers:
                self._edge(node, h, 'exc')

    def _seq(self, stmts, ends):
        for st in stmts:
            if not ends:
                break    # unreachable code after return/raise/break/continue
            ends = self._stmt(st, ends)
        return ends

    def _stmt(self, st, ends):
        if isinstance(st, ast.If):
            t = self._new('test', st.test)
            t.label = 'if'
            self._connect(ends, t)
            self._exc_edges(t)
            out = self._seq(st.body, [(t, 'T')])
            if st.orelse:
                out = out + self._seq(st.orelse, [(t, 'F')])
            else:
                out = out + [(t, 'F')]
            return out
        if isinstance(st, ast.While):
            t = self._new('test', st.test)
            t.label = 'while'
            self._connect(ends, t)
            self._exc_edges(t)
            breaks = []
            self._loops.append((t, breaks))
            body_ends = self._seq(st.body, [(t, 'T')])
            self._loops.pop()
            self._connect(body_ends, t)
            out = [(t, 'F')]
            if st.orelse:
                out = self._seq(st.orelse, out)
            return out + breaks
        if isinstance(st, ast.For):
            h = self._new('for', st)
            self._connect(ends, h)
            self._exc_edges(h)
            breaks = []
            self._loops.append((h, breaks))
            body_ends = self._seq(st.body, [(h, 'T')])
            self._loops.pop()
            self._connect(body_ends, h)
            out = [(h, 'F')]
            if st.orelse:
                out = self._seq(st.orelse, out)
            return out + breaks
        if isinstance(st, ast.With):
            w = self._new('with', st)
            self._connect(ends, w)
            self._exc_edges(w)
            return self._seq(st.body, [(w, '')])
        if isinstance(st, ast.Try):
            if st.finalbody:
                raise AnalysisError('%s: try/finally is not modelled by the CFG engine' % loc(st))
            handlers = [self._new('except', h) for h in st.handlers]
            self._handlers.append(handlers)
            first = len(self.nodes)
            body_ends = self._seq(st.body, ends)
            self._handlers.pop()
            # also: the statement preceding the try may flow into the body and
            # the very first body statement may raise -> handled by _exc_edges
            if st.orelse:
                body_ends = self._seq(st.orelse, body_ends)
            out = list(body_ends)
            for hnode, h in zip(handlers, st.handlers):
                out = out + self._seq(h.body, [(hnode, '')])
            return out
        if isinstance(st, ast.Return):
            n = self._new('stmt', st)
            self._connect(ends, n)
            self._exc_edges(n)
            self._edge(n, self.exit, 'return')
            return []
        if isinstance(st, ast.Raise):
            n = self._new('stmt', st)
            self._connect(ends, n)
            self._exc_edges(n)
            self._edge(n, self.raise_exit, 'raise')
            return []
        if isinstance(st, ast.Break):
            n = self._new('stmt', st)
            self._connect(ends, n)
            if not self._loops:
                raise AnalysisError('%s: break outside loop' % loc(st))
            self._loops[-1][1].append((n, 'break'))
            return []
        if isinstance(st, ast.Continue):
            n = self._new('stmt', st)
            self._connect(ends, n)
            if not self._loops:
                raise AnalysisError('%s: continue outside loop' % loc(st))
            self._edge(n, self._loops[-1][0], 'continue')
            return []
        if isinstance(st, (ast.Expr, ast.Assign, ast.AugAssign, ast.AnnAssign, ast.Pass,
                           ast.Delete, ast.Assert, ast.Import, ast.ImportFrom,
                           ast.Global, ast.Nonlocal, ast.FunctionDef, ast.ClassDef)):
            n = self._new('stmt', st)
            self._connect(ends, n)
            if not isinstance(st, (ast.Pass, ast.FunctionDef, ast.ClassDef, ast.Global, ast.Nonlocal)):
                self._exc_edges(n)
            return [(n, '')]
        raise AnalysisError('%s: statement kind %s is not modelled by the CFG engine'
                            % (loc(st), type(st).__name__))

    # -- queries -------------------------------------------------------------
    def node(self, i):
        return self.nodes[i]

    def stmt_nodes(self):
        return [n for n in self.nodes if n.kind in ('stmt', 'test', 'for', 'with', 'except')]

    def paths(self, max_visits=2, limit=20000, follow_exc=True):
        '''Enumerate entry->(exit|raise) paths as lists of (node, out_label).
        A node may occur at most max_visits times on a path (loops are unrolled
        max_visits-1 times).'''
        out = []
        count = {}
        path = []

        def dfs(nid):
            n = self.nodes[nid]
            if n.kind in ('exit', 'raise'):
                out.append(list(path) + [(n, '')])
                if len(out) > limit:
                    raise AnalysisError('%s: more than %d paths in %s'
                                        % (loc(self.fn), limit, self.fn.name))
                return
            c = count.get(nid, 0)
            if c >= max_visits:
                return
            count[nid] = c + 1
            for (m, label) in self.succ[nid]:
                if label == 'exc' and not follow_exc:
                    continue
                path.append((n, label))
                dfs(m)
                path.pop()
            count[nid] = c

        dfs(self.entry.id)
        return out

    def reachable(self, start_ids, follow_exc=True):
        seen = set()
        stack = list(start_ids)
        while stack:
            i = stack.pop()
            if i in seen:
                continue
            seen.add(i)
            for (m, label) in self.succ[i]:
                if label == 'exc' and not follow_exc:
                    continue
                stack.append(m)
        return seen

    def dominators(self, follow_exc=True):
        '''node id -> set of ids dominating it (including itself)'''
        reach = self.reachable([self.entry.id], follow_exc)
        preds = {i: set() for i in reach}
        for i in reach:
            for (m, label) in self.succ[i]:
                if label == 'exc' and not follow_exc:
                    continue
                if m in reach:
                    preds[m].add(i)
        dom = {i: set(reach) for i in reach}
        dom[self.entry.id] = {self.entry.id}
        changed = True
        order = sorted(reach)
        while changed:
            changed = False
            for i in order:
                if i == self.entry.id:
                    continue
                ps = [dom[p] for p in preds[i]]
                new = set.intersection(*ps) if ps else set()
                new = new | {i}
                if new != dom[i]:
                    dom[i] = new
                    changed = True
        return dom

    def find_nodes(self, pred):
        return [n for n in self.nodes if n.ast is not None and n.kind != 'falloff' and pred(n)]

    def node_of(self, ast_node):
        '''CFG node whose ast is (or contains) ast_node'''
        cur = ast_node
        while cur is not None:
            for n in self.nodes:
                if n.ast is cur and n.kind != 'falloff':
                    return n
                if n.kind == 'for' and n.ast is cur:
                    return n
            cur = getattr(cur, '_parent', None)
            if cur is self.fn:
                break
        return None


def build(fn):
    return CFG(fn)


def node_exprs(n):
    '''the expression(s) evaluated at a CFG node (not the nested bodies)'''
    if n.kind in ('stmt',):
        return [n.ast]
    if n.kind == 'test':
        return [n.ast]
    if n.kind == 'for':
        return [n.ast.target, n.ast.iter]
    if n.kind == 'with':
        return [i.context_expr for i in n.ast.items]
    if n.kind == 'except':
        return [n.ast.type] if n.ast.type is not None else []
    return []
