'''
Variants for the checker self-test.  Each entry edits ONE place of a scratch copy.
expect='fire'   : the named rule must report a violation (exit 1)
expect='silent' : behaviour-preserving edit, the check must still exit 0
'''
M = 'xtuml/meta.py'
LO = 'xtuml/load.py'
PE = 'xtuml/persist.py'
CC = 'xtuml/consistency_check.py'
TO = 'xtuml/tools.py'
OAL = 'bridgepoint/oal.py'
INT = 'bridgepoint/interpret.py'
PB = 'bridgepoint/prebuild.py'
SG = 'bridgepoint/sourcegen.py'
OOA = 'bridgepoint/ooaofooa.py'
XSD = 'bridgepoint/gen_xsd_schema.py'

VARIANTS = []


def v(id_, prop, file, old, new, expect, rule='', what=''):
    VARIANTS.append(dict(id=id_, prop=prop, file=file, old=old, new=new, expect=expect, rule=rule, what=what))


# ---------------------------------------------------------------- C01
v('c01-unescaped-string', 'C01', PE, """lambda v: "'%s'" % v.replace("'", "''"),""", """lambda v: "'%s'" % v,""", 'fire', 'C01-',
  'string values written without doubling quotes')
v('c01-db-drops-indices', 'C01', PE, """            for index_name, attribute_names in metaclass.indices.items():
                attribute_names = ', '.join(attribute_names)
                s = 'CREATE UNIQUE INDEX %s ON %s (%s);\\n' % (index_name,
                                                              metaclass.kind,
                                                              attribute_names)
                f.write(s)

        for ass in sorted""", """        for ass in sorted""", 'fire', 'C01-ROUTES', 'persist_database forgets unique identifiers')
v('c01-rop-ends-swapped', 'C01', PE, """    return 'CREATE ROP REF_ID %s FROM %s TO %s;\\n' % (ass.rel_id,
                                                      s1,
                                                      s2)""", """    return 'CREATE ROP REF_ID %s FROM %s TO %s;\\n' % (ass.rel_id,
                                                      s2,
                                                      s1)""", 'fire', 'C01-ROP-ID', 'FROM/TO ends exchanged in the writer')
v('c01-phrase-not-crossed', 'C01', PE, """    if ass.target_link.phrase:
        s1 += " PHRASE '%s'" % ass.target_link.phrase.replace("'", "''")""", """    if ass.source_link.phrase:
        s1 += " PHRASE '%s'" % ass.source_link.phrase.replace("'", "''")""", 'fire', 'C01-ROP-ID', 'phrase of the wrong link written at FROM')
v('c01-null-id', 'C01', PE, "'UNIQUE_ID' : 0\n", "'UNIQUE_ID' : None\n", 'fire', 'C01-TYPES', 'null id written as None')
v('c01-type-missing-reader', 'C01', LO, "        elif uty == 'REAL': \n            return float(value)\n\n", "", 'fire', 'C01-', 'reader lost the REAL branch')
v('c01-persist-instances-skip', 'C01', PE, """        for inst in metamodel.instances:
            s = serialize_instance(inst)
            f.write(s)


def persist_schema""", """        for inst in metamodel.instances:
            s = serialize_instance(inst)


def persist_schema""", 'fire', 'C01-ROUTES', 'persist_instances produces text but does not write it')
v('c01-reader-keys-kind-swapped', 'C01', LO, "        p[0] = (p[2], p[1], p[4], '')", "        p[0] = (p[1], p[2], p[4], '')", 'fire', 'C01-ROP-ID',
  'association_end tuple order changed in one production')
v('c01-storage-sorted', 'C01', M, "        s = apply_query_operators(self.storage, args)\n        return next(iter(s), None)",
  "        self.storage.sort(key=id)\n        s = apply_query_operators(self.storage, args)\n        return next(iter(s), None)", 'fire', 'C01-ORDER',
  'select_one reorders the pool')
v('c01-reserved-not-identifier', 'C01', LO, "                   | ON\n                   | TRUE", "                   | TRUE", 'fire', 'C01-IDENT',
  'reserved word ON no longer usable as identifier')
v('c01-silent-rename', 'C01', PE, "    attr_count = 0\n", "    attr_count = 0  # number of attributes written so far\n", 'silent', '', 'comment only')

# ---------------------------------------------------------------- C02
v('c02-idempotent-after-check', 'C02', M, """        if another_instance in self[instance]:
            return True

        if self[instance] and not self.many and check:
            return False
""", """        if self[instance] and not self.many and check:
            return False

        if another_instance in self[instance]:
            return True
""", 'fire', 'C02-LINKOPS', 'relating an already related pair on a single-valued end is rejected')
v('c02-no-compensation', 'C02', M, "        ass.source_link.disconnect(inst1, inst2)\n        raise RelateException", "        raise RelateException", 'fire', 'C02-ATOMIC',
  'rejected relate leaves one direction connected')
v('c02-find-link-no-swap', 'C02', M, "            return inst2, inst1, ass", "            return inst1, inst2, ass", 'fire', 'C02-SWAP', 'target_link branch does not swap')
v('c02-delete-args', 'C02', M, "                unrelate(instance, other, link.rel_id, link.phrase)", "                unrelate(other, instance, link.rel_id, link.phrase)",
  'fire', 'C02-DELETE', 'delete unrelates in the wrong direction')
v('c02-batch-unpaired', 'C02', M, "                self.target_link.connect(inst1, inst2, check=False)", "                self.target_link.connect(inst2, inst1, check=False)",
  'fire', 'C02-', 'batch_relate connects the target link with swapped instances')
v('c02-disconnect-del-always', 'C02', M, "        if len(self[instance]) == 0:\n            del self[instance]", "        del self[instance]", 'fire', 'C02-LINKOPS',
  'disconnect drops all partners')
v('c02-many-ignored', 'C02', M, "        if self[instance] and not self.many and check:", "        if self[instance] and check:", 'fire', 'C02-LINKOPS',
  'many-valued ends reject a second partner')
v('c02-unrelate-one-side', 'C02', M, """    if not ass.target_link.disconnect(inst2, inst1):
        raise UnrelateException(from_instance, to_instance, rel_id, phrase)

    return True""", """    return True""", 'fire', 'C02-ATOMIC', 'unrelate only disconnects one direction')
v('c02-setter-silent', 'C02', M, """            raise MetaException('%s.%s is a referential attribute '\\
                                'and cannot be assigned directly'% (kind, name))""", """            return None""", 'fire', 'C02-REF',
  'referential attributes become assignable')
v('c02-roles-phrase', 'C02', M, "                                                phrase=target_phrase,\n                                                conditional=source_conditional)",
  "                                                phrase=source_phrase,\n                                                conditional=source_conditional)", 'fire', 'C02-SWAP',
  'source_link gets the wrong phrase')
v('c02-silent-reorder-cond', 'C02', M, "        if self[instance] and not self.many and check:", "        if check and (not self.many) and len(self[instance]) > 0:", 'silent', '',
  'equivalent condition')
v('c02-silent-result-vars', 'C02', M, """    if not ass.source_link.connect(inst1, inst2):
        raise RelateException(from_instance, to_instance, rel_id, phrase)
""", """    connected = ass.source_link.connect(inst1, inst2)
    if not connected:
        raise RelateException(from_instance, to_instance, rel_id, phrase)
""", 'silent', '', 'result kept in a variable')

# ---------------------------------------------------------------- C03
v('c03-phase-order', 'C03', LO, "        self.populate_instances(metamodel)\n        self.populate_connections(metamodel)", "        self.populate_connections(metamodel)\n        self.populate_instances(metamodel)",
  'fire', 'C03-PHASES', 'connections before instances')
v('c03-index-null-not-skipped', 'C03', M, """        for attr in self.key_map.values():
            if _is_null(to_instance, attr):
                return None
            """, """        for attr in self.key_map.values():
            """, 'fire', 'C03-KEYS', 'null identifying values take part in the join')
v('c03-probe-target-link', 'C03', LO, "                inst_key = ass.source_link.compute_lookup_key(inst)", "                inst_key = ass.target_link.compute_lookup_key(inst)", 'fire', 'C03-KEYS',
  'probe with the other link')
v('c03-zip-only-first', 'C03', OOA, "                for zipinfo in zipinput.filelist:", "                for zipinfo in zipinput.filelist[:1]:", 'silent', '', 'not decided (value of a slice) - documents a blind spot')
v('c03-isnull-empty-string', 'C03', M, "            return len(value) == 0\n", "            return False\n", 'fire', 'C03-KEYS', 'empty string keys are no longer null')
v('c03-stmt-dropped', 'C03', LO, "            if isinstance(stmt, CreateUniqueStmt):", "            if isinstance(stmt, CreateClassStmt):", 'fire', 'C03-PARTITION', 'unique statements never consumed')
v('c03-input-bypass', 'C03', LO, "        return self.input(file_object.read(), name=file_object.name)", "        return self.parser.parse(input=file_object.read())", 'fire', 'C03-FUNNEL',
  'file_input bypasses input()')
v('c03-silent-comment', 'C03', LO, "        self.populate_classes(metamodel)\n", "        # classes first\n        self.populate_classes(metamodel)\n", 'silent', '', 'comment')

# ---------------------------------------------------------------- C04
v('c04-minus-swapped', 'C04', INT, "'-':   lambda lhs, rhs: (lhs - rhs),", "'-':   lambda lhs, rhs: (rhs - lhs),", 'fire', 'C04-OPS', 'operands of - swapped')
v('c04-le-as-lt', 'C04', INT, "'<=':  lambda lhs, rhs: (lhs <= rhs),", "'<=':  lambda lhs, rhs: (lhs < rhs),", 'fire', 'C04-OPS', '<= computes <')
v('c04-break-continue', 'C04', INT, """            except ContinueException:
                continue
            except BreakException:
                break

    def accept_IfNode""", """            except ContinueException:
                break
            except BreakException:
                continue

    def accept_IfNode""", 'fire', 'C04-CONTROL', 'for each maps continue to break')
v('c04-where-no-block', 'C04', INT, """        def where(selected):
            self.symtab.enter_block()
            self.symtab.install_symbol('selected', selected)
            value = self.accept(node.where_clause)
            self.symtab.leave_block()
            return value.fget()

        if node.many:
            handle = self.domain.select_many(node.key_letter, where)""", """        def where(selected):
            self.symtab.install_symbol('selected', selected)
            value = self.accept(node.where_clause)
            return value.fget()

        if node.many:
            handle = self.domain.select_many(node.key_letter, where)""", 'fire', 'C04-SCOPE', 'selected leaks into the enclosing block')
v('c04-relate-swapped', 'C04', INT, "        xtuml.relate(inst1, inst2, node.rel_id, node.phrase.replace(\"'\", ''))", "        xtuml.relate(inst2, inst1, node.rel_id, node.phrase.replace(\"'\", ''))",
  'fire', 'C04-SLOTS', 'relate from/to exchanged')
v('c04-elif-all', 'C04', INT, "            if self.accept(child):\n                return True", "            self.accept(child)", 'fire', 'C04-CONTROL', 'every true elif clause runs')
v('c04-handler-removed', 'C04', INT, "    def accept_ControlNode(self, node):\n        raise StopException()\n", "", 'fire', 'C04-', 'control stop unsupported')
v('c04-select-inverted', 'C04', INT, """        if node.many:
            handle = self.domain.select_many(node.key_letter)
        else:
            handle = self.domain.select_any(node.key_letter)""", """        if not node.many:
            handle = self.domain.select_many(node.key_letter)
        else:
            handle = self.domain.select_any(node.key_letter)""", 'fire', 'C04-SELECT', 'select any returns a set')
v('c04-silent-inline', 'C04', INT, """        inst = self.symtab.find_symbol(node.variable_name)
        xtuml.delete(inst)""", """        xtuml.delete(self.symtab.find_symbol(node.variable_name))""", 'silent', '', 'temporary inlined')

# ---------------------------------------------------------------- C05
v('c05-reader-816', 'C05', SG, "        self.accept(one(inst).V_PAR[816, 'precedes']())", "        self.accept(one(inst).V_PAR[816, 'succeeds']())", 'fire', 'C05-CHAIN', 'parameters advance backwards')
v('c05-relate-615-616', 'C05', PB, "        relate(act_rel, v_var_from, 615)\n        relate(act_rel, v_var_to, 616)", "        relate(act_rel, v_var_from, 616)\n        relate(act_rel, v_var_to, 615)",
  'fire', 'C05-ROLES', 'from/to variables stored over exchanged associations')
v('c05-gen-assign-order', 'C05', SG, """        self.accept(one(inst).V_VAL[689]())
        self.buf(' = ')
        self.accept(one(inst).V_VAL[609]())""", """        self.accept(one(inst).V_VAL[609]())
        self.buf(' = ')
        self.accept(one(inst).V_VAL[689]())""", 'fire', 'C05-ROLES', 'assignment generated as r-value = l-value')
v('c05-string-no-quotes', 'C05', SG, "        self.buf('\"%s\"' % inst.Value)", "        self.buf(inst.Value)", 'fire', 'C05-LITERALS', 'string literal regenerated without quotes')
v('c05-gen-missing', 'C05', SG, "    def accept_ACT_CTL(self, inst):\n        self.buf('control stop')\n", "", 'fire', 'C05-HANDLERS', 'no generator for control stop')
v('c05-bad-nav', 'C05', SG, "        self.accept(one(inst).V_VAR[633]())", "        self.accept(one(inst).V_VAR[634]())", 'fire', 'C05-KINDS', 'ACT_CR navigates R634 (belongs to ACT_DEL)')
v('c05-silent-local', 'C05', SG, "        o_obj = one(inst).O_OBJ[672]()\n        self.buf('create object instance of ', o_obj.Key_Lett)",
  "        o = one(inst).O_OBJ[672]()\n        self.buf('create object instance of ', o.Key_Lett)", 'silent', '', 'local renamed')

v('c05-sent-keyword', 'C05', SG, "        self.buf(' to ')\n        self.accept(one(inst).V_VAR[616]())", "        self.buf(' from ')\n        self.accept(one(inst).V_VAR[616]())", 'fire', 'C05-SENTENTIAL',
  'relate generated with `from`')
v('c05-sent-missing-across', 'C05', SG, "        r_rel = one(inst).R_REL[655]()\n        self.buf(' across R', str(r_rel.Numb))", "        r_rel = one(inst).R_REL[655]()\n        self.buf(' R', str(r_rel.Numb))", 'fire', 'C05-SENTENTIAL',
  'unrelate generated without `across`')
v('c05-sent-bridge-value', 'C05', SG, "        self.buf(s_ee.Key_Lett, '::', s_brg.Name)\n        self.buf('(')\n        first_filter = lambda sel: one(sel).V_PAR[816, 'succeeds']() is None\n        self.accept(any(inst).V_PAR[810](first_filter))",
  "        self.buf('bridge ', s_ee.Key_Lett, '::', s_brg.Name)\n        self.buf('(')\n        first_filter = lambda sel: one(sel).V_PAR[816, 'succeeds']() is None\n        self.accept(any(inst).V_PAR[810](first_filter))", 'fire', 'C05-SENTENTIAL',
  'bridge keyword in value position')
v('c05-sent-unary-noparen', 'C05', SG, "        self.buf('(')\n        self.buf(inst.Operator, ' ')\n        self.accept(one(inst).V_VAL[804]())\n        self.buf(')')", "        self.buf(inst.Operator, ' ')\n        self.accept(one(inst).V_VAL[804]())", 'silent', '',
  'unary without parentheses still derives from expression (precedence is not a parse matter)')
v('c05-sent-while-end', 'C05', SG, "        self.buf('end while')", "        self.buf('end loop')", 'fire', 'C05-SENTENTIAL', 'while terminated by `end loop`')
v('c05-sent-select-where', 'C05', SG, "        self.buf(' from instances of ', o_obj.Key_Lett)\n        self.buf(' where ')", "        self.buf(' from instances of ', o_obj.Key_Lett)\n        self.buf(' when ')", 'fire', 'C05-SENTENTIAL', 'where keyword wrong')

# ---------------------------------------------------------------- C06
v('c06-661-reverted', 'C06', PB, "            xtuml.relate(act_smt, prev, 661, 'succeeds')", "            xtuml.relate(prev, act_smt, 661, 'succeeds')", 'fire', 'C06-CHAIN', 'Previous_Statement_ID designates the next statement')
v('c06-missing-relate', 'C06', PB, "        relate(act_rel, r_rel, 653)\n", "", 'fire', 'C06-OBLIG', 'ACT_REL not related to its R_REL')
v('c06-wrong-kind', 'C06', PB, "        relate(act_cr, o_obj, 671)", "        relate(act_cr, o_obj, 672)", 'fire', 'C06-', 'ACT_CR related over the association of ACT_CNV')
v('c06-no-subtype', 'C06', PB, "        relate(act_brk, act_smt, 603)\n", "", 'fire', 'C06-', 'break statement without subtype relation')
v('c06-no-return', 'C06', PB, """        relate(act_con, act_smt, 603)

        return act_smt

    def accept_ControlNode""", """        relate(act_con, act_smt, 603)

    def accept_ControlNode""", 'fire', 'C06-RETURN', 'continue handler returns nothing')
v('c06-endpos-start', 'C06', PB, "        act_smt.EndPosition = node.position.end_column", "        act_smt.EndPosition = node.position.start_column", 'fire', 'C06-POS', 'EndPosition from start column')
v('c06-cardinality-type', 'C06', PB, "        elif operator == 'cardinality':\n            s_dt = self.s_dt('integer')", "        elif operator == 'cardinality':\n            s_dt = self.s_dt('boolean')",
  'fire', 'C06-TYPES', 'cardinality typed boolean')
v('c06-no-820', 'C06', PB, """        v_val = self.v_val(node)
        v_lin = self.new('V_LIN', Value=node.value)

        relate(v_val, s_dt, 820)""", """        v_val = self.v_val(node)
        v_lin = self.new('V_LIN', Value=node.value)
        """, 'fire', 'C06-', 'integer literal without data type')
v('c06-where-scope', 'C06', PB, """        self.symtab.enter_scope(o_obj)
        v_val = self.accept(node.where_clause)
        self.symtab.leave_scope()

        implicit = v_var is None""", """        self.symtab.enter_scope(o_obj)
        v_val = self.accept(node.where_clause)

        implicit = v_var is None""", 'fire', 'C06-SCOPE', 'scope of a where clause never left')
v('c06-bad-attr', 'C06', PB, "        act_cr = self.new('ACT_CR', is_implicit=implicit)", "        act_cr = self.new('ACT_CR', implicit=implicit)", 'fire', 'C06-KINDS', 'attribute name not in the schema')
v('c06-silent-var', 'C06', PB, "        act_brk = self.new('ACT_BRK')\n        \n        relate(act_brk, act_smt, 603)", "        brk = self.new('ACT_BRK')\n        \n        relate(brk, act_smt, 603)",
  'silent', '', 'local renamed')

# ---------------------------------------------------------------- C07
v('c07-mod-level', 'C07', OAL, "        ('left', 'TIMES', 'DIV', 'AMP', 'CARET'),\n        ('left', 'MOD'),", "        ('left', 'TIMES', 'DIV', 'AMP', 'CARET', 'MOD'),", 'fire', 'C07-', 'modulo at the multiplicative level')
v('c07-right-assoc', 'C07', OAL, "        ('left', 'PLUS', 'MINUS', 'PIPE'),", "        ('right', 'PLUS', 'MINUS', 'PIPE'),", 'fire', 'C07-', 'additive operators group to the right')
v('c07-no-prec-unary', 'C07', OAL, "'''expression : unary_operator expression %prec UNARY'''", "'''expression : unary_operator expression'''", 'fire', 'C07-', 'unary without %prec')
v('c07-binop-swapped', 'C07', OAL, """        p[0] = BinaryOperationNode(left=p[1],
                                   operator=p[2],
                                   right=p[3])

    @track_production
    def p_boolean_expression""", """        p[0] = BinaryOperationNode(left=p[3],
                                   operator=p[2],
                                   right=p[1])

    @track_production
    def p_boolean_expression""", 'fire', 'C07-LALR', 'arithmetic operands swapped by the action')
v('c07-comment-returned', 'C07', OAL, "    def t_SL_STRING(self, t):\n        r'\\/\\/.*\\n'\n        t.lexer.lineno += t.value.count('\\n')\n        t.endlexpos = t.lexpos + len(t.value)\n",
  "    def t_SL_STRING(self, t):\n        r'\\/\\/.*\\n'\n        t.lexer.lineno += t.value.count('\\n')\n        t.endlexpos = t.lexpos + len(t.value)\n        return t\n", 'fire', 'C07-LAYOUT',
  'line comments reach the parser')
v('c07-optional-differs', 'C07', OAL, """        '''statement : WHILE expression block END_WHILE'''
        p[0] = WhileNode(expression=p[2],
                         block=p[3])""", """        '''statement : WHILE expression block END_WHILE'''
        p[0] = WhileNode(expression=p[3],
                         block=p[2])""", 'fire', 'C07-OPTIONAL', 'while without loop builds a different node')
v('c07-and-or-same', 'C07', OAL, "        ('left', 'OR'),\n        ('left', 'AND'),", "        ('left', 'OR', 'AND'),", 'fire', 'C07-', 'and/or on one level')
v('c07-silent-docstring-layout', 'C07', OAL, "        '''statement : WHILE expression LOOP block END_WHILE'''", "        '''statement :   WHILE expression LOOP block END_WHILE'''", 'silent', '', 'spacing in a production')

# ---------------------------------------------------------------- C08
v('c08-raw-compare', 'C08', INT, "        if node.many:\n            chain = xtuml.navigate_many(handle)\n        else:\n            chain = xtuml.navigate_one(handle)\n            \n        for step in self.accept(node.navigation_chain):\n            chain = step(chain)\n        \n        self.symtab.install_symbol(node.variable_name, chain())",
  "        if node.cardinality == 'many':\n            chain = xtuml.navigate_many(handle)\n        else:\n            chain = xtuml.navigate_one(handle)\n            \n        for step in self.accept(node.navigation_chain):\n            chain = step(chain)\n        \n        self.symtab.install_symbol(node.variable_name, chain())",
  'fire', 'C08-TAINT', 'raw keyword comparison')
v('c08-operator-raw', 'C08', INT, "        operator = node.operator.lower()\n        \n        left_value", "        operator = node.operator\n        \n        left_value", 'fire', 'C08-TAINT', 'operator looked up as spelled')
v('c08-bool-raw', 'C08', INT, "        value = node.value.upper() == 'TRUE'", "        value = node.value == 'true'", 'fire', 'C08-TAINT', 'TRUE evaluates to false')
v('c08-prebuild-operator', 'C08', PB, "        v_uny = self.new('V_UNY', Operator=node.operator.lower())", "        v_uny = self.new('V_UNY', Operator=node.operator)", 'fire', 'C08-TAINT', 'operator persisted as spelled')
v('c08-tid-no-upper', 'C08', OAL, "        value = t.value.upper()\n        if value in self.keywords:", "        value = t.value\n        if value in self.keywords:", 'fire', 'C08-LEX', 'lower-case keywords become identifiers')
v('c08-end-if-case', 'C08', OAL, 'r"[Ee][Nn][Dd][\\s]+[Ii][Ff]"', 'r"[Ee][Nn][Dd][\\s]+[i][f]"', 'fire', 'C08-LEX', 'END IF only in lower case')
v('c08-self-raw', 'C08', OAL, "        if p.slice[1].type == 'SELF':\n            p[0] = p[1].lower()\n        else:\n            p[0] = p[1]", "        p[0] = p[1]", 'fire', 'C08-MIXED', 'SELF forwarded as spelled (the defect repaired in b2e13d6)')
v('c08-self-split-silent', 'C08', OAL, "        if p.slice[1].type == 'SELF':\n            p[0] = p[1].lower()\n        else:\n            p[0] = p[1]", "        p[0] = 'self' if p.slice[1].type == 'SELF' else p[1]", 'silent', '', 'the keyword alternative yields the constant spelling')
v('c08-silent-casefold', 'C08', INT, "        operator = node.operator.lower()\n        \n        left_value", "        operator = node.operator.casefold()\n        \n        left_value", 'silent', '', 'other normaliser... keys are lower case')

# ---------------------------------------------------------------- C09
v('c09-dict-dropped', 'C09', M, "            iterable = WhereEqual(op)(iterable)", "            WhereEqual(op)(iterable)", 'fire', 'C09-PIPE', 'dict filters are ignored')
v('c09-where-any', 'C09', M, """                if getattr(inst, name) != value:
                    break
            else:
                yield inst""", """                if getattr(inst, name) == value:
                    yield inst
                    break""", 'fire', 'C09-FILTER', 'where_eq matches if any component matches')
v('c09-reverse-swapped', 'C09', M, "    return OrderBy(attrs, reverse=True)", "    return OrderBy(attrs, reverse=False)", 'fire', 'C09-ORDER', 'reverse_order_by sorts ascending')
v('c09-navone-last', 'C09', M, """        handle = self.handle or list()
        handle = apply_query_operators(handle, args)
        return next(iter(handle), None)""", """        handle = self.handle or list()
        return next(iter(handle), None)""", 'fire', 'C09-SIBLINGS', 'NavOneChain ignores its filters')
v('c09-nav-set', 'C09', M, "        inst_set = xtuml.OrderedSet()\n        for inst in link1.navigate(inst):\n            inst_set |= link2.navigate(inst)", "        inst_set = set()\n        for inst in link1.navigate(inst):\n            inst_set |= link2.navigate(inst)",
  'fire', 'C09-NAV', 'two-hop navigation loses encounter order')
v('c09-silent-inline', 'C09', M, "        s = apply_query_operators(self.storage, args)\n        return next(iter(s), None)", "        return next(iter(apply_query_operators(self.storage, args)), None)", 'silent', '', 'temporary inlined')

# ---------------------------------------------------------------- C10
v('c10-setattr-fallthrough', 'C10', M, "                self.__dict__[attr] = value\n                return\n", "                self.__dict__[attr] = value\n", 'fire', 'C10-ACCESS', 'second cell under the raw spelling')
v('c10-getattr-raw', 'C10', M, "                return self.__dict__[attr]\n            else:\n                return object.__getattribute__(self, attr)", "                return self.__dict__[attr]\n            else:\n                return object.__getattribute__(self, name)",
  'fire', 'C10-ACCESS', 'class attribute looked up under the raw spelling')
v('c10-find-metaclass-raw', 'C10', M, "        ukind = kind.upper()\n        if ukind in self.metaclasses:\n            return self.metaclasses[ukind]", "        ukind = kind\n        if ukind in self.metaclasses:\n            return self.metaclasses[ukind]",
  'fire', 'C10-NORMALISE', 'class lookup case-sensitive')
v('c10-kwargs-raw', 'C10', M, "            name = unames.get(name.upper(), name)\n", "", 'fire', 'C10-KWARGS', 'keyword names classified raw')
v('c10-attribute-type-raw', 'C10', M, "        attribute_name = attribute_name.upper()\n        for name, ty in self.attributes:", "        for name, ty in self.attributes:", 'fire', 'C10-NORMALISE', 'attribute_type compares a raw name')
v('c10-isnull-typecase', 'C10', M, "        attr_ty = attr_ty.upper()\n", "", 'fire', 'C10-TYPECASE', 'type compared as spelled')
v('c10-silent-lower', 'C10', M, "        uname = name.upper()\n        for attr, _ in get_metaclass(self).attributes:\n            if attr.upper() != uname :\n                continue\n            \n            if attr in self.__dict__:\n                return self.__dict__[attr]",
  "        uname = name.lower()\n        for attr, _ in get_metaclass(self).attributes:\n            if attr.lower() != uname :\n                continue\n            \n            if attr in self.__dict__:\n                return self.__dict__[attr]", 'silent', '',
  'other normaliser on both sides')

# ---------------------------------------------------------------- C11
v('c11-ge', 'C11', CC, "(len(q_set) > 1 and not link.many)", "(len(q_set) >= 1 and not link.many)", 'fire', 'C11-PREDICATE', 'one partner on a single-valued end is a violation')
v('c11-cond-ignored', 'C11', CC, "if(len(q_set) < 1 and not link.conditional)", "if(len(q_set) < 1)", 'fire', 'C11-PREDICATE', 'conditional ends flagged when empty')
v('c11-target-only', 'C11', CC, "            res += check_link_integrity(m, ass.source_link)\n", "", 'fire', 'C11-SUM', 'only one direction checked')
v('c11-main-drops', 'C11', CC, "    if not opts.kinds:\n        error += xtuml.check_uniqueness_constraint(m)", "    if not opts.kinds:\n        xtuml.check_uniqueness_constraint(m)", 'fire', 'C11-SUM',
  'uniqueness result dropped by main')
v('c11-consistent-or', 'C11', M, "        if xtuml.check_association_integrity(self):\n            return False\n        \n        return xtuml.check_uniqueness_constraint(self) == 0",
  "        if xtuml.check_association_integrity(self):\n            return False\n        \n        return True", 'fire', 'C11-CONSISTENT', 'identifier violations ignored')
v('c11-dup-not-counted', 'C11', CC, "                if index_key in id_map[identifier]:\n                    res += 1", "                if index_key in id_map[identifier]:\n                    res += 0", 'fire', 'C11-UNIQ',
  'duplicates reported but not counted')
v('c11-bp-main', 'C11', 'bridgepoint/consistency_check.py', "    if not opts.rel_ids:\n        error += xtuml.check_association_integrity(m)", "    if opts.rel_ids:\n        error += xtuml.check_association_integrity(m)", 'fire', 'C11-SUM',
  'unrestricted run when restricted')
v('c11-silent-paren', 'C11', CC, "if(len(q_set) < 1 and not link.conditional) or (\n          (len(q_set) > 1 and not link.many)):", "if (len(q_set) == 0 and not link.conditional) or (len(q_set) >= 2 and not link.many):", 'silent', '',
  'equivalent predicate')

# ---------------------------------------------------------------- C12
v('c12-early-extend', 'C12', LO, "        s = self.parser.parse(lexer=lexer, input=data, tracking=1)\n        self.statements.extend(s)", "        self.statements.extend([])\n        s = self.parser.parse(lexer=lexer, input=data, tracking=1)\n        self.statements.extend(s)",
  'fire', 'C12-ATOMIC', 'store before the parse returns')
v('c12-action-stores', 'C12', LO, "        p[0] = p[1]\n        p[0].offset = p.lexpos(1)", "        p[0] = p[1]\n        self.statements.append(p[1])\n        p[0].offset = p.lexpos(1)", 'fire', 'C12-ATOMIC', 'action appends statements')
v('c12-valueerror', 'C12', LO, "            raise ParsingException(\"illegal cardinality (%s) at %s:%d\" % (p[1],\n                                   p.lexer.filename, p.lineno(1)))\n        p[0] = p[1]\n\n    def p_cardinality_many",
  "            raise ValueError(\"illegal cardinality (%s) at %s:%d\" % (p[1],\n                                   p.lexer.filename, p.lineno(1)))\n        p[0] = p[1]\n\n    def p_cardinality_many", 'fire', 'C12-RAISES', 'ValueError for a bad cardinality')
v('c12-unguarded', 'C12', LO, "    except ValueError:\n        return None\n", "    except KeyError:\n        return None\n", 'fire', 'C12-CONVERT', 'conversion errors escape')
v('c12-perror-returns', 'C12', LO, "        else:\n            raise ParsingException(\"unknown error\")", "        else:\n            logger.error('unknown error')", 'fire', 'C12-RAISES', 'p_error may return')
v('c12-redos', 'C12', LO, "r'\\'((\\'\\')|[^\\'])*\\''\n        t.lexer.lineno", "r'\\'((\\'\\')|[^\\']|[\\n])*\\''\n        t.lexer.lineno", 'fire', 'C12-TIME', 'ambiguous string regex')
v('c12-silent-log', 'C12', LO, "        logger.debug('parsing %s' % name)\n", "        logger.debug('parsing %s', name)\n", 'silent', '', 'logging call changed')

# ---------------------------------------------------------------- C13
v('c13-endlexpos-missing', 'C13', OAL, "    def t_GE(self, t):\n        r\"\\>\\=\"\n        t.endlexpos = t.lexpos + len(t.value)\n        return t", "    def t_GE(self, t):\n        r\"\\>\\=\"\n        return t", 'fire', 'C13-ENDPOS', 'token without end position')
v('c13-lineno-missing', 'C13', OAL, "        r\"\\'[^\\']*\\'\"\n        t.lexer.lineno += t.value.count('\\n')\n", "        r\"\\'[^\\']*\\'\"\n", 'fire', 'C13-LINENO', 'ticked phrase does not count newlines')
v('c13-untracked', 'C13', OAL, "    @track_production\n    def p_port_event_generation", "    def p_port_event_generation", 'fire', 'C13-TRACK', 'node without position')
v('c13-end-column', 'C13', OAL, "    node.position.end_column = find_column(p.lexer.lexdata,\n                                             node.position.end_stream) - 1", "    node.position.end_column = find_column(p.lexer.lexdata,\n                                             node.position.end_stream)",
  'fire', 'C13-TRACK', 'end column off by one')
v('c13-terror-raises', 'C13', OAL, "        t.lexer.skip(1)\n", "        raise ValueError(t.value[0])\n", 'fire', 'C13-TOTAL', 'illegal character raises ValueError')
v('c13-redos', 'C13', OAL, "r'/\\*([^*]|(\\*+[^*/]))*\\*+/'", "r'/\\*([^*]|[\\r\\n]|(\\*+[^*/]))*\\*+/'", 'fire', 'C13-TIME', 'ambiguous comment regex')
v('c13-string-multiline', 'C13', OAL, "r'\"[^\"\\n]*\"'", "r'\"[^\"]*\"'", 'fire', 'C13-LINENO', 'strings may span lines but do not count them')
v('c13-silent-order', 'C13', OAL, "    def t_GE(self, t):\n        r\"\\>\\=\"\n        t.endlexpos = t.lexpos + len(t.value)\n        return t", "    def t_GE(self, t):\n        r\"\\>\\=\"\n        t.endlexpos = t.lexpos + len(t.value)\n        logger.debug('GE')\n        return t", 'silent', '', 'logging')

# ---------------------------------------------------------------- C14
v('c14-cond-swapped', 'C14', OOA, "                         source_conditional=r_form.Cond,\n                         target_conditional=r_part.Cond,", "                         source_conditional=r_part.Cond,\n                         target_conditional=r_form.Cond,", 'fire', 'C14-SIDES',
  'conditionality of the two ends exchanged')
v('c14-phrases-uncrossed', 'C14', OOA, "        source_phrase = r_part.Txt_Phrs\n        target_phrase = r_form.Txt_Phrs", "        source_phrase = r_form.Txt_Phrs\n        target_phrase = r_part.Txt_Phrs", 'fire', 'C14-SIDES', 'phrases not crossed')
v('c14-linked-mult', 'C14', OOA, "                             source_many=side2.Mult,", "                             source_many=side1.Mult,", 'fire', 'C14-SIDES', 'multiplicity from the wrong side')
v('c14-keys-swapped', 'C14', OOA, "    return l1, l2\n", "    return l2, l1\n", 'fire', 'C14-SIDES', 'referential and identifying attributes exchanged')
v('c14-name-ignored', 'C14', OOA, "    return loader.build_component(name)", "    return loader.build_component()", 'fire', 'C14-FORWARD', 'name ignored')
v('c14-order-phrase', 'C14', OOA, "        o_attr = one(o_attr).O_ATTR[103, 'precedes']()", "        o_attr = one(o_attr).O_ATTR[103, 'succeeds']()", 'fire', 'C14-ORDER', 'attributes walked backwards')
v('c14-enum-type', 'C14', OOA, "    if one(s_dt).S_EDT[17]():\n        return 'INTEGER'", "    if one(s_dt).S_EDT[17]():\n        return 'STRING'", 'fire', 'C14-TYPES', 'enumerations typed STRING')
v('c14-derived-flag', 'C14', OOA, "        mk_class(target, o_obj, derived_attributes)", "        mk_class(target, o_obj)", 'fire', 'C14-FORWARD', 'derived_attributes not forwarded')
v('c14-silent-local', 'C14', OOA, "    r_rel = one(r_subsup).R_REL[206]()\n    r_rto = one(r_subsup).R_SUPER[212].R_RTO[204]()", "    r_rel = one(r_subsup).R_REL[206]()\n    super_rto = one(r_subsup).R_SUPER[212].R_RTO[204]()\n    r_rto = super_rto", 'silent', '',
  'extra local')

# ---------------------------------------------------------------- C15
v('c15-bare-return', 'C15', INT, "        if value is not None:\n            self.return_value = value.fget()", "        self.return_value = value.fget()", 'fire', 'C15-NULLABLE', 'bare return crashes')
v('c15-walker-cached', 'C15', INT, "def run_function(domain, label, action, kwargs):\n    w = FunctionWalker(domain, kwargs)", "_walker = None\ndef run_function(domain, label, action, kwargs):\n    global _walker\n    w = _walker = _walker or FunctionWalker(domain, kwargs)", 'fire', 'C15-FRESH',
  'walker reused across calls')
v('c15-class-self', 'C15', OOA, "        fn = lambda cls, **kwargs: run(metaclass, label, action, kwargs, None)", "        fn = lambda cls, **kwargs: run(metaclass, label, action, kwargs, cls)", 'fire', 'C15-BIND', 'class-based operation gets the class as self')
v('c15-enum-unordered', 'C15', OOA, "    for enum in xtuml.sort_reflexive(many(s_edt).S_ENUM[27](), 56, 'succeeds'):", "    for enum in many(s_edt).S_ENUM[27]():", 'fire', 'C15-ENUM', 'row order')
v('c15-const-int', 'C15', OOA, "    if s_dt.Name == 'real':\n        return float(cnst_lsc.Value)", "    if s_dt.Name == 'real':\n        return int(cnst_lsc.Value)", 'fire', 'C15-ENUM', 'real constants truncated')
v('c15-param-positional', 'C15', INT, "        fn = self.symtab.find_symbol(node.action_name)\n        value = fn(**kwargs)", "        fn = self.symtab.find_symbol(node.action_name)\n        value = fn(*kwargs.values())", 'fire', 'C15-BIND', 'parameters passed by position')
v('c15-return-elsewhere', 'C15', INT, "    def accept_ControlNode(self, node):\n        raise StopException()", "    def accept_ControlNode(self, node):\n        self.return_value = 0\n        raise StopException()", 'fire', 'C15-RETURN', 'control stop delivers 0')
v('c15-silent-guard', 'C15', INT, "        if value is not None:\n            self.return_value = value.fget()", "        if value:\n            self.return_value = value.fget()", 'silent', '', 'equivalent guard (a property object is truthy)')

# ---------------------------------------------------------------- C18
v('c18-keys-mutated', 'C18', M, "        self.associations.append(ass)\n", "        ass.source_keys.sort()\n        self.associations.append(ass)\n", 'fire', 'C18-ESCAPE', 'shared key list sorted in place')
v('c18-attributes-aliased', 'C18', M, "        metaclass = MetaClass(kind, self)\n        for name, ty in attributes:\n            metaclass.append_attribute(name, ty)", "        metaclass = MetaClass(kind, self)\n        metaclass.attributes = attributes",
  'fire', 'C18-', 'attribute list of the statement shared with the metaclass')
v('c18-loader-caches', 'C18', LO, "        m = xtuml.MetaModel(id_generator)\n        \n        self.populate(m)", "        m = xtuml.MetaModel(id_generator)\n        self.last = m\n        self.populate(m)", 'fire', 'C18-FRESH', 'loader remembers the metamodel')
VARIANTS.append(dict(id='c18-class-attr', prop='C18', expect='fire', rule='C18-FRESH', what='mutable class attribute written by every metaclass',
                     edits=[(M, "class MetaClass(object):\n    \'\'\'\n    A metaclass contain metadata", "class MetaClass(object):\n    registry = {}\n    \'\'\'\n    A metaclass contain metadata"),
                            (M, "        self.metamodel = metamodel\n        self.kind = kind\n        self.attributes = list()", "        self.metamodel = metamodel\n        self.kind = kind\n        self.registry[kind] = self\n        self.attributes = list()")]))
VARIANTS.append(dict(id='c18-class-table', prop='C18', expect='silent', rule='', what='read-only class-level lookup table',
                     edits=[(M, "class MetaClass(object):\n    \'\'\'\n    A metaclass contain metadata", "class MetaClass(object):\n    _names = {'a': 1}\n    \'\'\'\n    A metaclass contain metadata")]))
v('c18-stmt-write', 'C18', LO, "            if stmt.names:\n                fn = self._populate_instance_with_named_arguments", "            if stmt.names:\n                stmt.names.sort()\n                fn = self._populate_instance_with_named_arguments", 'fire', 'C18-STMT-RO',
  'names of the statement sorted in place')
v('c18-silent-tuple', 'C18', M, "        metaclass.indices[name] = tuple(named_attributes)", "        metaclass.indices[name] = tuple(list(named_attributes))", 'silent', '', 'equivalent copy')

v('c09-subtype-first-only', 'C09', M, "        subtype = navigate_one(supertype).nav(kind, rel_id)()\n        if subtype:\n            return subtype", "        subtype = navigate_one(supertype).nav(kind, rel_id)()\n        return subtype", 'fire', 'C09-NAV', 'subtype navigation gives up after the first link of the association')
v('c09-subtype-wrong-rel', 'C09', M, "        if rel_id != rel_id_candidate:\n            continue\n        \n        subtype = navigate_one", "        if rel_id == rel_id_candidate:\n            continue\n        \n        subtype = navigate_one", 'fire', 'C09-NAV', 'subtype navigation follows the other associations')
v('c09-subtype-nested', 'C09', M, "        if rel_id != rel_id_candidate:\n            continue\n        \n        subtype = navigate_one(supertype).nav(kind, rel_id)()\n        if subtype:\n            return subtype", "        if rel_id == rel_id_candidate:\n            found = navigate_one(supertype).nav(kind, rel_id)()\n            if found:\n                return found", 'silent', '', 'nested spelling of the subtype scan')

# ---------------------------------------------------------------- C19
v('c19-real-int', 'C19', M, "        elif uname == 'REAL':\n            return 0.0", "        elif uname == 'REAL':\n            return 0", 'fire', 'C19-DEFAULTS', 'real default is an int')
v('c19-unknown-none', 'C19', M, "            raise MetaException(\"Unknown type named '%s'\" % type_name)", "            return None", 'fire', 'C19-DEFAULTS', 'unknown type accepted')
v('c19-kw-first', 'C19', M, "        # set all positional arguments\n        for attr, value in zip(self.attributes, args):", "        # set all positional arguments\n        for attr, value in zip(reversed(self.attributes), args):", 'fire', 'C19-ORDER', 'positional arguments in reverse attribute order')
v('c19-peek-advances', 'C19', TO, "        return self._current\n    \n    def next(self):", "        val = self._current\n        self._current = self.readfunc()\n        return val\n    \n    def next(self):", 'fire', 'C19-GEN', 'peek consumes an id')
v('c19-int-from-zero', 'C19', TO, "    _current = 0\n    def readfunc(self):", "    _current = -1\n    def readfunc(self):", 'fire', 'C19-GEN', 'integer ids start at 0')
v('c19-shared-generator', 'C19', M, "    def __init__(self, id_generator=None):\n        '''\n        Create a new, empty metamodel.", "    def __init__(self, id_generator=xtuml.UUIDGenerator()):\n        '''\n        Create a new, empty metamodel.", 'fire', 'C19-GEN', 'default generator shared')
v('c19-silent-cmp', 'C19', M, "        if   uname == 'BOOLEAN':", "        if 'BOOLEAN' == uname:", 'silent', '', 'operands of == exchanged')

# ---------------------------------------------------------------- C20
v('c20-real-type', 'C20', XSD, "        type_name = 'xs:decimal'", "        type_name = 'xs:integer'", 'fire', 'C20-DISPATCH', 'real mapped to xs:integer')
v('c20-enum-order', 'C20', XSD, "        s_enum = nav_one(s_enum).S_ENUM[56, 'precedes']()", "        s_enum = nav_one(s_enum).S_ENUM[56, 'succeeds']()", 'fire', 'C20-ENUM-ORDER', 'enumerators walked backwards')
v('c20-derived-included', 'C20', XSD, "        if type_name and not nav_one(o_attr).O_BATTR[106].O_DBATTR[107]():", "        if type_name:", 'fire', 'C20-ATTR', 'derived attributes declared')
v('c20-own-type', 'C20', XSD, "        s_dt = nav_one(o_attr_ref).S_DT[114]()", "        s_dt = nav_one(o_attr).S_DT[114]()", 'fire', 'C20-ATTR', 'referential attributes typed by their own type')
v('c20-udt-not-built', 'C20', XSD, "    s_udt = nav_one(s_dt).S_UDT[17]()\n    if s_udt:\n        return build_user_type(s_udt)\n", "", 'fire', 'C20-DISPATCH', 'user types named but never declared')
v('c20-scope', 'C20', XSD, "    scope_filter = lambda selected: ooaofooa.is_contained_in(selected, c_c)\n    \n    for o_obj in m.select_many('O_OBJ', scope_filter):", "    scope_filter = lambda selected: True\n    \n    for o_obj in m.select_many('O_OBJ', scope_filter):", 'fire', 'C20-SCOPE',
  'all classes of the model declared')
v('c20-silent-comment', 'C20', XSD, "    s_cdt = nav_one(s_dt).S_CDT[17]()\n    if s_cdt and s_cdt.Core_Typ in range(1, 6):\n        return s_dt.Name", "    s_cdt = nav_one(s_dt).S_CDT[17]()  # core type?\n    if s_cdt and s_cdt.Core_Typ in range(1, 6):\n        return s_dt.Name", 'silent', '', 'comment')

TL = 'xtuml/tools.py'
v('c17-backlink-dropped', 'C17', TL, "            prev[2] = next_\n            next_[1] = prev", "            prev[2] = next_", 'fire', 'C17-SHAPE', 'discard leaves the back pointer stale')
v('c17-pop-wrong-end', 'C17', TL, "        if last:\n            key = self.end[1][0]\n        else:\n            key = self.end[2][0]", "        if last:\n            key = self.end[2][0]\n        else:\n            key = self.end[1][0]", 'fire', 'C17-SHAPE', 'pop takes the wrong end')
v('c17-add-front', 'C17', TL, "            curr = end[1]\n            curr[2] = end[1] = self.map[key] = [key, curr, end]", "            curr = end[2]\n            curr[1] = end[2] = self.map[key] = [key, end, curr]", 'fire', 'C17-SHAPE', 'add links the new element at the front')
v('c17-discard-clears-node', 'C17', TL, "            prev[2] = next_\n            next_[1] = prev", "            prev[2] = next_\n            next_[1] = prev\n            node = None", 'silent', '', 'harmless extra local')
v('c17-discard-resets-own', 'C17', TL, "            key, prev, next_ = self.map.pop(key)\n            prev[2] = next_\n            next_[1] = prev", "            node = self.map.pop(key)\n            key, prev, next_ = node\n            prev[2] = next_\n            next_[1] = prev\n            node[1] = node[2] = None", 'fire', 'C17-', 'discard wipes the removed node: iteration standing on it breaks')
v('c17-eq-len-only', 'C17', TL, "        return list(self) == list(other)", "        return True", 'fire', 'C17-EQ', 'equality by length only')
v('c17-iter-backwards', 'C17', TL, "        curr = end[2]\n        while curr is not end:\n            yield curr[0]\n            curr = curr[2]", "        curr = end[1]\n        while curr is not end:\n            yield curr[0]\n            curr = curr[1]", 'fire', 'C17-SHAPE', '__iter__ walks backwards')
v('c17-first-is-last', 'C17', M, "            return next(iter(self))", "            return next(reversed(self))", 'fire', 'C17-ENDS', 'QuerySet.first returns the last element')
v('c17-clear-override', 'C17', TL, "    def __len__(self):\n        return len(self.map)", "    def clear(self):\n        self.map = {}\n\n    def __len__(self):\n        return len(self.map)", 'fire', 'C17-MIXINS', 'clear() overridden without resetting the list')
v('c17-silent-iter-rename', 'C17', TL, "        end = self.end\n        curr = end[2]\n        while curr is not end:\n            yield curr[0]\n            curr = curr[2]", "        sentinel = self.end\n        node = sentinel[2]\n        while node is not sentinel:\n            yield node[0]\n            node = node[2]", 'silent', '', 'renamed locals in __iter__')


# ---------------------------------------------------------------- C16
v('c16-no-ring-guard', 'C16', M, """                if inst is first:
                    break
""", """                pass
""", 'fire', 'C16-RING', 'ring guard dropped: a closed ring is walked for ever')
v('c16-filter-opposite-phrase', 'C16', M,
  "first_filt = lambda sel: not navigate_one(sel).nav(metaclass.kind, rel_id, phrase)()",
  "first_filt = lambda sel: not navigate_one(sel).nav(metaclass.kind, rel_id, other_phrase)()", 'fire', 'C16-CHAINS',
  'heads are filtered across the phrase that is also followed: every chain collapses to its last member')
v('c16-no-membership-test', 'C16', M, """                if inst in set_of_instances:
                    yield inst
""", """                yield inst
""", 'fire', 'C16-TERM', 'instances outside the given set are returned')
v('c16-any-association', 'C16', M, """        if link.rel_id != rel_id:
            continue

        if link.phrase == phrase:""", """        if link.phrase == phrase:""", 'fire', 'C16-', 'the opposite phrase is taken from another reflexive association')
v('c16-empty-not-special', 'C16', M, """    if not set_of_instances.first:
        return QuerySet()
""", """    if not len(set_of_instances):
        return QuerySet()
""", 'silent', '', 'emptiness tested by length instead of by the first member')
v('c16-eager-sequence', 'C16', M, "    return QuerySet(sequence_generator())", "    return QuerySet(list(sequence_generator()))", 'silent', '',
  'the sequence is collected eagerly')
