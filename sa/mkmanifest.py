#!/venv/bin/python
'''Generates /verif/MANIFEST.json from the table below (run after adding a rule module).'''
import json
import os
import subprocess

VERIF = os.path.dirname(os.path.dirname(os.path.abspath(__file__)))
PY = '/venv/bin/python'

BASELINE = ('cd /repo && /venv/bin/python -m pytest -ra -q -p no:cacheprovider --timeout=900 '
            '--continue-on-collection-errors')

TRUST = ('Trusted base: CPython `ast` (parsing of the analysed sources), the rule tables in /verif/sa/rules '
         '(each frozen instance carries its reason), ')

CHECKS = {
    'C01': dict(
        cat='other', sec='DESIGN.md 2/C01',
        technique='writer/reader table agreement + regex-automaton inclusion and token-order shadowing + slot-flow identity (static)',
        text='Decides structural necessary conditions of the round trip on every path of writer and reader: the five type '
             'tables agree; every SQL string token written is quote-escaped and every one read is unescaped; each value '
             'format written lies inside the token language the reader accepts for that type and no earlier token rule '
             'steals its beginning (automaton inclusion / prefix tests in ply order); string routes and file routes emit the '
             'same statement families from unfiltered collections; the ROP fields flow through writer and reader as the '
             'identity; reserved words are admitted as identifiers; only new/delete touch the instance order.  Equality of '
             'loaded values is not decided.',
        note=TRUST + 're._parser for the regex dialect. Value equality, real rounding and the fixed-point claim are runtime quantities.'),
    'C03': dict(
        cat='other', sec='DESIGN.md 2/C03',
        technique='phase-order / partition / call-graph funnel rules + sibling agreement of the two key functions typed by the association role model (static)',
        text='populate() runs the five passes once each in dependency order; each statement class is consumed by exactly one '
             'pass and every grammar statement builds one of them; every input route (file, directory, zip, helper functions) '
             'ends in ModelLoader.input and stores nothing else; compute_lookup_key / compute_index_key use one name space, one '
             'null rule (_is_null truth table) and one key shape, and populate_connections indexes the referred and probes with '
             'the referring class of the same link; MetaClass.new must resolve links in the direction the loader does.',
        note=TRUST + 'the association role model derived from define_association. Equality of the hash join with the relational join for all value types is not decided.'),
    'C04': dict(
        cat='other', sec='DESIGN.md 2/C04',
        technique='exhaustiveness of evaluators vs grammar-constructible nodes + operator-table/AST-shape comparison + exception pairing + abstract if/elif tables (static)',
        text='Every Node class the grammar can construct for the constructs of C04 has an evaluator (difference set frozen with '
             'reasons); the binary/unary operator tables cover the grammar operators and each lambda is the Python operation of '
             'its lexeme on (left, right); break/continue/return/stop are raised and caught exactly where they belong; if / '
             'elif-list / elif are executed abstractly over all condition outcomes; where-closures bind selected in a fresh block; '
             'select evaluators branch on the normalised cardinality; slot table of statement evaluators.',
        note=TRUST + 'xtuml.relate/select/navigate behave as C02/C09 decide. Whole-program equivalence with a reference evaluator is not decided.'),
    'C05': dict(
        cat='other', sec='DESIGN.md 2/C05',
        technique='handler exhaustiveness + schema type-check of navigations + succession-direction (writer/reader) agreement + operand-role identity + inverse-pair table (static)',
        text='prebuild handles every constructible Node class and sourcegen generates every kind prebuild can create; every '
             'navigation of sourcegen type-checks against the schema; R661/R816/R604 are read in the direction they are written '
             'and both agree with the schema key names; for multi-operand constructs grammar position -> node field -> '
             'association number -> emission order is the identity; literal/operator/phrase encodings are inverse pairs; '
             'thorough adds the sentential-form derivation of every generator against the grammar.',
        note=TRUST + 'name resolution succeeds (well-formed, name-resolved programs).'),
    'C06': dict(
        cat='other', sec='DESIGN.md 2/C06',
        technique='kind inference + schema type-check of every relate/navigation/new + all-paths subtype/type/return rules + obligations of unconditional associations (static)',
        text='All relate, navigation and new() sites of prebuild.py are type-checked against the ooaofooa schema text (a site is '
             'a violation only if no possible kind admits it); R661/R816/R604 are chained so that the Previous*/Next* key '
             'designates the neighbour; on every path each statement/value gets exactly one R603/R801 subtype and each value '
             'its R820 type; handlers return the instance their callers chain; position and typing slot tables; every created '
             'instance is related across all unconditional associations of its class.',
        note=TRUST + 'the independent 60-line reader of bridgepoint/schema.py. Uniqueness of generated ids and is_consistent() of a concrete program are not decided.'),
    'C07': dict(
        cat='proof', sec='DESIGN.md 2/C07',
        technique='LALR(1) automaton generated from the extracted grammar; exhaustive operator-pair action table (static, exhaustive over a finite object)',
        text='The grammar is the program: productions, precedence and %prec are extracted from oal.py, the LALR(1) tables are '
             'generated from that text and the parser action for EVERY ordered pair of adjacent binary operators and every '
             'unary/binary pair is read in every state holding the completed operator item and compared with the precedence '
             'table of the property (reduce / shift / error); no conflict is resolved by default; layout tokens are never '
             'returned; productions differing only by an optional word have identical actions.  Exhaustive for the expression clause.',
        note='Trusted base: ply.yacc LALR construction used as a library, CPython ast, the docstring extraction in sa/grammar.py. '
             'Whether a stale generated __oal_parsetab.py on disk matches the grammar is a build matter and not decided.'),
    'C08': dict(
        cat='other', sec='DESIGN.md 2/C08',
        technique='taint analysis: keyword-carrying Node fields computed from the grammar -> enumerated sinks, sanitised by case normalisers (static)',
        text='Sources are computed, not listed: a Node constructor field is keyword-carrying if some production fills it from a '
             'position whose symbol derives only keyword terminals. Every read of such a field in the interpreter, the '
             'prebuilder and the Node classes is followed to comparison / membership / dictionary-key / persisted-attribute '
             'sinks and must pass .lower/.upper/.casefold or the normalising accessor first; t_ID decides keyword-ness on the '
             'upper-cased lexeme and the END_* regexes are case-closed.',
        note=TRUST + 'identifiers that merely coincide with keywords are names, not keywords.'),
    'C09': dict(
        cat='other', sec='DESIGN.md 2/C09',
        technique='abstract tables of the query pipeline and equality filter + sibling comparison of the query entry points (static)',
        text='Thin structural clauses: apply_query_operators applies every operator kind to the running result; WhereEqual yields '
             'an instance iff all components match (table over match flags); select_one/select_many/NavChain()/NavOneChain() '
             'share one pipeline and MetaModel delegates unchanged; OrderBy is a stable sort with reverse only on request; '
             'navigate is the direct link or the ordered duplicate-free two-hop union. Result sets of concrete states are not decided.',
        note=TRUST + 'OrderedSet behaves as an insertion-ordered set (decided by C17 and, for the partner sets, by C09-SETS).'),
    'C13': dict(
        cat='other', sec='DESIGN.md 2/C13',
        technique='exact exponential-ambiguity test on regex automata + all-paths rules on token rules (newline reachability decided on the automaton) + decorator coverage (static)',
        text='Every OAL token regex is free of exponential ambiguity (product-automaton criterion, exact); p_error raises '
             'ParseException on every path and t_error skips >= 1 character; every returning token rule sets endlexpos = lexpos '
             '+ len(value) on all paths; every token rule whose regex automaton can consume a newline counts its newlines; every '
             'Node-constructing production is position-tracked; slot table of set_positional_info / find_column / track_production.',
        note=TRUST + 're._parser, and the ply contracts for lexspan/linespan with tracking=1. Positions of nodes from empty productions are not decided.'),
    'C14': dict(
        cat='other', sec='DESIGN.md 2/C14',
        technique='provenance (definition-substituted) comparison of association arguments + schema type-check + dispatch/forwarding rules (static)',
        text='At the three define_association call sites each keyword argument, after substituting local definitions, must come '
             'from the matching BridgePoint participant (referring = R_RGO side, referred = R_RTO side, multiplicities from the '
             'facing end, phrases crossed once); _get_related_attributes pairs referential with identifying attributes; the '
             'dispatch table equals the R206 subtypes; attributes follow R103; the data type mapping is executed abstractly; '
             'every configuration parameter of the entry points reaches mk_component.',
        note=TRUST + 'the ooaofooa schema reader. Effects of edit scripts on concrete models are not decided.'),
    'C15': dict(
        cat='other', sec='DESIGN.md 2/C15',
        technique='nullable-field contradiction rule from the grammar + freshness/ownership rules + slot flow of parameters and receiver (static)',
        text='Fields the grammar may leave None are never dereferenced unguarded after accept(); each run_* builds a new walker '
             'and symbol table and nothing is cached at class/module level; parameters are bound by name through **kwargs, self '
             'is the receiving instance (None for class-based operations); return_value is written only by the return evaluator '
             'and read only by run_*; enumerators are numbered along R56 and constants converted by their modelled type.',
        note=TRUST + 'values computed by nested/recursive calls are not decided, only that each call has its own scope.'),
    'C16': dict(
        cat='other', sec='DESIGN.md 2/C16',
        technique='finite abstract execution of the source of sort_reflexive (own evaluator of the Python subset it is written in) over abstract models of a reflexive one-to-one association, with a step budget for termination (static: symbolic instances, navigation as table look-up, nothing of the repository runs)',
        text='Decides the traversal scheme of sort_reflexive, not its result on a given model: on every arrangement of up to four '
             'symbolic instances into whole chains (every partition, order within a chain and order of the set), both phrases, the '
             'association number as string and as integer, the evaluated source returns every member once with each chain contiguous '
             'from the member without a partner across the phrase along the opposite phrase; a single ring of up to four members is '
             'returned once around from the first member of the set; the empty set gives an empty result and a non-QuerySet is '
             'rejected; on every subset of chains / rings and on mixed sets the evaluation ends within a step budget and returns '
             'members of the set only; the opposite phrase is found among decoy links.  Larger sets follow by a stated (not '
             'mechanised) uniformity argument: one loop iteration handles one instance and reads only it, the head and set membership.',
        note=TRUST + 'the evaluator in sa/rules/c16.py (semantics of the Python subset and of navigate_one/QuerySet/links as modelled there), the one-to-one invariant of the association (C02).'),
    'C17': dict(
        cat='other', sec='DESIGN.md 2/C17',
        technique='shape analysis on a symbolic heap (bounded, with a locality check that justifies the bound) + abstract table for __eq__ + class inventory against the MutableSet mixins (static)',
        text='Inductive argument over operation histories: the representation invariant of OrderedSet (forward chain from the '
             'sentinel = members of the dict, backward chain = its reverse) is established by __init__ and preserved, with the set '
             'effect the property states, by add / discard / pop from every well-formed list of up to three members and every key '
             'position; add / discard touch only the sentinel, the affected node and its neighbours, so the result carries over to '
             'lists of any length; __iter__, __reversed__, __len__, QuerySet.first / last enumerate the members in (reverse) '
             'insertion order; iteration with removal of the visited element neither skips nor repeats; __eq__ is length plus '
             'element sequence; every other operation is a MutableSet mixin over these primitives and none is overridden.  '
             'The interpreter executes the source of the methods on symbolic node identities; nothing of the repository runs.',
        note=TRUST + 'the documented behaviour of the collections.abc.MutableSet mixins, hashability of the elements.'),
    'C18': dict(
        cat='other', sec='DESIGN.md 2/C18',
        technique='escape/ownership analysis of statement data handed to the metamodel API + freshness rules (static)',
        text='Every mutable statement field passed by the populate passes is classified in the callee (copied vs stored by '
             'reference, followed two call levels); reference-stored fields must have no in-place mutator anywhere in the '
             'repository; every container of MetaModel/MetaClass/Link is created empty in __init__; the loader keeps no '
             'build-derived state; no shared mutable class attributes or defaults; the passes never write to statement objects.',
        note=TRUST + 'user code mutating Association.source_keys in place is outside the listed changes.'),
    'C20': dict(
        cat='other', sec='DESIGN.md 2/C20',
        technique='dispatch-table agreement + succession-order reader rule + schema type-check + ElementTree-only scan (static)',
        text='Thin structural clauses: the data type kinds that get a name are exactly those that get a declaration and the '
             'core type table is the specified one; enumerators/members are emitted along R56/R46; classes and types are '
             'selected by the same containment predicate; attributes are typed by the referred base attribute with user types '
             'unwrapped and derived attributes skipped; markup is built through ElementTree only.',
        note=TRUST + 'completeness of the schema for a concrete model is not decided.'),
    'C02': dict(
        cat='other', sec='DESIGN.md 2/C02',
        technique='finite abstract interpretation of Link.connect/disconnect/relate/unrelate/delete + role typing of link operations (static)',
        text='Total abstract tables: every abstract state of Link.connect/disconnect and every outcome combination '
             'of the link operations inside relate/unrelate/delete is executed abstractly on the source and compared '
             'with the specification (idempotent connect, bounded ends, rejected calls leave no net mutation, success '
             'updates both directions mirrored).  The roles of source_link/target_link are derived from '
             'define_association and every connect/disconnect call site and _find_link branch is type-checked '
             'against them.  Symmetry over whole histories follows by induction over the four mutators; the induction '
             'itself is stated, not mechanised.',
        note=TRUST + 'the abstraction of a link slot to (instance present, pair present, other partner present).'),
    'C10': dict(
        cat='other', sec='DESIGN.md 2/C10',
        technique='finite abstract interpretation of the attribute dunder methods + normaliser-agreement dataflow (static)',
        text='Every combination of (spelling matches a declared attribute, spelling identical, value stored, other '
             'keys present) is executed abstractly through Class.__getattr__/__setattr__/__delattr__ and the storage '
             'cell touched on each path is compared with the single declared cell; every keyed access to the class '
             'table and every name comparison in the resolution helpers must use one case normaliser; constructor '
             'keywords must be resolved to the declared spelling.  Decides that no code path can create or address a '
             'second cell for another spelling, not whole write histories.',
        note=TRUST + 'the assumption that only the three dunder methods, MetaClass.new and the loader write instance dictionaries.'),
    'C11': dict(
        cat='other', sec='DESIGN.md 2/C11',
        technique='finite truth tables by abstract interpretation of the check functions and mains (static)',
        text='The violation predicate of check_link_integrity is executed abstractly for all 12 combinations of '
             '(partner count 0/1/>=2, conditional, many) and compared with the specification; the same is done for '
             'the association filter and sum, is_consistent, the null predicate of the uniqueness check (over value '
             'and type-name spellings), the subtype check and the result-summing part of both command line mains '
             '(all -r/-k combinations); the duplicate map is checked structurally.  Decides that the predicates and '
             'sums are the specified ones for every model; it does not compute counts of a concrete model.',
        note=TRUST + 'the abstraction n in {0,1,>=2} (the code compares len() only with constants <= 2, checked).'),
    'C12': dict(
        cat='other', sec='DESIGN.md 2/C12',
        technique='dominator analysis + effect scan + call-graph exception classification + guard analysis (static)',
        text='In ModelLoader.input every store on the loader is dominated by the successful return of the parse '
             'call; no p_*/t_* action stores on the loader; only __init__/input write the statement list; every '
             'explicit raise reachable from input/build_metamodel (call graph incl. ply actions) is ParsingException '
             'or a MetaException subclass; every partial converter (int, float, uuid.UUID) applied to statement text '
             'is inside a try that maps ValueError to the documented rejection or is dominated by a lexical test; '
             'thorough adds the exact ambiguity analysis of every token regex (no exponential backtracking).',
        note=TRUST + 'ply reports errors only through t_error/p_error. Value-dependent implicit built-in errors are not decided.'),
    'C19': dict(
        cat='other', sec='DESIGN.md 2/C19',
        technique='abstract interpretation of default_value over the type alphabet + path/slot rules on new() and the generators (static)',
        text='default_value is executed abstractly for every type name in both letter cases with and without an '
             'owning metamodel and compared with the table of the property; MetaClass.new must run defaults, '
             'positional, keywords in that order with the defaults skipping exactly referential attributes; '
             'IdGenerator.peek is a pure read, next returns the saved value and re-reads once, the IntegerGenerator '
             'sequence is evaluated symbolically to 1,2,3,4, every MetaModel creates its own generator.',
        note=TRUST + 'uuid4 randomness (never 0, never repeating) is probabilistic and not decided.'),
}

NOT_APPLICABLE = {
}

# clauses added after the first build (rounds 3-4 of seeded changes), appended to the level text of the property
ADDED = {
    'C01': ' REAL values are written with exactly six decimals; the join keys of the loader (shared with C03) are typed by the association role model. A STRING token is taken apart only by [1:-1] plus quote un-doubling. The value a shared referential attribute is written with comes through the getter chain of formalize (shared with C03). The writer reads values through getattr, never from the raw instance dictionary; every CREATE statement is handed to the metamodel by its pass unfiltered (shared with C03).',
    'C02': ' The partner sets keep their linked-list invariant under add / discard / pop (shape analysis, shared with C17); referential attributes '
           'are read through the declared cell (shared with C10). Navigations accumulate into containers of their own; MetaClass.new pools the instance before relating it; the loader strips every stored referential copy. relate / unrelate are tabled also for an instance related to itself; disconnect is tabled per cardinality of the end; the navigation tables of C09 are shared.',
    'C03': ' A shared referential attribute chains to the property installed before under the same name; all input channels decode text alike; '
           'the batch connect is mirrored (shared with C02) and reads keys through Class.__getattr__ (shared with C10). _find_link picks the association by number, both end kinds and phrase (shared with C02).',
    'C04': ' List nodes are built in source order, keyword fields are read case-normalised, navigation and link operations are the tables of C09 / C02 (shared rule groups). None of the four control exceptions derives from another and no common base is caught; the short and the long spelling of a statement build the same node (shared with C07).',
    'C05': ' Identifiers are installed and looked up exactly as spelled; every select form writes the cardinality it read; is_global is a truth table over the package hierarchy. Every path through a text generator writes or delegates. Text names a class / external entity by the attribute prebuild looks it up with; per-construct context is not kept in walker attributes across a further dispatch (shared with C06).',
    'C06': ' A parameter read is resolved along a navigation from the owning element; no None child reaches a statement list; identifiers are looked up exactly as spelled. The statement context (act_smt) is forwarded by every dispatching handler. Every value on the index chain of an assigned array element is typed; a referential attribute reads with the type of the attribute it refers to. A handed-in statement gets its subtype on every path on which no test of the parameter alone rules it out; handlers of nestable constructs keep their context in locals / arguments.',
    'C07': ' Sibling productions agree on the node class of keyword-qualified invocations and on the kind of symbol each node field receives; a possibly empty statement is never added to a list unguarded. Different fixed words build different nodes; words naming other tokens stay identifiers. The node classes with a relationship phrase agree on the empty string for the absent phrase. The block- and line-comment token languages equal the comment languages of OAL (two automaton inclusions each).',
    'C08': ' Keyword fields of child nodes (typed from the grammar actions) are followed as well, and symbol-table lookups are sinks. A grammar action shared by a keyword and a free-text alternative (instance_name : variable_name | SELF) forwards the keyword case-normalised. The keyword decision of t_ID is tabled for every keyword in five spellings.',
    'C09': ' WhereEqual is a table over all component outcomes including the empty filter; the result sets keep their linked-list invariant (shape analysis, shared with C17). A stale raw copy in the instance dictionary does not influence the equality filter. A rejected relate / unrelate leaves both directions as they were (shared with C02); filters on a shared referential attribute read it through the getter chain (shared with C03). Every value select_many returns is the whole pipeline result, whatever extra test precedes it.',
    'C11': ' The partner sets that are counted change by exactly the pair (link operation tables shared with C02); an overwritten error counter in a main function is reported. The null test counts an identifying attribute also when it is referential. The test that decides whether an attribute is identifying carries one case normaliser on both sides.',
    'C10': ' __delattr__ is tabled over the declared attributes as well; the index keys of the loader use the association spelling (shared with C03). Instance dictionaries are written only by the Class dunder methods or under a key bound by iterating the declared attributes (who-may-write); class names given to a navigation are resolved alike on both hops (shared with C09). Association keys are mapped onto the declared spelling of the class they belong to (one cell per attribute whatever spelling the association used).',
    'C12': ' Every value lexeme the grammar accepts gets a type name (automata inclusion against guess_type_name); constructs that raise by themselves on malformed data '
           '(zip(strict=True), unguarded delattr, an element of split()) are not used unguarded on the input routes. Exception messages are built from literal format strings; no converter runs on token text inside a grammar action. An entry of <instance>.__dict__ is read only under a membership guard.',
    'C13': ' No partial converter (int, float, ...) is applied to token text while parsing; endlexpos is computed from the matched text, not from a re-bound value. text_input feeds the parser the text it was given. Every parse starts with a lexer whose line counter is 1 (built for the call, or reset before parsing).',
    'C17': ' The truth value of an element is unknown to the analysis: first / last / pop must not depend on it.',
    'C15': ' The numbering loop of an enumeration walks the sequence sort_reflexive returns. run_* keep no module-level cache; loop control and bare return behave as C04 decides (shared). Every element kind of mk_component is selected through the component filter.',
    'C18': ' Nothing kept by the loader or its statements is a one-shot iterator; a rejected input leaves nothing behind (shared with C12). MetaModel.clone resolves the class in the receiving metamodel. No parameter default constructs an object (it would be shared by every build).',
    'C19': ' MetaModel.new and calling a metaclass forward their arguments to MetaClass.new unchanged; a given generator of any kind is stored. A function that accepts an id generator hands exactly that object to the metamodel it creates. The positional INSERT route stores only deserialised statement values over the defaults computed by new().',
    'C20': ' The builders keep no state between generations (no memoising decorator, mutable default or module-level container); a user type restricts its immediate base; loops over selected elements run to their end. An enumeration / structure declaration is returned on every path. A rejected edit leaves the model unchanged (shared with C02) and containment is found by the navigation tables of C09 (shared). main() hands build_schema the component whose Name equals the -c argument exactly.',
    'C02': ' The exception constructors format caller-given arguments with total conversions only, so the documented rejection can always be built.',
    'C03': ' In the definition passes the define_* call is guarded by the statement-class filter only.',
    'C12': ' A look-up table built from the model and subscripted with statement data is guarded. A statement list read at a position taken from another statement list is preceded by a length comparison.',
    'C14': ' Association phrases survive writing and loading the schema (quote discipline shared with C01).',
}

ALL = ['C%02d' % i for i in range(1, 21)]


def main():
    checks = []
    for pid in ALL:
        if pid not in CHECKS:
            continue
        c = CHECKS[pid]
        checks.append({
            'property_id': pid,
            'quick_cmd': '%s sa/check.py %s --tier quick' % (PY, pid),
            'thorough_cmd': '%s sa/check.py %s --tier thorough' % (PY, pid),
            'evidence_file': '/verif/evidence/%s.json' % pid,
            'replay_cmd_template': '%s sa/check.py %s --replay {path}' % (PY, pid),
            'engine': 'sa',
            'level_claimed': {'category': c['cat'], 'text': c['text'] + ADDED.get(pid, ''), 'design_ref': c['sec']},
            'level_note': c['note'],
            'technique': c['technique'] + '; functions are first proven equivalent to the reference spelling by a behaviour-preserving normal form of the syntax tree (sa/normal.py, sa/equiv.py), otherwise read as written',
        })
    na = []
    for pid in ALL:
        if pid in CHECKS:
            continue
        reason = NOT_APPLICABLE.get(pid, 'rule set for this property is not built yet (work in progress, see DESIGN.md section 7)')
        na.append({'property_id': pid, 'reason': reason})
    manifest = {
        'version': 1,
        'setup_cmd': 'true',
        'hooks': {
            'guard': 'PYXTUML_VERIF',
            'enable': 'none needed: the checkers read the source text of /repo only; no hook code is added to /repo',
            'baseline_off_cmd': BASELINE,
            'source_commits': [],
            'add_only': True,
        },
        'engines': [{
            'name': 'sa',
            'path': '/verif/sa',
            'serves_properties': sorted(CHECKS),
            'kind_free_text': 'repository-specific static analysis over Python ast: statement CFG, finite abstract '
                              'interpretation of small functions, grammar/LALR extraction, regex automata, schema '
                              'model, kind inference; never imports or runs /repo',
        }],
        'checks': checks,
        'notes': 'All checks read $PYX_REPO (default /repo) source on every run; exit 0 holds / 1 VIOLATION / 2 '
                 'ANALYSIS-ERROR (anchor vanished or idiom not understood).  Known findings: /verif/known_findings.json.',
        'not_applicable': na,
    }
    with open(os.path.join(VERIF, 'MANIFEST.json'), 'w') as f:
        json.dump(manifest, f, indent=1)
        f.write('\n')
    print('wrote MANIFEST.json with %d checks, %d not_applicable' % (len(checks), len(na)))


if __name__ == '__main__':
    main()
