#!/venv/bin/python
'''Generates /verif/MANIFEST.json from the table below (run after adding a rule module).'''
import json
import os
import subprocess

VERIF = os.path.dirname(os.path.dirname(os.path.abspath(__file__)))
PY = '/venv/bin/python'

BASELINE = ('cd /repo && /venv/bin/python -m pytest -ra -q -p no:cacheprovider --timeout=900 '
            '--continue-on-collection-errors')

TRUST = ('Trusted base: CPython `ast` (parsing of the analysed sources), the rule tables in /verif/sa/rules '
         '(each frozen instance carries its reason), ')

CHECKS = {
    'C02': dict(
        cat='other', sec='DESIGN.md 2/C02',
        technique='finite abstract interpretation of Link.connect/disconnect/relate/unrelate/delete + role typing of link operations (static)',
        text='Total abstract tables: every abstract state of Link.connect/disconnect and every outcome combination '
             'of the link operations inside relate/unrelate/delete is executed abstractly on the source and compared '
             'with the specification (idempotent connect, bounded ends, rejected calls leave no net mutation, success '
             'updates both directions mirrored).  The roles of source_link/target_link are derived from '
             'define_association and every connect/disconnect call site and _find_link branch is type-checked '
             'against them.  Symmetry over whole histories follows by induction over the four mutators; the induction '
             'itself is stated, not mechanised.',
        note=TRUST + 'the abstraction of a link slot to (instance present, pair present, other partner present).'),
    'C10': dict(
        cat='other', sec='DESIGN.md 2/C10',
        technique='finite abstract interpretation of the attribute dunder methods + normaliser-agreement dataflow (static)',
        text='Every combination of (spelling matches a declared attribute, spelling identical, value stored, other '
             'keys present) is executed abstractly through Class.__getattr__/__setattr__/__delattr__ and the storage '
             'cell touched on each path is compared with the single declared cell; every keyed access to the class '
             'table and every name comparison in the resolution helpers must use one case normaliser; constructor '
             'keywords must be resolved to the declared spelling.  Decides that no code path can create or address a '
             'second cell for another spelling, not whole write histories.',
        note=TRUST + 'the assumption that only the three dunder methods, MetaClass.new and the loader write instance dictionaries.'),
    'C11': dict(
        cat='other', sec='DESIGN.md 2/C11',
        technique='finite truth tables by abstract interpretation of the check functions and mains (static)',
        text='The violation predicate of check_link_integrity is executed abstractly for all 12 combinations of '
             '(partner count 0/1/>=2, conditional, many) and compared with the specification; the same is done for '
             'the association filter and sum, is_consistent, the null predicate of the uniqueness check (over value '
             'and type-name spellings), the subtype check and the result-summing part of both command line mains '
             '(all -r/-k combinations); the duplicate map is checked structurally.  Decides that the predicates and '
             'sums are the specified ones for every model; it does not compute counts of a concrete model.',
        note=TRUST + 'the abstraction n in {0,1,>=2} (the code compares len() only with constants <= 2, checked).'),
    'C12': dict(
        cat='other', sec='DESIGN.md 2/C12',
        technique='dominator analysis + effect scan + call-graph exception classification + guard analysis (static)',
        text='In ModelLoader.input every store on the loader is dominated by the successful return of the parse '
             'call; no p_*/t_* action stores on the loader; only __init__/input write the statement list; every '
             'explicit raise reachable from input/build_metamodel (call graph incl. ply actions) is ParsingException '
             'or a MetaException subclass; every partial converter (int, float, uuid.UUID) applied to statement text '
             'is inside a try that maps ValueError to the documented rejection or is dominated by a lexical test; '
             'thorough adds the exact ambiguity analysis of every token regex (no exponential backtracking).',
        note=TRUST + 'ply reports errors only through t_error/p_error. Value-dependent implicit built-in errors are not decided.'),
    'C19': dict(
        cat='other', sec='DESIGN.md 2/C19',
        technique='abstract interpretation of default_value over the type alphabet + path/slot rules on new() and the generators (static)',
        text='default_value is executed abstractly for every type name in both letter cases with and without an '
             'owning metamodel and compared with the table of the property; MetaClass.new must run defaults, '
             'positional, keywords in that order with the defaults skipping exactly referential attributes; '
             'IdGenerator.peek is a pure read, next returns the saved value and re-reads once, the IntegerGenerator '
             'sequence is evaluated symbolically to 1,2,3,4, every MetaModel creates its own generator.',
        note=TRUST + 'uuid4 randomness (never 0, never repeating) is probabilistic and not decided.'),
}

NOT_APPLICABLE = {
    'C16': 'Result order and termination of sort_reflexive depend on the run-time contents of the link dictionaries '
           '(a data invariant: the association is one-to-one); no clause of the property is visible in the shape of '
           'the code, so no sound static rule decides it.',
    'C17': 'Functional correctness of a hash-map + circular doubly linked list over operation histories needs '
           'heap-shape proof or state exploration (other technique families), not a rule over syntax, CFG or call graph.',
}

ALL = ['C%02d' % i for i in range(1, 21)]


def main():
    checks = []
    for pid in ALL:
        if pid not in CHECKS:
            continue
        c = CHECKS[pid]
        checks.append({
            'property_id': pid,
            'quick_cmd': '%s sa/check.py %s --tier quick' % (PY, pid),
            'thorough_cmd': '%s sa/check.py %s --tier thorough' % (PY, pid),
            'evidence_file': '/verif/evidence/%s.json' % pid,
            'replay_cmd_template': '%s sa/check.py %s --replay {path}' % (PY, pid),
            'engine': 'sa',
            'level_claimed': {'category': c['cat'], 'text': c['text'], 'design_ref': c['sec']},
            'level_note': c['note'],
            'technique': c['technique'],
        })
    na = []
    for pid in ALL:
        if pid in CHECKS:
            continue
        reason = NOT_APPLICABLE.get(pid, 'rule set for this property is not built yet (work in progress, see DESIGN.md section 7)')
        na.append({'property_id': pid, 'reason': reason})
    manifest = {
        'version': 1,
        'setup_cmd': 'true',
        'hooks': {
            'guard': 'PYXTUML_VERIF',
            'enable': 'none needed: the checkers read the source text of /repo only; no hook code is added to /repo',
            'baseline_off_cmd': BASELINE,
            'source_commits': [],
            'add_only': True,
        },
        'engines': [{
            'name': 'sa',
            'path': '/verif/sa',
            'serves_properties': sorted(CHECKS),
            'kind_free_text': 'repository-specific static analysis over Python ast: statement CFG, finite abstract '
                              'interpretation of small functions, grammar/LALR extraction, regex automata, schema '
                              'model, kind inference; never imports or runs /repo',
        }],
        'checks': checks,
        'notes': 'All checks read $PYX_REPO (default /repo) source on every run; exit 0 holds / 1 VIOLATION / 2 '
                 'ANALYSIS-ERROR (anchor vanished or idiom not understood).  Known findings: /verif/known_findings.json.',
        'not_applicable': na,
    }
    with open(os.path.join(VERIF, 'MANIFEST.json'), 'w') as f:
        json.dump(manifest, f, indent=1)
        f.write('\n')
    print('wrote MANIFEST.json with %d checks, %d not_applicable' % (len(checks), len(na)))


if __name__ == '__main__':
    main()
