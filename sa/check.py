#!/venv/bin/python
'''
Command line driver:  check.py <property id> [--tier quick|thorough] [--replay FILE]

Reads the source of $PYX_REPO (default /repo) -- never imports or runs it --
applies the rule set of the property, prints what was analysed, writes
/verif/evidence/<id>.json and exits 0 (holds) / 1 (VIOLATION) / 2 (ANALYSIS-ERROR).
'''
import importlib
import json
import os
import sys
import traceback

sys.path.insert(0, os.path.dirname(os.path.dirname(os.path.abspath(__file__))))

from sa.src import Repo, AnalysisError          # noqa: E402
from sa import report                            # noqa: E402

PROPS = ['C01', 'C02', 'C03', 'C04', 'C05', 'C06', 'C07', 'C08', 'C09', 'C10',
         'C11', 'C12', 'C13', 'C14', 'C15', 'C16', 'C17', 'C18', 'C19', 'C20']


def main(argv):
    if len(argv) < 2 or argv[1] not in PROPS:
        print('usage: check.py <%s> [--tier quick|thorough] [--replay FILE]' % '|'.join(PROPS))
        return 2
    prop = argv[1]
    tier = os.environ.get('VERIF_TIER') or 'quick'
    replay = None
    i = 2
    while i < len(argv):
        if argv[i] == '--tier':
            tier = argv[i + 1]
            i += 2
        elif argv[i] == '--replay':
            replay = argv[i + 1]
            i += 2
        else:
            print('unknown argument %s' % argv[i])
            return 2
    if tier not in ('quick', 'thorough'):
        tier = 'quick'
    try:
        repo = Repo()
        from sa import absint as _absint
        _absint.REPO = repo
        _absint.EXCEPTION_BASES = repo.exception_bases()
        from sa import pm as _pm
        _pm.SIGNATURES = repo.signatures()
        _pm.SIGNATURES.setdefault('property', ['fget', 'fset', 'fdel', 'doc'])
        _pm.SIGNATURES_ALL = repo._all_signatures
        _pm.DEFAULTS = repo._defaults
        ctx = report.Ctx(prop, tier, repo)
        mod = importlib.import_module('sa.rules.%s' % prop.lower())
        explanation = mod.run(ctx)
        if tier == 'thorough' and not replay and not os.environ.get('PYX_NO_SELFTEST'):
            from sa import selftest
            st = ctx.guard(selftest.rule, ctx)
            if st and st['problems']:
                ctx.analysis_errors.append('checker self-test: %d variant(s) did not behave as expected: %s'
                                           % (len(st['problems']), [p_['id'] + ':' + p_['outcome'] for p_ in st['problems']]))
            explanation += ('  Thorough tier: checker self-test on scratch copies (%s variants incl. confirmed seeded mutations: %s fired, %s silent, '
                            '%s not applicable to this tree).' % ((st or {}).get('variants'), (st or {}).get('fired'), (st or {}).get('silent'),
                                                                (st or {}).get('not_applicable')))
        if replay:
            with open(replay) as f:
                want = json.load(f)
            hit = False
            for r in ctx.rules:
                for f in r.violations:
                    if (f.rule, f.construct, f.key) == (want['rule'], want['construct'], want['key']):
                        hit = True
                        print('%s %s %s -- %s' % (f.where, f.construct, f.rule, f.message))
                        print('VIOLATION property=%s replay=%s' % (prop, replay))
            if not hit:
                print('replayed finding no longer reported: %s %s' % (want['rule'], want['construct']))
            return 1 if hit else 0
        return report.finish(ctx, explanation)
    except AnalysisError as e:
        print('ANALYSIS-ERROR property=%s %s' % (prop, e))
        return 2
    except Exception:
        traceback.print_exc()
        print('ANALYSIS-ERROR property=%s internal error in the checker (see traceback)' % prop)
        return 2


if __name__ == '__main__':
    sys.exit(main(sys.argv))
