'''
Engine `grammar`: extracts a ply grammar (tokens, precedence, productions with their action functions, token rules)
from the *source text* of a parser class, and builds the LALR(1) automaton with ply's table generator used as a
library on the extracted text.  The analysed class is never imported or instantiated.
'''
import ast
import logging

from .src import AnalysisError, loc, src, docstring, dotted


class Production(object):
    def __init__(self, head, syms, prec, fn, alt_index, lineno):
        self.head = head
        self.syms = syms          # without %prec
        self.prec = prec          # token named by %prec or None
        self.fn = fn              # ast.FunctionDef of the action
        self.alt = alt_index
        self.lineno = lineno
        self.number = None        # ply production number (1-based; 0 is S')

    def __repr__(self):
        return '%s -> %s' % (self.head, ' '.join(self.syms) or '<empty>')


class TokenRule(object):
    def __init__(self, name, regex, fn, lineno):
        self.name = name          # without t_
        self.regex = regex
        self.fn = fn              # FunctionDef or None (string rule)
        self.lineno = lineno

    @property
    def returns_token(self):
        if self.fn is None:
            return True
        return any(isinstance(n, ast.Return) and n.value is not None for n in ast.walk(self.fn))


def _eval_tuple(cls_assigns, node, depth=0):
    '''evaluate a class-level tuple expression: literal tuples, names of other class-level tuples, `+`'''
    if depth > 5:
        raise AnalysisError('%s: tuple expression too deep' % loc(node))
    if isinstance(node, (ast.Tuple, ast.List)):
        out = []
        for e in node.elts:
            if isinstance(e, ast.Constant):
                out.append(e.value)
            elif isinstance(e, (ast.Tuple, ast.List)):
                out.append(tuple(_eval_tuple(cls_assigns, e, depth + 1)))
            else:
                raise AnalysisError('%s: non-literal tuple element %s' % (loc(e), src(e)))
        return out
    if isinstance(node, ast.Name) and node.id in cls_assigns:
        return _eval_tuple(cls_assigns, cls_assigns[node.id], depth + 1)
    if isinstance(node, ast.BinOp) and isinstance(node.op, ast.Add):
        return _eval_tuple(cls_assigns, node.left, depth + 1) + _eval_tuple(cls_assigns, node.right, depth + 1)
    raise AnalysisError('%s: cannot evaluate %s statically' % (loc(node), src(node)))


class Grammar(object):
    def __init__(self, repo, class_qual):
        self.repo = repo
        self.qual = class_qual
        cls = repo.cls(class_qual)
        self.cls = cls
        assigns = repo.assigns_in_class(cls)
        if 'tokens' not in assigns:
            raise AnalysisError('%s: class %s has no tokens' % (loc(cls), class_qual))
        self.tokens = list(_eval_tuple(assigns, assigns['tokens']))
        self.keywords = list(_eval_tuple(assigns, assigns['keywords'])) if 'keywords' in assigns else []
        self.reserved = list(_eval_tuple(assigns, assigns['reserved'])) if 'reserved' in assigns else []
        self.precedence = []
        if 'precedence' in assigns:
            for level, row in enumerate(_eval_tuple(assigns, assigns['precedence']), 1):
                self.precedence.append((level, row[0], list(row[1:])))
        self.precedence_node = assigns.get('precedence')
        ign = assigns.get('t_ignore')
        self.t_ignore = ign.value if isinstance(ign, ast.Constant) else ''
        self.productions = []
        self.token_rules = []
        self.p_error = None
        self.t_error = None
        for m in cls.body:
            if isinstance(m, ast.Assign) and len(m.targets) == 1 and isinstance(m.targets[0], ast.Name) \
                    and m.targets[0].id.startswith('t_') and m.targets[0].id not in ('t_ignore',):
                if isinstance(m.value, ast.Constant) and isinstance(m.value.value, str):
                    self.token_rules.append(TokenRule(m.targets[0].id[2:], m.value.value, None, m.lineno))
            if not isinstance(m, ast.FunctionDef):
                continue
            if m.name == 'p_error':
                self.p_error = m
            elif m.name == 't_error':
                self.t_error = m
            elif m.name.startswith('p_'):
                doc = docstring(m)
                if doc is None:
                    raise AnalysisError('%s: production function %s has no docstring' % (loc(m), m.name))
                self._parse_doc(doc, m)
            elif m.name.startswith('t_'):
                doc = docstring(m)
                if doc is None:
                    raise AnalysisError('%s: token function %s has no regex docstring' % (loc(m), m.name))
                self.token_rules.append(TokenRule(m.name[2:], doc, m, m.lineno))
        # ply order: functions by line number, then string rules by decreasing regex length
        fr = sorted([t for t in self.token_rules if t.fn is not None], key=lambda t: t.lineno)
        sr = sorted([t for t in self.token_rules if t.fn is None], key=lambda t: -len(t.regex))
        self.token_rules = fr + sr
        # ply uses the first production of the first p_ function (by line number) as start symbol
        self.productions.sort(key=lambda p: (p.lineno, p.alt))
        self.start = self.productions[0].head if self.productions else None
        self.nonterminals = sorted(set(p.head for p in self.productions))
        self._lalr = None

    def _parse_doc(self, doc, fn):
        head = None
        alt = 0
        for line in doc.splitlines():
            toks = line.split()
            if not toks:
                continue
            if toks[0] == '|':
                if head is None:
                    raise AnalysisError('%s: misplaced | in %s' % (loc(fn), fn.name))
                syms = toks[1:]
            else:
                if len(toks) < 2 or toks[1] not in (':', '::='):
                    raise AnalysisError('%s: malformed production in %s: %r' % (loc(fn), fn.name, line))
                head = toks[0]
                syms = toks[2:]
            prec = None
            if '%prec' in syms:
                i = syms.index('%prec')
                prec = syms[i + 1]
                syms = syms[:i]
            self.productions.append(Production(head, syms, prec, fn, alt, fn.lineno))
            alt += 1

    # ---------------------------------------------------------------------
    def is_terminal(self, s):
        return s in self.tokens

    def prods_of(self, head):
        return [p for p in self.productions if p.head == head]

    def terminals_only(self, sym, seen=None):
        '''set of terminals if every derivation of sym is a single terminal, else None'''
        if self.is_terminal(sym):
            return {sym}
        seen = seen or set()
        if sym in seen:
            return None
        seen = seen | {sym}
        out = set()
        ps = self.prods_of(sym)
        if not ps:
            return None
        for p in ps:
            if len(p.syms) != 1:
                return None
            t = self.terminals_only(p.syms[0], seen)
            if t is None:
                return None
            out |= t
        return out

    def derivable_terminals(self, sym, seen=None):
        '''terminals reachable through unit productions X -> Y only (used for "is one alternative a keyword")'''
        if self.is_terminal(sym):
            return {sym}
        seen = seen or set()
        if sym in seen:
            return set()
        seen = seen | {sym}
        out = set()
        for p in self.prods_of(sym):
            if len(p.syms) == 1:
                out |= self.derivable_terminals(p.syms[0], seen)
        return out

    # ---------------------------------------------------------------------
    def lalr(self):
        '''build the LALR(1) tables from the extracted grammar text with ply (as a library)'''
        if self._lalr is not None:
            return self._lalr
        from ply import yacc
        g = yacc.Grammar(self.tokens)
        for level, assoc, terms in self.precedence:
            for t in terms:
                g.set_precedence(t, assoc, level)
        try:
            for p in self.productions:
                syms = list(p.syms)
                if p.prec:
                    syms += ['%prec', p.prec]
                g.add_production(p.head, syms, p.fn.name, self.cls._module.relpath, p.fn.lineno)
                p.number = len(g.Productions) - 1
            g.set_start(self.start)
        except yacc.GrammarError as e:
            raise AnalysisError('%s: ply rejects the extracted grammar: %s' % (loc(self.cls), e))
        undefined = g.undefined_symbols()
        if undefined:
            raise AnalysisError('%s: undefined grammar symbols %s' % (loc(self.cls), [s for s, _ in undefined][:5]))
        log = yacc.NullLogger()

        class Table(yacc.LRGeneratedTable):
            captured = None

            def lr0_items(self):
                C = yacc.LRGeneratedTable.lr0_items(self)
                if self.captured is None:
                    self.captured = C
                return C

        lr = Table(g, 'LALR', log)
        items = lr.captured
        self._lalr = LALR(self, g, lr, items)
        return self._lalr


class LALR(object):
    def __init__(self, grammar, g, lr, items):
        self.grammar = grammar
        self.g = g
        self.lr = lr
        self.item_sets = items
        self.action = lr.lr_action
        self.goto = lr.lr_goto
        self.sr_conflicts = list(lr.sr_conflicts)
        self.rr_conflicts = list(lr.rr_conflicts)
        self.n_states = len(items)

    def states_with_completed(self, prod_number):
        '''states whose item set contains the completed item of production prod_number'''
        out = []
        for st, I in enumerate(self.item_sets):
            for it in I:
                if it.number == prod_number and it.lr_index == len(it.prod) - 1:
                    out.append(st)
        return out

    def states_with_item(self, pred):
        out = []
        for st, I in enumerate(self.item_sets):
            for it in I:
                if pred(it):
                    out.append((st, it))
        return out

    def act(self, state, term):
        '''("shift", s) | ("reduce", prodno) | ("accept",) | ("error",)'''
        a = self.action[state].get(term)
        if a is None:
            return ('error',)
        if a > 0:
            return ('shift', a)
        if a < 0:
            return ('reduce', -a)
        return ('accept',)
