'''
Shape analysis of xtuml.tools.OrderedSet, the container behind Link partner sets, QuerySet and every navigation result
(shared by C02 and C09).

The set is a dict  key -> node  plus a circular doubly linked list of nodes [key, prev, next] around a sentinel.  The
invariant every reader of the class relies on is

    INV:  following slot 2 from the sentinel visits exactly the nodes of the dict, each once, and comes back to the sentinel;
          following slot 1 visits the same nodes in the opposite order  (n[2][1] is n and n[1][2] is n for every node)

The mutators (add, discard; pop through discard) are executed by the small symbolic-heap interpreter below -- node identities
are symbols, slots are heap cells, no repository code runs -- from every well-formed list with 0..3 members, for a key at
every position (and for an absent key), and INV is checked on the resulting heap together with the membership effect.  The
operations only touch the neighbours of the affected node, so lists of up to three members cover every aliasing case
(prev / next being the sentinel or a member).  The readers (__iter__, __reversed__, pop's choice of key) are executed on
the same heaps and must enumerate the members in insertion / reverse insertion order.
'''
import ast

from ..src import AnalysisError, loc, src, param_names

TOOLS = 'xtuml.tools:OrderedSet.'


class _Unknown(Exception):
    pass


class _Return(Exception):
    def __init__(self, value):
        self.value = value


class _Raise(Exception):
    pass


class _KeyTruth(_Raise):
    '''the code asks for the truth value of an ELEMENT: elements are arbitrary hashable values (0, '', None ...), so the outcome is
    not the same for every element; callers see it as an abnormal outcome'''
    pass


class Node(object):
    '''a list object of the heap'''
    def __init__(self, name, slots):
        self.name = name
        self.slots = slots

    def __repr__(self):
        return self.name


class Heap(object):
    def __init__(self, n, keys=None):
        if n is None:          # before __init__ ran
            self.end, self.map, self.fresh = None, None, 0
            return
        if keys is not None:
            n = len(keys)
        self.end = Node('END', [None, None, None])
        self.end.slots[1] = self.end
        self.end.slots[2] = self.end
        self.map = {}
        self.fresh = 0
        prev = self.end
        for i in range(n):
            k = 'k%d' % i if keys is None else keys[i]
            nd = Node('N%s' % (k,), [k, prev, self.end])
            prev.slots[2] = nd
            self.end.slots[1] = nd
            self.map[k] = nd
            prev = nd

    def forward(self, limit=12):
        out, cur = [], self.end.slots[2]
        while cur is not self.end:
            if not isinstance(cur, Node) or len(out) > limit:
                return None
            out.append(cur)
            cur = cur.slots[2]
        return out

    def backward(self, limit=12):
        out, cur = [], self.end.slots[1]
        while cur is not self.end:
            if not isinstance(cur, Node) or len(out) > limit:
                return None
            out.append(cur)
            cur = cur.slots[1]
        return out

    def invariant(self):
        '''None if INV holds, else a description'''
        f, b = self.forward(), self.backward()
        if f is None:
            return 'following the next pointers from the sentinel does not come back to it'
        if b is None:
            return 'following the prev pointers from the sentinel does not come back to it'
        fk = [n.slots[0] for n in f]
        if sorted(map(repr, fk)) != sorted(map(repr, self.map)) or len(set(fk)) != len(fk):
            return 'forward iteration visits %s but the members are %s' % (fk, sorted(self.map))
        if [n.name for n in b] != [n.name for n in reversed(f)]:
            return 'backward order %s is not the reverse of forward order %s: a later add() or discard() links through a removed / stale node' % (
                [n.slots[0] for n in b], fk)
        for n in f:
            if self.map.get(n.slots[0]) is not n:
                return 'the dict entry of %s is not the node in the list' % n.slots[0]
        return None


class Exec(object):
    '''interpreter of the statement forms OrderedSet uses, over a Heap'''

    def __init__(self, repo, heap, classes=(TOOLS,)):
        self.repo = repo
        self.heap = heap
        self.depth = 0
        self.classes = tuple(classes)
        self.on_yield = None
        self.touched = set()        # names of the nodes whose slots were read or written
        self.written = set()        # (node name, slot)

    def method(self, name):
        for c in self.classes:
            fn = self.repo.func(c + name, required=False)
            if fn is not None:
                return fn
        return None

    def call(self, method, args):
        fn = self.method(method)
        if fn is None:
            raise _Unknown('method %s' % method)
        ps = param_names(fn)
        env = {'self': 'SELF'}
        defaults = fn.args.defaults
        for i, p in enumerate(ps):
            if i < len(args):
                env[p] = args[i]
            else:
                d = defaults[i - (len(ps) - len(defaults))] if i - (len(ps) - len(defaults)) >= 0 else None
                if not isinstance(d, ast.Constant):
                    raise _Unknown('default of %s' % p)
                env[p] = d.value
        self.depth += 1
        if self.depth > 4:
            raise _Unknown('recursion')
        yielded = []
        try:
            self.block(fn.body, env, yielded)
            rv = None
        except _Return as r_:
            rv = r_.value
        finally:
            self.depth -= 1
        if any(isinstance(n, (ast.Yield, ast.YieldFrom)) for n in ast.walk(fn)):
            return yielded
        return rv

    def block(self, stmts, env, yielded):
        for st in stmts:
            self.stmt(st, env, yielded)

    def stmt(self, st, env, yielded):
        if isinstance(st, ast.Expr) and isinstance(st.value, ast.Constant):
            return
        if isinstance(st, ast.Pass):
            return
        if isinstance(st, ast.Assign):
            v = self.expr(st.value, env)
            for t in st.targets:
                self.store(t, v, env)
            return
        if isinstance(st, ast.If):
            self.block(st.body if self.truth(st.test, env) else st.orelse, env, yielded)
            return
        if isinstance(st, ast.While):
            n = 0
            while self.truth(st.test, env):
                n += 1
                if n > 12:
                    raise _Return('DIVERGES')
                self.block(st.body, env, yielded)
            return
        if isinstance(st, ast.For):
            for v in self.iterate(st.iter, env):
                self.store(st.target, v, env)
                self.block(st.body, env, yielded)
            return
        if isinstance(st, ast.Return):
            raise _Return(self.expr(st.value, env) if st.value is not None else None)
        if isinstance(st, ast.Raise):
            raise _Raise()
        if isinstance(st, ast.Expr) and isinstance(st.value, ast.Yield):
            v = self.expr(st.value.value, env)
            yielded.append(v)
            if self.on_yield is not None:
                self.on_yield(v)
            return
        if isinstance(st, ast.AugAssign):
            if isinstance(st.op, ast.Add) and isinstance(st.target, ast.Name):
                base = env.get(st.target.id)
                v = self.expr(st.value, env)
                if isinstance(base, Node) and not base.slots and isinstance(v, Node):
                    base.slots = list(v.slots)       # end += [None, end, end]
                    return
                if isinstance(base, int) and isinstance(v, int):
                    env[st.target.id] = base + v
                    return
            if isinstance(st.op, ast.BitOr) and isinstance(st.target, ast.Name) and env.get(st.target.id) == 'SELF':
                for v in self.iterate(st.value, env):     # MutableSet.__ior__: add() every element
                    self.call('add', [v])
                return
            raise _Unknown('statement `%s`' % src(st)[:60])
        if isinstance(st, ast.Expr) and isinstance(st.value, ast.Call):
            self.expr(st.value, env)
            return
        if isinstance(st, ast.Delete) and len(st.targets) == 1:
            t = st.targets[0]
            if isinstance(t, ast.Subscript) and src(t.value) == 'self.map':
                k = self.expr(t.slice, env)
                if k not in self.heap.map:
                    raise _Raise()
                del self.heap.map[k]
                return
        raise _Unknown('statement `%s`' % src(st)[:60])

    def iterate(self, it, env):
        v = self.expr(it, env)
        if isinstance(v, (list, tuple)):
            return list(v)
        raise _Unknown('iteration over `%s`' % src(it))

    def store(self, t, v, env):
        if isinstance(t, ast.Name):
            env[t.id] = v
            return
        if isinstance(t, (ast.Tuple, ast.List)):
            if isinstance(v, Node):
                v = list(v.slots)
            if not isinstance(v, (list, tuple)) or len(v) != len(t.elts):
                raise _Unknown('unpacking `%s`' % src(t))
            for e, x in zip(t.elts, v):
                self.store(e, x, env)
            return
        if isinstance(t, ast.Attribute) and isinstance(t.value, ast.Name) and t.value.id == 'self' and t.attr == 'end' and isinstance(v, Node):
            self.heap.end = v
            return
        if isinstance(t, ast.Attribute) and isinstance(t.value, ast.Name) and t.value.id == 'self' and t.attr == 'map' and isinstance(v, dict):
            self.heap.map = v
            return
        if isinstance(t, ast.Subscript):
            if src(t.value) == 'self.map':
                k = self.expr(t.slice, env)
                self.heap.map[k] = v
                return
            base = self.expr(t.value, env)
            idx = self.expr(t.slice, env)
            if isinstance(base, Node) and isinstance(idx, int) and 0 <= idx < 3:
                base.slots[idx] = v
                self.touched.add(base.name)
                self.written.add((base.name, idx))
                return
        raise _Unknown('store to `%s`' % src(t))

    def truth(self, e, env):
        if isinstance(e, ast.UnaryOp) and isinstance(e.op, ast.Not):
            return not self.truth(e.operand, env)
        if isinstance(e, ast.BoolOp):
            vals = (self.truth(v, env) for v in e.values)
            return all(vals) if isinstance(e.op, ast.And) else any(vals)
        return self.truth_of(self.expr(e, env), e)

    def truth_of(self, v, e):
        if v == 'SELF':
            return len(self.heap.map) > 0
        if isinstance(v, Node):
            return True
        if isinstance(v, dict):
            return len(v) > 0
        if isinstance(v, (bool, int, list, tuple)):
            return bool(v)
        if isinstance(v, str) or v is None:
            if v == 'KeyError':
                return True
            raise _KeyTruth('`%s` (element %s)' % (src(e)[:60], v))      # keys stand for arbitrary values, false ones included
        raise _Unknown('truth of `%s`' % src(e))

    def expr(self, e, env):
        H = self.heap
        if isinstance(e, ast.Constant):
            return e.value
        if isinstance(e, ast.Name):
            if e.id in env:
                return env[e.id]
            raise _Unknown('name %s' % e.id)
        if isinstance(e, ast.Attribute) and isinstance(e.value, ast.Name) and e.value.id == 'self':
            if e.attr == 'end':
                return H.end
            if e.attr == 'map':
                return H.map
            raise _Unknown('self.%s' % e.attr)
        if isinstance(e, (ast.List, ast.Tuple)):
            vals = [self.expr(x, env) for x in e.elts]
            if isinstance(e, ast.List) and len(vals) in (0, 3):
                H.fresh += 1
                return Node('NEW%d' % H.fresh, vals)
            return vals
        if isinstance(e, ast.Dict) and not e.keys:
            return {}
        if isinstance(e, ast.Subscript):
            base = self.expr(e.value, env)
            idx = self.expr(e.slice, env)
            if isinstance(base, Node) and isinstance(idx, int) and -3 <= idx < 3:
                self.touched.add(base.name)
                return base.slots[idx]
            if isinstance(base, dict):
                if idx not in base:
                    raise _Raise()
                return base[idx]
            if isinstance(base, (list, tuple)) and isinstance(idx, int):
                return base[idx]
            raise _Unknown('subscript `%s`' % src(e))
        if isinstance(e, ast.Compare) and len(e.ops) == 1:
            a, b = self.expr(e.left, env), self.expr(e.comparators[0], env)
            op = e.ops[0]
            if isinstance(op, ast.Is):
                return a is b
            if isinstance(op, ast.IsNot):
                return a is not b
            if isinstance(op, (ast.In, ast.NotIn)):
                if b == 'SELF':
                    b = H.map
                if isinstance(b, (dict, list, tuple)):
                    return (a in b) if isinstance(op, ast.In) else (a not in b)
            if isinstance(op, (ast.Eq, ast.NotEq)) and not isinstance(a, Node) and not isinstance(b, Node):
                return (a == b) if isinstance(op, ast.Eq) else (a != b)
            if isinstance(op, (ast.Gt, ast.Lt, ast.GtE, ast.LtE)) and isinstance(a, int) and isinstance(b, int):
                return {ast.Gt: a > b, ast.Lt: a < b, ast.GtE: a >= b, ast.LtE: a <= b}[type(op)]
            raise _Unknown('comparison `%s`' % src(e))
        if isinstance(e, ast.IfExp):
            return self.expr(e.body if self.truth(e.test, env) else e.orelse, env)
        if isinstance(e, ast.UnaryOp) and isinstance(e.op, ast.Not):
            return not self.truth(e.operand, env)
        if isinstance(e, ast.BoolOp):
            # a and b / a or b as VALUES: the first operand that decides the outcome
            v = None
            for k, x in enumerate(e.values):
                v = self.expr(x, env)
                if k == len(e.values) - 1:
                    break
                t = self.truth_of(v, x)
                if t != isinstance(e.op, ast.And):
                    break
            return v
        if isinstance(e, ast.Call):
            f = e.func
            args = [self.expr(a, env) for a in e.args]
            if e.keywords:
                raise _Unknown('keywords in `%s`' % src(e))
            if isinstance(f, ast.Attribute) and f.attr == 'extend' and isinstance(f.value, ast.Name) and len(args) == 1:
                base = env.get(f.value.id)        # end.extend((None, end, end)) on the still empty node, as end += [None, end, end]
                v = args[0].slots if isinstance(args[0], Node) else args[0]
                if isinstance(base, Node) and not base.slots and isinstance(v, list) and len(v) == 3:
                    base.slots = list(v)
                    return None
            if isinstance(f, ast.Attribute) and src(f.value) == 'self.map':
                if f.attr == 'pop' and len(args) == 1:
                    if args[0] not in H.map:
                        raise _Raise()
                    return H.map.pop(args[0])
                if f.attr == 'pop' and len(args) == 2:
                    return H.map.pop(args[0], args[1])
                if f.attr == 'get' and len(args) in (1, 2):
                    return H.map.get(*args)
            if isinstance(f, ast.Attribute) and isinstance(f.value, ast.Name) and f.value.id == 'self':
                if self.method(f.attr) is not None:
                    return self.call(f.attr, args)
            if isinstance(f, ast.Name) and f.id in ('iter', 'reversed') and len(args) == 1 and args[0] == 'SELF':
                return self.call('__iter__' if f.id == 'iter' else '__reversed__', [])
            if isinstance(f, ast.Name) and f.id == 'next' and len(args) == 1 and isinstance(args[0], list):
                if not args[0]:
                    raise _Raise()
                return args[0][0]
            if isinstance(f, ast.Name) and f.id in ('dict', 'list') and not args:
                return {} if f.id == 'dict' else []
            if isinstance(f, ast.Name) and f.id == 'len' and len(args) == 1:
                if args[0] == 'SELF' or isinstance(args[0], dict):
                    return len(H.map)
                if isinstance(args[0], (list, tuple)):
                    return len(args[0])
            if isinstance(f, ast.Name) and f.id in ('list', 'tuple', 'iter') and len(args) == 1 and isinstance(args[0], (list, tuple)):
                return list(args[0])
            if isinstance(f, ast.Name) and f.id == 'KeyError':
                return 'KeyError'
        raise _Unknown('expression `%s`' % src(e)[:60])


def check(ctx, rule_id):
    repo = ctx.repo
    r = ctx.rule(rule_id, 'OrderedSet (partner sets of links, query sets, navigation results): add / discard / pop keep the linked list and the '
                          'dict in agreement, and iteration enumerates exactly the members', floor=100,
                 oracle='INV: forward chain == members, backward chain == reverse of forward chain')
    for m in ('add', 'discard', 'pop', '__iter__', '__reversed__', '__len__', '__contains__'):
        repo.func(TOOLS + m)       # anchors
    Q = 'xtuml.tools:OrderedSet'

    def run(n, method, args):
        h = Heap(n)
        ex = Exec(repo, h)
        try:
            rv = ex.call(method, args)
            raised = False
        except _Raise:
            rv, raised = None, True
        except _Unknown as u:
            raise AnalysisError('%s: OrderedSet.%s uses %s, which is outside the idioms the linked-list shape analysis knows' % (
                loc(repo.func(TOOLS + method)), method, u))
        return h, ex, rv, raised

    def readers(h, label, anchor):
        ex = Exec(repo, h)
        want = [n.slots[0] for n in (h.forward() or [])]
        try:
            it = ex.call('__iter__', [])
            rev = ex.call('__reversed__', [])
            ln = ex.call('__len__', [])
        except _Raise:
            it = rev = ln = None
        except _Unknown as u:
            raise AnalysisError('OrderedSet reader uses %s, outside the idioms the linked-list shape analysis knows' % u)
        r.check(it == want, '%s: iteration yields the members in insertion order' % label, repo.func(TOOLS + '__iter__'), construct=Q + '.__iter__',
                key='iter ' + label, msg='%s: __iter__ yields %s, the members in order are %s' % (label, it, want))
        r.check(rev == list(reversed(want)), '%s: reversed iteration yields the members in reverse order' % label, repo.func(TOOLS + '__reversed__'),
                construct=Q + '.__reversed__', key='reversed ' + label, msg='%s: __reversed__ yields %s, expected %s' % (label, rev, list(reversed(want))))
        r.check(ln == len(want), '%s: len is the number of members' % label, repo.func(TOOLS + '__len__'), construct=Q + '.__len__', key='len ' + label,
                msg='%s: __len__ is %s with %d members' % (label, ln, len(want)))

    for n in range(0, 4):
        before = ['k%d' % i for i in range(n)]
        # add of a new key / of a present key
        for key in ['new'] + before:
            h, ex, rv, raised = run(n, 'add', [key])
            label = 'add(%s) to %s' % (key, before)
            want = before + ([key] if key not in before else [])
            bad = h.invariant()
            got = [x.slots[0] for x in (h.forward() or [])]
            fn = repo.func(TOOLS + 'add')
            r.check(bad is None and not raised, '%s keeps the list well formed' % label, fn, construct=Q + '.add', key='inv ' + label,
                    msg='after %s: %s' % (label, bad or 'raises'))
            r.check(got == want, '%s appends at the end exactly when the key is new' % label, fn, construct=Q + '.add', key='eff ' + label,
                    msg='after %s the members in order are %s, expected %s' % (label, got, want))
            if bad is None:
                readers(h, label, fn)
        # discard of every present key / of an absent key
        for key in before + ['absent']:
            h, ex, rv, raised = run(n, 'discard', [key])
            label = 'discard(%s) from %s' % (key, before)
            want = [k for k in before if k != key]
            bad = h.invariant()
            got = [x.slots[0] for x in (h.forward() or [])]
            fn = repo.func(TOOLS + 'discard')
            r.check(bad is None and not raised, '%s keeps the list well formed' % label, fn, construct=Q + '.discard', key='inv ' + label,
                    msg='after %s: %s' % (label, bad or 'raises'))
            r.check(got == want, '%s removes exactly that member' % label, fn, construct=Q + '.discard', key='eff ' + label,
                    msg='after %s the members in order are %s, expected %s' % (label, got, want))
            if bad is None:
                readers(h, label, fn)
            # a removal followed by an add: the new member must be reachable (the latent form of a stale back pointer)
            if bad is None or True:
                ex2 = Exec(repo, h)
                try:
                    ex2.call('add', ['new'])
                    got2 = [x.slots[0] for x in (h.forward() or [])]
                    bad2 = h.invariant()
                except (_Raise, _Unknown):
                    got2, bad2 = None, 'add fails'
                r.check(bad2 is None and got2 == want + ['new'], '%s then add(new): the new member is reachable' % label, fn, construct=Q + '.discard',
                        key='then-add ' + label, msg='%s then add(new): members in order %s, expected %s (%s)' % (label, got2, want + ['new'], bad2))
        # pop from either end
        for last in (True, False):
            h, ex, rv, raised = run(n, 'pop', [last])
            label = 'pop(last=%s) from %s' % (last, before)
            fn = repo.func(TOOLS + 'pop')
            if n == 0:
                r.check(raised, '%s raises' % label, fn, construct=Q + '.pop', key='eff ' + label, msg='%s does not raise KeyError' % label)
                continue
            wantk = before[-1] if last else before[0]
            want = [k for k in before if k != wantk]
            bad = h.invariant()
            got = [x.slots[0] for x in (h.forward() or [])]
            r.check(not raised and rv == wantk and got == want and bad is None, '%s returns and removes %s' % (label, wantk), fn, construct=Q + '.pop',
                    key='eff ' + label, msg='%s returns %s and leaves %s (%s); expected %s and %s' % (label, rv, got, bad, wantk, want))
    # None is an element like any other (the sentinel's key slot holds None, too: emptiness must not be told by the key)
    for keys in ([None], ['k0', None], [None, 'k0'], ['k0', None, 'k1']):
        for last in (True, False):
            h = Heap(0, keys=keys)
            ex = Exec(repo, h)
            fn = repo.func(TOOLS + 'pop')
            label = 'pop(last=%s) from %s' % (last, keys)
            try:
                rv = ex.call('pop', [last])
                raised = False
            except _Raise:
                rv, raised = None, True
            except _Unknown as u:
                raise AnalysisError('%s: OrderedSet.pop uses %s, which is outside the idioms the linked-list shape analysis knows' % (loc(fn), u))
            wantk = keys[-1] if last else keys[0]
            want = list(keys[:-1] if last else keys[1:])
            got = [x.slots[0] for x in (h.forward() or [])]
            r.check(not raised and rv == wantk and got == want and h.invariant() is None, '%s returns and removes %r' % (label, wantk), fn,
                    construct=Q + '.pop', key='eff-none ' + label,
                    msg='%s %s and leaves %s; expected %r and %s (None is a legal element)' % (
                        label, 'raises' if raised else 'returns %r' % (rv,), got, wantk, want))
        h = Heap(0, keys=keys)
        readers(h, 'members %s' % (keys,), repo.func(TOOLS + '__iter__'))
    return r
