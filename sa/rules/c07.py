'''
C07 - OAL parsing follows the precedence table and ignores layout.

The grammar is the program: the LALR(1) automaton is built from the grammar text extracted from oal.py and the
action the parser takes for EVERY ordered pair of adjacent operators is read from the generated table and compared
with the precedence/associativity table of the property (exhaustive over the finite automaton).

  C07-PREC-TABLE  declared precedence levels vs the property's table
  C07-LALR        no conflict resolved by default; operator-pair actions; unary binds tightest; operand slots
  C07-LAYOUT      whitespace / comments / newlines never reach the parser
  C07-OPTIONAL    productions that differ only by an optional word build the same node
  C07-KEYWORDS    keyword table consistency
'''
import ast
import copy

from ..src import AnalysisError, loc, src, norm, dotted, call_attr, param_names, body_without_doc
from .. import pm
from . import lexrules

CLS = 'bridgepoint.oal:OALParser'

# the property's table, lowest binding first
SPEC_LEVELS = [
    ('left', {'OR'}),
    ('left', {'AND'}),
    ('nonassoc', {'LESSTHAN', 'LE', 'DOUBLEEQUAL', 'NOTEQUAL', 'GT', 'GE'}),
    ('left', {'PLUS', 'MINUS', 'PIPE'}),
    ('left', {'TIMES', 'DIV', 'AMP', 'CARET'}),
    ('left', {'MOD'}),
]
OPTIONAL_WORDS = {'ASSIGN', 'LOOP', 'THEN', 'INSTANCES', 'OF'}


def spec_level(tok):
    for i, (assoc, toks) in enumerate(SPEC_LEVELS):
        if tok in toks:
            return i, assoc
    return None, None


def run(ctx):
    ctx.level = 'proof'
    g = lexrules.grammar_of(ctx.repo, CLS)
    ctx.guard(prec_table, ctx, g)
    n_ob = ctx.guard(lalr_rule, ctx, g)
    ctx.guard(layout, ctx, g)
    ctx.guard(optional, ctx, g)
    ctx.guard(keywords, ctx, g)
    ctx.guard(lists, ctx, g)
    ctx.guard(node_ctors, ctx, g)
    from . import listnodes
    ctx.guard(listnodes.check, ctx, 'C07-NONE')
    ctx.guard(reclass, ctx, g)
    ctx.guard(field_kinds, ctx, g)
    ctx.guard(distinct_trees, ctx, g)
    ctx.guard(absent_phrase, ctx)
    from . import c08 as _c08
    ctx.shared(_c08.lex_rule, ctx, g)      # exactly the reserved words are keywords; every other word stays an identifier
    L = g.lalr()
    total = sum(len(r.instances) for r in ctx.rules)
    bad = sum(len(r.violations) for r in ctx.rules)
    ctx.extra.update({
        'obligations': total,
        'discharged': total - bad,
        'checker_cmd': '/venv/bin/python sa/check.py C07 --tier %s' % ctx.tier,
        'trusted_base': ['ply.yacc LALR(1) table construction (used as a library on the extracted grammar text)',
                         'CPython ast', 'extraction of productions/precedence from docstrings in sa/grammar.py'],
        'states': L.n_states,
        'productions': len(g.productions),
        'exhaustive': True,
    })
    ctx.assume('a clean build regenerates the parser tables from this grammar text (the generated __oal_parsetab.py is '
               'a build artefact; ply optimize=1 does not re-validate a stale table)')
    return ('LALR(1) automaton (%d states, %d productions) generated from the grammar text of oal.py; every ordered pair '
            'of adjacent binary operators and every unary/binary pair is decided by reading the parser action in each '
            'state with the completed operator item; conflict freeness; layout tokens never returned; optional-word '
            'production pairs compared by action AST.  Exhaustive for the expression clause.' % (L.n_states, len(g.productions)))


def binary_ops(g):
    ops = []
    for p in g.productions:
        if p.head == 'expression' and len(p.syms) == 3 and p.syms[0] == 'expression' and p.syms[2] == 'expression' \
                and g.is_terminal(p.syms[1]):
            ops.append((p.syms[1], p))
    return ops


def prec_table(ctx, g):
    r = ctx.rule('C07-PREC-TABLE', 'declared precedence equals the table of the property', floor=8,
                 oracle='property statement (or < and < comparisons < additive < multiplicative < modulo < unary)')
    node = g.precedence_node or g.cls
    Q = CLS + '.precedence'
    decl = [(assoc, set(toks)) for _, assoc, toks in g.precedence]
    binary = [d for d in decl if 'UNARY' not in d[1]]
    for i, (assoc, toks) in enumerate(SPEC_LEVELS):
        got = binary[i] if i < len(binary) else None
        r.check(got is not None and got[1] == toks and got[0] == assoc,
                'level %d: %s %s' % (i + 1, assoc, sorted(toks)), node, construct=Q, key='level %d' % (i + 1),
                msg='precedence level %d is declared as %s, the property requires %s %s'
                    % (i + 1, (got[0], sorted(got[1])) if got else None, assoc, sorted(toks)))
    r.check(len(binary) == len(SPEC_LEVELS), 'no additional binary precedence level', node, construct=Q, key='extra-levels',
            msg='%d binary precedence levels declared, the property has %d' % (len(binary), len(SPEC_LEVELS)))
    r.check(decl and 'UNARY' in decl[-1][1] and len(decl[-1][1]) == 1, 'UNARY is the highest level', node, construct=Q, key='unary-level',
            msg='UNARY is not declared as the single highest precedence level')
    ops = [t for t, _ in binary_ops(g)]
    for t in ops:
        lvl, _ = spec_level(t)
        r.check(lvl is not None, 'binary operator %s is covered by the property table' % t, node, construct=Q, key='unknown-op ' + t,
                msg='binary operator token %s has no place in the precedence table of the property' % t)
    un = [p for p in g.productions if p.head == 'expression' and len(p.syms) == 2 and p.syms[0] == 'unary_operator']
    r.check(len(un) == 1 and un[0].prec == 'UNARY', 'the unary production carries %prec UNARY', un[0].fn if un else node,
            construct=CLS + '.p_unary_expression', key='prec-unary',
            msg='the production `expression : unary_operator expression` does not carry %prec UNARY')


def lalr_rule(ctx, g):
    r = ctx.rule('C07-LALR', 'parser actions for every adjacent operator pair, read from the generated LALR table', floor=250,
                 oracle='property statement; automaton generated from the source grammar')
    L = g.lalr()
    Q = CLS
    r.check(not L.sr_conflicts, 'no shift/reduce conflict is resolved by the default rule (%d states)' % L.n_states, g.cls,
            construct=Q, key='sr-conflicts',
            msg='shift/reduce conflicts resolved by yacc\'s default rule: %s' % [(s, t, a) for s, t, a in L.sr_conflicts][:5])
    r.check(not L.rr_conflicts, 'no reduce/reduce conflict', g.cls, construct=Q, key='rr-conflicts',
            msg='reduce/reduce conflicts: %s' % [(s, str(a), str(b)) for s, a, b in L.rr_conflicts][:5])
    ops = binary_ops(g)
    if len(ops) < 10:
        raise AnalysisError('only %d binary operator productions found' % len(ops))
    n = 0
    for op1, p1 in ops:
        states = L.states_with_completed(p1.number)
        if not states:
            raise AnalysisError('no LALR state completes %r' % p1)
        l1, a1 = spec_level(op1)
        if l1 is None:
            continue
        for op2, _ in ops:
            l2, _a2 = spec_level(op2)
            if l2 is None:
                continue
            if l1 > l2 or (l1 == l2 and a1 == 'left'):
                want = 'reduce'
            elif l1 == l2 and a1 == 'nonassoc':
                want = 'error'
            else:
                want = 'shift'
            for st in states:
                act = L.act(st, op2)
                got = act[0]
                good = got == want and (got != 'reduce' or act[1] == p1.number)
                n += 1
                r.check(good, 'a %s b . %s c  ->  %s' % (op1, op2, want), p1.fn, construct=Q + ' state %d' % st,
                        key='pair %s %s' % (op1, op2),
                        msg='after `a %s b` with look-ahead %s the generated parser does %s; the property requires %s (%s)'
                            % (op1, op2, act, want,
                               'a %s b groups first' % op1 if want == 'reduce' else
                               ('chained comparison needs parentheses' if want == 'error' else 'b %s c groups first' % op2)))
    # unary binds tightest
    un = [p for p in g.productions if p.head == 'expression' and len(p.syms) == 2 and p.syms[0] == 'unary_operator']
    for p in un:
        for st in L.states_with_completed(p.number):
            for op2, _ in ops:
                act = L.act(st, op2)
                r.check(act[0] == 'reduce' and act[1] == p.number, 'unary a . %s b -> reduce' % op2, p.fn,
                        construct=Q + ' state %d' % st, key='unary %s' % op2,
                        msg='after a unary operator application with look-ahead %s the parser does %s: unary operators must '
                            'bind tightest' % (op2, act))
    # operand slots of the constructing actions
    seen = set()
    for op, p in ops:
        if p.fn.name in seen:
            continue
        seen.add(p.fn.name)
        ok = any(pm.match('p[0] = BinaryOperationNode(left=p[1], operator=p[2], right=p[3])', st) is not None or
                 pm.match('p[0] = BinaryOperationNode(p[1], p[2], p[3])', st) is not None for st in body_without_doc(p.fn))
        r.check(ok, '%s builds BinaryOperationNode(left=p[1], operator=p[2], right=p[3])' % p.fn.name, p.fn,
                construct=Q + '.' + p.fn.name, key='binop-slots',
                msg='%s does not build BinaryOperationNode(left=p[1], operator=p[2], right=p[3])' % p.fn.name)
    for p in un:
        ok = any(pm.match('p[0] = UnaryOperationNode(operator=p[1], operand=p[2])', st) is not None or
                 pm.match('p[0] = UnaryOperationNode(p[1], p[2])', st) is not None for st in body_without_doc(p.fn))
        r.check(ok, '%s builds UnaryOperationNode(operator=p[1], operand=p[2])' % p.fn.name, p.fn,
                construct=Q + '.' + p.fn.name, key='unop-slots',
                msg='%s does not build UnaryOperationNode(operator=p[1], operand=p[2])' % p.fn.name)
    # grouping keeps the inner expression as one operand
    gp = [p for p in g.productions if p.head == 'expression' and p.syms == ['LPAREN', 'expression', 'RPAREN']]
    r.check(len(gp) == 1 and any(pm.match('p[0] = p[2]', st) is not None for st in body_without_doc(gp[0].fn)),
            'a parenthesised expression is passed through unchanged as one operand', gp[0].fn if gp else g.cls,
            construct=Q + '.p_grouped_expression', key='grouping',
            msg='the production `expression : LPAREN expression RPAREN` does not return p[2] unchanged')
    # node class field order (constructor slots)
    repo = ctx.repo
    for cname, fields in (('BinaryOperationNode', ['left', 'operator', 'right']), ('UnaryOperationNode', ['operator', 'operand'])):
        init = repo.func('bridgepoint.oal:%s.__init__' % cname)
        ok = param_names(init) == fields and all(pm.contains('self.%s = %s' % (f, f), init) for f in fields)
        r.check(ok, '%s stores its constructor arguments in the equally named fields' % cname, init,
                construct='bridgepoint.oal:%s.__init__' % cname, key='ctor-slots',
                msg='%s.__init__ does not store (%s) in the equally named fields' % (cname, ', '.join(fields)))
    return n


def layout(ctx, g):
    r = ctx.rule('C07-LAYOUT', 'whitespace, comments and line breaks never reach the parser', floor=6,
                 oracle='property statement')
    Q = CLS
    for ch, name in ((' ', 'space'), ('\t', 'tab'), ('\r', 'carriage return')):
        r.check(ch in g.t_ignore, 't_ignore contains %s' % name, g.cls, construct=Q + '.t_ignore', key='ignore ' + name,
                msg='t_ignore does not contain %s' % name)
    layout_tokens = []
    for t in g.token_rules:
        if t.name in ('COMMENT', 'SL_STRING', 'newline'):
            layout_tokens.append(t.name)
            r.check(not t.returns_token, 'token rule %s discards its lexeme' % t.name, t.fn, construct=Q + '.t_' + t.name,
                    key='returns', msg='t_%s returns a token: layout would reach the parser' % t.name)
    r.check(set(layout_tokens) == {'COMMENT', 'SL_STRING', 'newline'}, 'comment, line-comment and newline rules exist', g.cls,
            construct=Q, key='layout-rules', msg='layout token rules present: %s' % layout_tokens)
    used = set(s for p in g.productions for s in p.syms)
    r.check(not ({'COMMENT', 'SL_STRING'} & used), 'no production mentions a layout token', g.cls, construct=Q, key='layout-in-grammar',
            msg='a production mentions COMMENT/SL_STRING')
    # layout rules come before the operator rules that share their first characters (ply tries rules in definition order)
    order = [t.name for t in g.token_rules]
    for lay, op in (('COMMENT', 'DIV'), ('SL_STRING', 'DIV')):
        if lay in order and op in order:
            r.check(order.index(lay) < order.index(op), '%s is tried before %s' % (lay, op), g.cls, construct=Q, key='order %s %s' % (lay, op),
                    msg='token rule %s is defined after %s: "/*" or "//" would be lexed as operators' % (lay, op))
    # the comment rules match exactly the comments of the language: `/*` up to the FIRST `*/`, `//` up to the end of the line.  Both
    # languages are prefix free, so language equality also fixes WHICH prefix of the input the (first-match) regex engine takes.
    from ..lexer import RegexNFA, included
    for t in g.token_rules:
        spec = {'COMMENT': r'/\*([^*]|\*+[^*/])*\*+/', 'SL_STRING': r'//[^\n]*\n'}.get(t.name)
        if spec is None:
            continue
        a, b = RegexNFA(t.regex), RegexNFA(spec)
        sub, w1 = included(a, b)
        sup, w2 = included(b, a)
        r.check(sub and sup, 'L(t_%s) is the comment language %s' % (t.name, spec), t.fn, construct=Q + '.t_' + t.name, key='comment-language',
                msg='t_%s %r does not match exactly the comments of the language (%s): %s' % (
                    t.name, t.regex, spec, ('it also matches %r' % w1) if not sub else ('%r is a comment it does not match as one token: the text '
                                                                                     'behind it is swallowed or rejected' % w2)))
    pf = ctx.repo.func('bridgepoint.oal:parse')
    r.check(any(pm.match("_P.text_input(_T + '\\n', _L)", n) is not None for n in ast.walk(pf) if isinstance(n, ast.Call)),
            'parse() terminates the text with a newline (a trailing // comment needs it)', pf, construct='bridgepoint.oal:parse',
            key='trailing-newline', msg="parse() no longer appends '\\n' to the text; `// comment` at the end would not lex as a comment")


def _renumber(fn_body, mapping):
    body = ast.parse('\n'.join(ast.unparse(st) for st in fn_body)).body
    for st in body:
        for n in ast.walk(st):
            if isinstance(n, ast.Subscript) and isinstance(n.value, ast.Name) and n.value.id == 'p' \
                    and isinstance(n.slice, ast.Constant) and isinstance(n.slice.value, int):
                n.slice = ast.Constant(value=mapping.get(n.slice.value, -n.slice.value))
    return norm(body)


def optional(ctx, g):
    r = ctx.rule('C07-OPTIONAL', 'productions differing only by an optional word build the same node', floor=7,
                 oracle='sibling agreement of production actions')
    by_head = {}
    for p in g.productions:
        by_head.setdefault(p.head, []).append(p)
    pairs = 0
    for head, ps in by_head.items():
        for P in ps:
            for S in ps:
                if len(P.syms) <= len(S.syms) or P.fn is S.fn:
                    continue
                # S.syms must be P.syms minus some optional keyword terminals
                i = j = 0
                deleted = []
                while i < len(P.syms):
                    if j < len(S.syms) and P.syms[i] == S.syms[j]:
                        i += 1
                        j += 1
                    elif P.syms[i] in OPTIONAL_WORDS:
                        deleted.append(i + 1)
                        i += 1
                    else:
                        break
                if i != len(P.syms) or j != len(S.syms) or not deleted:
                    continue
                pairs += 1
                mapping = {0: 0}
                shift = 0
                for k in range(1, len(P.syms) + 1):
                    if k in deleted:
                        shift += 1
                    else:
                        mapping[k] = k - shift
                # compared in normal form: keyword / positional arguments, temporaries, p[a:b] slices are one spelling
                a = _renumber(body_without_doc(ctx.repo.nfunc(CLS + '.' + P.fn.name)), mapping)
                b = _renumber(body_without_doc(ctx.repo.nfunc(CLS + '.' + S.fn.name)), {k: k for k in range(0, len(S.syms) + 1)})
                r.check(a == b, '%s (%s) == %s (%s) modulo the optional word(s) %s' % (
                    P.fn.name, ' '.join(P.syms), S.fn.name, ' '.join(S.syms), [P.syms[d - 1] for d in deleted]), S.fn,
                    construct=CLS + '.' + S.fn.name, key='optional-pair ' + P.fn.name,
                    msg='productions %s and %s differ only by the optional word(s) %s but their actions build different nodes'
                        % (P.fn.name, S.fn.name, [P.syms[d - 1] for d in deleted]))
    if pairs == 0:
        raise AnalysisError('no optional-word production pair discovered')


def lists(ctx, g):
    '''recursive list productions keep the elements in source order'''
    r = ctx.rule('C07-LISTS', 'recursive list productions build their lists in source order', floor=5,
                 oracle='position of the recursive symbol in the production')
    from .. import absint
    for p in g.productions:
        if p.head not in p.syms:
            continue
        k = p.syms.index(p.head) + 1
        fn = p.fn
        P = param_names(fn)[0] if param_names(fn) else 'p'
        if not any(pm.match('%s[0] = _V' % P, x) is not None for b_ in body_without_doc(fn) for x in ast.walk(b_) if isinstance(x, ast.stmt)):
            continue

        def slot(e):
            m = pm.match('%s[_J]' % P, e)
            return m['_J'].value if m and isinstance(m['_J'], ast.Constant) else None

        def result_alias(e, s, tr):
            j = slot(e['_V'])
            if j is None:
                return False
            s['result'] = j
            return True

        def target_slot(x, s):
            j = slot(x)
            if j == 0:
                return s.get('result')
            return j

        def op(how):
            def f(e, s, tr):
                t = target_slot(e['_X'], s)
                j = slot(e['_E'])
                if t is None or j is None:
                    return False
                idx = e.get('_IDX')
                tr.append((how, t, j, idx.value if isinstance(idx, ast.Constant) else None, e))
                return True
            return f
        present = [('%s[_J] is None' % P, lambda e, s, tr: False), ('%s[_J] is not None' % P, lambda e, s, tr: True),
                   ('%s[_J]' % P, lambda e, s, tr: True)]
        it = absint.Interp(fn, present, [('%s[0] = _V' % P, result_alias), ('_X.children.insert(_IDX, _E)', op('insert')),
                                         ('_X.children.append(_E)', op('append'))])
        state = {}
        try:
            out, tr = it.run(state)
        except AnalysisError:
            continue        # not a list-building action in the idioms of this rule
        if state.get('result') != k:
            continue
        for how, t, j, idx, e in tr:
            if t != k:
                continue
            st = e['_X']
            if j < k:
                ok = how == 'insert' and idx == 0
                want = 'inserted at the front (the list of the LATER elements is p[%d])' % k
            else:
                ok = how == 'append'
                want = 'appended (the list of the EARLIER elements is p[%d])' % k
            r.check(ok, '%s: element p[%d] is %s' % (p.fn.name, j, want), st, construct=CLS + '.' + p.fn.name, key='list-order',
                    msg='%s (%s): the element p[%d] stands %s the recursive symbol p[%d], so it must be %s; `%s` reverses the order of the '
                        'elements in the tree' % (p.fn.name, p, j, 'before' if j < k else 'after', k, want, how))


def reclass(ctx, g):
    '''`<KEYWORD> [var =] ns::name(...)`: the implicit invocation is re-classed according to the leading keyword; the plain and the
    assignment form of one keyword agree, and different keywords give different classes (two different statements never
    collapse into one tree)'''
    r = ctx.rule('C07-RECLASS', 'keyword-qualified invocations get the node class of their keyword, the same in statement and assignment form',
                 floor=12, oracle='sibling productions of one keyword; injectivity across keywords')
    groups = {}
    for pr in g.productions:
        if 'implicit_invocation' not in pr.syms or not pr.syms or not g.is_terminal(pr.syms[0]):
            continue
        fn = pr.fn
        pvar = fn.args.args[1].arg if len(fn.args.args) > 1 else 'p'
        i = pr.syms.index('implicit_invocation') + 1
        classes = []
        for node, env in pm.find('%s[%d].__class__ = _C' % (pvar, i), fn):
            classes.append(src(env['_C']))
        for node in ast.walk(fn):        # constructor form: X(namespace=p[i].namespace, ...) is not used by the repo; cast helpers are
            if isinstance(node, ast.Call) and isinstance(node.func, ast.Name) and node.func.id.endswith('InvocationNode') and \
                    any(src(x) == '%s[%d]' % (pvar, i) for a in list(node.args) + [k.value for k in node.keywords] for x in ast.walk(a)):
                classes.append(node.func.id)
        Q = 'bridgepoint.oal:OALParser.' + fn.name
        r.check(len(set(classes)) == 1, '%s gives the invocation one node class (%s)' % (fn.name, ', '.join(sorted(set(classes)))), fn, construct=Q,
                key='reclass ' + fn.name, msg='%s (`%s : %s`) does not give the implicit invocation exactly one node class (%s): it stays a '
                                              'generic ImplicitInvocationNode' % (fn.name, pr.head, ' '.join(pr.syms), sorted(set(classes))))
        if classes:
            groups.setdefault(pr.syms[0], []).append((fn, classes[0]))
    for kw, members in sorted(groups.items()):
        cl = sorted(set(c for _, c in members))
        for fn, c in members:
            others = [c2 for f2, c2 in members if f2 is not fn]
            r.check(len(cl) == 1, '%s forms agree on %s' % (kw, cl[0]), fn, construct='bridgepoint.oal:OALParser.' + fn.name, key='agree ' + fn.name,
                    msg='the %s forms disagree: %s builds %s but %s: the statement and the assignment form of the same invocation parse to '
                        'different kinds of node' % (kw, fn.name, c, ', '.join('%s builds %s' % (f2.name, c2) for f2, c2 in members if f2 is not fn)))
    by_class = {}
    for kw, members in groups.items():
        for fn, c in members:
            by_class.setdefault(c, set()).add(kw)
    for c, kws in sorted(by_class.items()):
        r.check(len(kws) == 1, '%s is built for %s only' % (c, '/'.join(sorted(kws))), g.productions[0].fn, construct='bridgepoint.oal:OALParser',
                key='injective ' + c, msg='%s is built for the keywords %s: two different statements parse to the same tree' % (c, sorted(kws)))


def distinct_trees(ctx, g):
    '''different fixed texts parse to different trees: two productions whose right-hand sides are different sequences of fixed tokens
    (self / selected, break / continue ...) and whose actions use no p[i] must not build the same node'''
    import re as _re
    r = ctx.rule('C07-DISTINCT', 'productions for different fixed words build different nodes', floor=4,
                 oracle='injectivity of parsing on fixed-word productions')
    fixed = set(g.keywords)
    for t in g.token_rules:
        if _re.fullmatch(r'(\\.|[^\\\[\](){}|*+?.^$])+', t.regex):
            fixed.add(t.name)
    built = {}
    for p in g.productions:
        if not p.syms or not all(s_ in fixed for s_ in p.syms):
            continue
        pv = p.fn.args.args[1].arg if len(p.fn.args.args) > 1 else 'p'
        for st in ast.walk(p.fn):
            if isinstance(st, ast.Assign) and pm.match('%s[0]' % pv, st.targets[0]) is not None and isinstance(st.value, ast.Call) and \
                    not any(isinstance(x, ast.Name) and x.id == pv for x in ast.walk(st.value)):
                built.setdefault(src(st.value), []).append(p)
    n = 0
    for what, ps in sorted(built.items()):
        texts = sorted({' '.join(p.syms) for p in ps})
        n += 1
        r.check(len(texts) == 1, '%s is built for `%s` only' % (what, texts[0]), ps[0].fn, construct='bridgepoint.oal:OALParser.' + ps[-1].fn.name,
                key='same-tree ' + what, msg='the different texts %s all parse to the node %s (%s): after parsing they cannot be told apart' % (
                    texts, what, ', '.join(p.fn.name for p in ps)))
    r.check(n >= 4, '%d fixed-word node constructions examined' % n, g.productions[0].fn, construct='bridgepoint.oal:OALParser', key='count',
            msg='only %d fixed-word productions found' % n)


def absent_phrase(ctx):
    '''sibling agreement of the node classes with an optional relationship phrase: the absent phrase is the empty string in every one of
    them (the grammar action hands in None / '' for a missing phrase; a tree written with '' must parse back to '')'''
    repo = ctx.repo
    r = ctx.rule('C07-PHRASE', 'node classes with a relationship phrase store the absent phrase as the empty string', floor=5,
                 oracle='sibling agreement of the (un)relate / navigation node constructors')
    for c in repo.classes('bridgepoint.oal'):
        init = repo.methods(c).get('__init__')
        if init is None or 'phrase' not in param_names(init):
            continue
        q = 'bridgepoint.oal:%s.__init__' % c.name
        fn = repo.nfunc(q)
        ok = pm.contains("self.phrase = phrase or ''", fn) or pm.contains("self.phrase = '' if phrase is None else phrase", fn) or \
            pm.contains("self.phrase = '' if not phrase else phrase", fn)
        r.check(ok, '%s stores phrase or \'\'' % c.name, init, construct=q, key='absent-phrase',
                msg='%s.__init__ stores the phrase as given: a statement without a relationship phrase then carries None where its sibling node classes '
                    'carry the empty string, and the tree with phrase \'\' no longer parses back to itself' % c.name)


def field_kinds(ctx, g):
    '''sibling agreement of the constructor fields: a field of a node class that one production fills with free text or a sub-tree
    (identifier, expression, event_meaning ...) is not filled with a fixed token (an operator / punctuation / keyword lexeme) by
    another production, and vice versa -- a shifted index (p[2] for p[3]) makes the field hold the neighbouring `*` or `(`'''
    import re as _re
    from .c08 import ctor_fields
    r = ctx.rule('C07-FIELDS', 'every production fills a node field with the same kind of symbol (text / sub-tree vs fixed token)', floor=100,
                 oracle='sibling productions constructing the same node class')
    fixed = set(g.keywords)
    for t in g.token_rules:
        if _re.fullmatch(r'(\\.|[^\\\[\](){}|*+?.^$])+', t.regex):
            fixed.add(t.name)
    fields = {}
    for p in g.productions:
        for cls, field, pos in ctor_fields(p):
            if pos is None or pos - 1 >= len(p.syms):
                continue
            sym = p.syms[pos - 1]
            terms = {sym} if g.is_terminal(sym) else g.terminals_only(sym)
            kind = 'fixed' if terms and terms <= fixed else 'open'
            fields.setdefault((cls, field), []).append((kind, sym, p))
    # fields that legitimately take both (confirmed by reading): operators spelled as words or as symbols; `self` as a variable access
    MIXED = {('BinaryOperationNode', 'operator'): 'and / or are keywords, the other operators symbols: all are operator lexemes',
             ('CreateInstanceEventNode', 'to_variable_access'): 'the receiver is a variable access or the keyword self (a SelfAccessNode)',
             ('GenerateInstanceEventNode', 'variable_access'): 'the receiver is a variable access or the keyword self (a SelfAccessNode)'}
    for (cls, field), binds in sorted(fields.items()):
        kinds = {b[0] for b in binds}
        if (cls, field) in MIXED:
            r.ok('%s.%s takes both kinds: %s' % (cls, field, MIXED[(cls, field)]), binds[0][2].fn, construct='%s.%s' % (cls, field))
            continue
        if len(kinds) == 1:
            r.ok('%s.%s is always filled with %s symbols (%s)' % (cls, field, kinds.copy().pop(), ', '.join(sorted({b[1] for b in binds}))[:60]),
                 binds[0][2].fn, construct='%s.%s' % (cls, field))
            continue
        major = 'open' if sum(1 for b in binds if b[0] == 'open') >= sum(1 for b in binds if b[0] == 'fixed') else 'fixed'
        for kind, sym, p in binds:
            if kind != major:
                others = sorted({b[1] for b in binds if b[0] == major})
                r.violation('%s (`%s : %s`) fills %s.%s with the %s `%s`; the sibling productions fill it with %s: an index slipped to the '
                            'neighbouring symbol' % (p.fn.name, p.head, ' '.join(p.syms), cls, field,
                                                     'fixed token' if kind == 'fixed' else 'text / sub-tree', sym, ', '.join(others)),
                            p.fn, construct='bridgepoint.oal:OALParser.' + p.fn.name, key='field-kind %s.%s' % (cls, field))


def node_ctors(ctx, g):
    '''every Node constructor stores each argument in the equally named field; list nodes own a fresh list; no mutable defaults'''
    repo = ctx.repo
    r = ctx.rule('C07-NODES', 'syntax tree node constructors keep their arguments apart (slot identity, fresh child lists)', floor=50,
                 oracle='constructor parameter names = field names (the handlers of interpreter/prebuilder read the fields by these names)')
    from .nodes import node_class_names
    names = node_class_names(repo)
    for c in repo.classes('bridgepoint.oal'):
        if c.name not in names:
            continue
        init = repo.methods(c).get('__init__')
        if init is None:
            continue
        q = 'bridgepoint.oal:%s.__init__' % c.name
        for d in init.args.defaults + [x for x in init.args.kw_defaults if x is not None]:
            mutable = isinstance(d, (ast.List, ast.Dict, ast.Set)) or (isinstance(d, ast.Call) and dotted(d.func) in ('list', 'dict', 'set'))
            r.check(not mutable, '%s has no mutable default argument' % q, d, construct=q, key='mutable-default',
                    msg='%s has the mutable default `%s`: every node built without that argument shares ONE object, so children of one parse '
                        'result show up in another' % (q, src(d)))
        ps = param_names(init)
        delegated = any(isinstance(n, ast.Call) and src(n.func).endswith('.__init__') for n in ast.walk(init))
        for st in init.body:
            if isinstance(st, ast.Assign) and len(st.targets) == 1 and isinstance(st.targets[0], ast.Attribute) and src(st.targets[0].value) == 'self':
                f = st.targets[0].attr
                v = st.value
                used = [n.id for n in ast.walk(v) if isinstance(n, ast.Name) and n.id in ps]
                if f in ps:
                    r.check(used == [f], '%s: self.%s <- %s' % (c.name, f, f), st, construct=q, key='slot ' + f,
                            msg='%s stores `%s` in self.%s; the field must receive the constructor argument of the same name (the grammar actions '
                                'pass operands by these names)' % (q, src(v), f))
                elif used:
                    r.check(False, '', st, construct=q, key='slot ' + f, msg='%s stores the argument %s in the unrelated field self.%s' % (q, used, f))
                elif f == 'children':
                    ok = (isinstance(v, ast.Call) and dotted(v.func) == 'list' and not v.args) or (isinstance(v, ast.List) and not v.elts)
                    r.check(ok, '%s creates a fresh children list' % c.name, st, construct=q, key='children',
                            msg='%s does not create a new empty list for self.children' % q)
        if not delegated:
            stored = set(st.targets[0].attr for st in init.body if isinstance(st, ast.Assign) and len(st.targets) == 1
                         and isinstance(st.targets[0], ast.Attribute) and src(st.targets[0].value) == 'self')
            for p_ in ps:
                r.check(p_ in stored, '%s keeps its argument %s' % (c.name, p_), init, construct=q, key='dropped ' + p_,
                        msg='%s never stores its argument `%s`' % (q, p_))


def keywords(ctx, g):
    r = ctx.rule('C07-KEYWORDS', 'keyword table consistency', floor=50, oracle='grammar')
    used = set(s for p in g.productions for s in p.syms)
    for k in g.keywords:
        r.check(k in g.tokens and k.upper() == k, 'keyword %s is an (upper-case) token' % k, g.cls, construct=CLS + '.keywords', key='kw ' + k,
                msg='keyword %s is not declared as a token or is not upper case (t_ID looks keywords up upper-cased)' % k)
    missing = [k for k in g.keywords if k not in used]
    for k in missing:
        r.info('keyword %s is reserved but used by no production' % k, g.cls)
    # every optional word is a keyword that t_ID can produce
    for w in sorted(OPTIONAL_WORDS):
        r.check(w in g.keywords, 'optional word %s is a keyword' % w, g.cls, construct=CLS + '.keywords', key='optional ' + w,
                msg='optional word %s is no longer a keyword' % w)
