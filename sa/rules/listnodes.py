'''
No None child in a list node (shared by C06 and C07): a grammar symbol some production of which leaves p[0] unset (the empty
statement `statement : `) yields None; every action that places the value of such a symbol into the `children` of a node
(insert / append / a list display handed to the constructor) must do so under a test that the value is not None.  Walkers
(prebuild's accept_StatementListNode, the interpreter) treat every child as a statement; a None child splits the R661
succession chain in two.
'''
import ast

from ..src import AnalysisError, loc, src
from ..grammar import Grammar
from .. import pm


def _slot(e):
    '''p[i] -> i'''
    if isinstance(e, ast.Subscript) and isinstance(e.value, ast.Name) and isinstance(e.slice, ast.Constant) and isinstance(e.slice.value, int):
        return e.value.id, e.slice.value
    return None


def _guarded(node, pvar, i):
    '''is node below an `if` whose test requires p[i] to be non-None / truthy?'''
    cur = node
    while getattr(cur, '_parent', None) is not None:
        par = cur._parent
        if isinstance(par, ast.If) and cur in par.body:
            for t in ([par.test] + (par.test.values if isinstance(par.test, ast.BoolOp) and isinstance(par.test.op, ast.And) else [])):
                if pm.match('%s[%d] is not None' % (pvar, i), t) is not None or pm.match('%s[%d]' % (pvar, i), t) is not None or \
                        pm.match('%s[%d] != None' % (pvar, i), t) is not None:
                    return True
        if isinstance(par, ast.If) and cur in par.orelse:
            t = par.test
            if pm.match('%s[%d] is None' % (pvar, i), t) is not None or pm.match('not %s[%d]' % (pvar, i), t) is not None:
                return True
        if isinstance(par, ast.IfExp) and cur is par.body:
            if pm.match('%s[%d] is not None' % (pvar, i), par.test) is not None:
                return True
        # early exit form: `if p[i] is None: return` before the statement in the same block
        for field in ('body', 'orelse', 'finalbody'):
            blk = getattr(par, field, None)
            if isinstance(blk, list) and cur in blk:
                for prev in blk[:blk.index(cur)]:
                    if isinstance(prev, ast.If) and prev.body and isinstance(prev.body[-1], (ast.Return, ast.Raise)) and (
                            pm.match('%s[%d] is None' % (pvar, i), prev.test) is not None or pm.match('not %s[%d]' % (pvar, i), prev.test) is not None):
                        return True
        cur = par
    return False


def check(ctx, rule_id, parser_qual='bridgepoint.oal:OALParser'):
    repo = ctx.repo
    g = Grammar(repo, parser_qual)
    r = ctx.rule(rule_id, 'a grammar symbol that can yield None (empty statement) is never placed into the children of a list node unguarded',
                 floor=2, oracle='the empty production leaves p[0] unset; walkers treat every child as a statement')
    # symbols that may be None: some production's action never assigns p[0] (or assigns None)
    maybe_none = {}
    for pr in g.productions:
        fn = pr.fn
        pvar = fn.args.args[1].arg if len(fn.args.args) > 1 else 'p'
        assigns = [n for n in ast.walk(fn) if isinstance(n, ast.Assign) and any(_slot(t) == (pvar, 0) for t in n.targets)]
        if not assigns or any(isinstance(n.value, ast.Constant) and n.value.value is None for n in assigns):
            maybe_none.setdefault(pr.head, []).append(pr)
    n = 0
    for pr in g.productions:
        fn = pr.fn
        pvar = fn.args.args[1].arg if len(fn.args.args) > 1 else 'p'
        for i, sym in enumerate(pr.syms, 1):
            if sym not in maybe_none:
                continue
            for node in ast.walk(fn):
                placed = None
                if isinstance(node, ast.Call) and isinstance(node.func, ast.Attribute) and node.func.attr in ('insert', 'append', 'extend') and \
                        isinstance(node.func.value, ast.Attribute) and node.func.value.attr == 'children':
                    for a in node.args:
                        for x in ast.walk(a):
                            if _slot(x) == (pvar, i):
                                placed = x
                elif isinstance(node, ast.keyword) and node.arg == 'children' or (isinstance(node, ast.Assign) and any(
                        isinstance(t, ast.Attribute) and t.attr == 'children' for t in node.targets)):
                    for x in ast.walk(node.value):
                        if _slot(x) == (pvar, i):
                            placed = x
                if placed is None:
                    continue
                n += 1
                Q = '%s.%s' % (parser_qual, fn.name)
                r.check(_guarded(placed, pvar, i), '%s: the possibly empty `%s` is only added to the children when it is not None' % (fn.name, sym),
                        node if hasattr(node, 'lineno') else fn, construct=Q, key='none-child ' + fn.name,
                        msg='%s (`%s : %s`) adds %s[%d] to the children without testing it: `%s` is None for the empty production `%s : `, so an '
                            'empty statement in that position puts None into the list and the statements around it lose their '
                            'predecessor / successor link' % (fn.name, pr.head, ' '.join(pr.syms), pvar, i, sym, sym))
    r.check(n >= 2, '%d placements of possibly-None symbols into children lists' % n, g.productions[0].fn, construct=parser_qual, key='placements',
            msg='only %d placements of possibly-None symbols found; 2 were confirmed by hand (p_statement_list_1/2)' % n)
    return r
