'''
C03 - Loading links exactly the key-matching pairs, independent of input order.

  C03-PHASES     populate(): classes < {identifiers, associations} < instances < connections, each once
  C03-PARTITION  every statement kind is consumed by exactly one populate_* pass
  C03-FUNNEL     every input route only appends parsed statements through ModelLoader.input
  C03-KEYS       lookup key and index key are built over the same name space with the same null rule; the hash join
                 indexes the referred class and probes with the referring class of the same link
  C03-NEW        the API route (MetaClass.new with referential values, clone) resolves the same link in the same direction
'''
import ast

from ..src import AnalysisError, loc, src, dotted, call_attr, param_names, body_without_doc, walk_local
from .. import pm
from ..callgraph import CallGraph
from ..grammar import Grammar
from .common import AssocModel
from . import lexrules

LD = 'xtuml.load:ModelLoader'


def run(ctx):
    am = AssocModel(ctx.repo)
    ctx.guard(phases, ctx)
    ctx.guard(partition, ctx)
    ctx.guard(funnel, ctx)
    ctx.guard(keys, ctx, am)
    ctx.guard(new_rule, ctx, am)
    ctx.guard(shared, ctx)
    from . import c02 as _c02, c10 as _c10
    ctx.shared(_c02.pair_and_kinds, ctx, am)   # the batch connect of populate_connections is mirrored on both directed links
    ctx.shared(_c02.swap, ctx, am)             # new() / clone() relate through _find_link: it must pick the association the loader would join
    ctx.shared(_c10.typecase, ctx, ['xtuml.meta'], 'C10-TYPECASE')   # _is_null decides which referential values count as null
    ctx.shared(_c10.access, ctx)      # the loader reads key values through Class.__getattr__ (raw stored value first, declared cell otherwise)
    ctx.shared(_c10.normalise, ctx)   # column names of a named INSERT are matched to the declared attributes whatever their case
    from . import c09 as _c09
    ctx.shared(_c09.where_filter, ctx)   # MetaClass.new finds the referred instances with the equality filter
    ctx.assume('equality of the hash join with the relational join for all value types (== / hash agreement) is not decided')
    return ('Ordering and once-only rules on ModelLoader.populate; isinstance partition of the statement classes vs the grammar '
            'actions; call-graph funnel of all input routes into ModelLoader.input; sibling agreement of compute_lookup_key / '
            'compute_index_key and their use in populate_connections typed by the association role model; direction rule for '
            'links taken from <metaclass>.links in MetaClass.new.')


def shared(ctx):
    '''a referential attribute formalised by several associations: each association's getter falls back to the property the
    previous association installed UNDER THE SAME ATTRIBUTE NAME, so the value is found through whichever link exists'''
    repo = ctx.repo
    r = ctx.rule('C03-SHARED', 'referential attributes shared by several associations chain to the previously installed property of the same attribute',
                 floor=4, oracle='property statement (shared referential attributes read the same after load, new and clone)')
    Q = 'xtuml.meta:Association.formalize'
    fn = repo.nfunc(Q)
    n = 0
    getter_names = set()
    for lp in [x for x in fn.body if isinstance(x, ast.For)]:
        if pm.match('zip(self.source_keys, self.target_keys)', lp.iter) is None or not isinstance(lp.target, ast.Tuple) or len(lp.target.elts) != 2:
            continue
        rk, pk = [e.id if isinstance(e, ast.Name) else None for e in lp.target.elts]
        for node, env in pm.find('setattr(_C, _K, property(partial(_G, ref_name=_P, alt_prop=_A), __))', lp):
            n += 1
            getter_names.add(src(env['_G']))
            r.check(src(env['_K']) == rk, 'the property is installed under the referential attribute name', node, construct=Q, key='installed-under',
                    msg='formalize installs the property under %s, not under the referential attribute %s' % (src(env['_K']), rk))
            m = pm.match('getattr(_C2, _K2, None)', env['_A'])
            ok = m is not None and src(m['_C2']) == src(env['_C']) and src(m['_K2']) == rk
            r.check(ok, 'the fallback is the property previously installed under the same referential attribute', node, construct=Q, key='alt-prop',
                    msg='the fallback property of the getter is %s; it must be what was installed before under the SAME referential attribute '
                        '(getattr(%s, %s, None)): with a shared referential attribute whose name differs from the identifier, an instance linked '
                        'only over the earlier association reads None' % (src(env['_A']), src(env['_C']), rk))
    r.check(n >= 1, 'formalize installs the getter in the loop over the key pairs', fn, construct=Q, key='install-site',
            msg='formalize no longer installs property(partial(fget, ...)) in a loop over zip(source_keys, target_keys)')
    inner = {x.name: x for x in fn.body if isinstance(x, ast.FunctionDef)}
    fget = inner.get(sorted(getter_names)[0]) if len(getter_names) == 1 else None
    if fget is None:
        raise AnalysisError('%s: formalize no longer defines fget' % loc(fn))
    gp = param_names(fget, skip_self=False)
    ok = any(isinstance(x, ast.Return) and x.value is not None and pm.match('alt_prop.fget(%s)' % gp[0], x.value) is not None for x in ast.walk(fget))
    r.check(ok, 'the getter falls back to the previously installed getter when the instance is not linked over this association', fget, construct=Q + '.fget',
            key='fallback', msg='fget no longer returns alt_prop.fget(%s) when this association has no link' % gp[0])


def phases(ctx):
    repo = ctx.repo
    r = ctx.rule('C03-PHASES', 'populate() runs the five passes once each in a dependency-respecting order', floor=6, oracle='property statement')
    fn = repo.func(LD + '.populate')
    mp = param_names(fn)[0]
    order = []
    for st in body_without_doc(fn):
        m = pm.match('self._M(%s)' % mp, st)
        if m:
            order.append(m['_M'])
        else:
            r.violation('populate() contains `%s`, which is not a pass over the given metamodel' % src(st)[:60], st, construct=LD + '.populate',
                        key='foreign-statement')
    want = {'populate_classes', 'populate_unique_identifiers', 'populate_associations', 'populate_instances', 'populate_connections'}
    r.check(sorted(order) == sorted(want), 'all five passes, each exactly once', fn, construct=LD + '.populate', key='once',
            msg='populate() runs %s' % order)
    if sorted(order) == sorted(want):
        idx = {n: i for i, n in enumerate(order)}
        for a, b in (('populate_classes', 'populate_unique_identifiers'), ('populate_classes', 'populate_associations'),
                     ('populate_classes', 'populate_instances'), ('populate_associations', 'populate_instances'),
                     ('populate_unique_identifiers', 'populate_instances'), ('populate_instances', 'populate_connections'),
                     ('populate_associations', 'populate_connections')):
            r.check(idx[a] < idx[b], '%s before %s' % (a, b), fn, construct=LD + '.populate', key='order %s %s' % (a, b),
                    msg='populate() runs %s after %s; %s depends on it' % (a, b, b))
    bm = repo.func(LD + '.build_metamodel')
    ok = pm.match(['_M = xtuml.MetaModel(id_generator)', 'self.populate(_M)', 'return _M'], body_without_doc(bm)) is not None
    r.check(ok, 'build_metamodel creates a fresh MetaModel, populates it once and returns it', bm, construct=LD + '.build_metamodel', key='build',
            msg='build_metamodel is not `m = MetaModel(id_generator); self.populate(m); return m`')


def _jumps(body):
    return bool(body) and isinstance(body[-1], (ast.Continue, ast.Break, ast.Return, ast.Raise))


def _guards(body, target):
    """the tests that decide whether `target` (a node inside the statement list `body`) is reached from the top of `body`"""
    out = []
    for st in body:
        inside = any(n is target for n in ast.walk(st))
        if inside:
            if isinstance(st, ast.If):
                if any(n is target for b in st.body for n in ast.walk(b)):
                    return out + [st.test] + _guards(st.body, target)
                if any(n is target for b in st.orelse for n in ast.walk(b)):
                    return out + [st.test] + _guards(st.orelse, target)
                return out + [st.test]
            if isinstance(st, (ast.For, ast.While)):
                return out + [st.iter if isinstance(st, ast.For) else st.test] + _guards(st.body, target)
            if isinstance(st, ast.Try):
                for blk in [st.body, st.orelse, st.finalbody] + [h.body for h in st.handlers]:
                    if any(n is target for b in blk for n in ast.walk(b)):
                        return out + _guards(blk, target)
            if isinstance(st, ast.With):
                return out + _guards(st.body, target)
            return out
        if isinstance(st, ast.If) and (_jumps(st.body) or _jumps(st.orelse)):
            out.append(st.test)
        elif isinstance(st, ast.Try) and any(_jumps(h.body) for h in st.handlers):
            out.append(st)
    return out


def _is_class_filter(test):
    t = test
    while isinstance(t, ast.UnaryOp) and isinstance(t.op, ast.Not):
        t = t.operand
    return isinstance(t, ast.Call) and dotted(t.func) == 'isinstance' and len(t.args) == 2


def partition(ctx):
    repo = ctx.repo
    r = ctx.rule('C03-PARTITION', 'each statement class is consumed by exactly one pass; every grammar statement builds one of them', floor=8,
                 oracle='sibling passes + grammar actions')
    stmt_classes = [c.name for c in repo.classes('xtuml.load') if any(dotted(b) == 'Stmt' for b in c.bases)]
    if len(stmt_classes) != 4:
        raise AnalysisError('expected four Stmt subclasses, found %s' % stmt_classes)
    consumed = {}
    for pname in ('populate_classes', 'populate_associations', 'populate_unique_identifiers', 'populate_instances'):
        fn = repo.func(LD + '.' + pname)
        loops = [n for n in walk_local(fn) if isinstance(n, ast.For) and pm.match('self.statements', n.iter) is not None]
        r.check(len(loops) == 1, '%s scans the whole statement list once' % pname, fn, construct=LD + '.' + pname, key='scan',
                msg='%s does not iterate self.statements exactly once' % pname)
        tests = [n for n in ast.walk(fn) if isinstance(n, ast.Call) and dotted(n.func) == 'isinstance' and len(n.args) == 2]
        kinds = set(src(t.args[1]) for t in tests)
        r.check(len(kinds) == 1 and list(kinds)[0] in stmt_classes, '%s filters on one statement class (%s)' % (pname, sorted(kinds)), fn,
                construct=LD + '.' + pname, key='filter', msg='%s filters statements by %s' % (pname, sorted(kinds)))
        for k in kinds:
            consumed.setdefault(k, []).append(pname)
        # no other filter on the statements
        for lp in loops:
            extra = [n for n in ast.walk(lp) if isinstance(n, (ast.Break,))]
            r.check(not extra, '%s does not stop early' % pname, lp, construct=LD + '.' + pname, key='break',
                    msg='%s breaks out of the statement scan' % pname)
    # the three definition passes hand EVERY statement of their class to the metamodel: the define_* call is guarded by the class
    # filter and by nothing else (a pass that drops some statements loses schema that the writer had emitted)
    for pname, api in (('populate_classes', 'define_class'), ('populate_associations', 'define_association'),
                       ('populate_unique_identifiers', 'define_unique_identifier')):
        fn = repo.func(LD + '.' + pname)
        for lp in [n for n in walk_local(fn) if isinstance(n, ast.For) and pm.match('self.statements', n.iter) is not None]:
            calls = [n for n in ast.walk(lp) if isinstance(n, ast.Call) and isinstance(n.func, ast.Attribute) and n.func.attr == api]
            r.check(len(calls) == 1, '%s calls %s once per statement' % (pname, api), lp, construct=LD + '.' + pname, key='define-call',
                    msg='%s calls %s %d times inside the statement scan' % (pname, api, len(calls)))
            for c_ in calls:
                extra = [g for g in _guards(lp.body, c_) if not _is_class_filter(g)]
                r.check(not extra, '%s reaches %s for every statement of its class' % (pname, api), c_, construct=LD + '.' + pname, key='unguarded ' + api,
                        msg='%s calls %s only under %s: statements of its class for which this does not hold are dropped silently, '
                            'the loaded schema is not the one that was written' % (pname, api, [src(g) for g in extra]))
    for c in stmt_classes:
        r.check(len(consumed.get(c, [])) == 1, '%s is consumed by exactly one pass (%s)' % (c, consumed.get(c)), repo.cls('xtuml.load:' + c),
                construct='xtuml.load:' + c, key='consumed', msg='%s is consumed by %s' % (c, consumed.get(c)))
    g = lexrules.grammar_of(repo, LD)
    built = {}
    from .ctorflow import ctor_binding
    sigs = repo.signatures()
    for p in g.productions:
        if not any(isinstance(n, ast.Name) and n.id in stmt_classes for n in ast.walk(p.fn)):
            continue
        cname, binding = ctor_binding(p.fn, set(stmt_classes), sigs, arity={'p[6]': 4, 'p[8]': 4})
        if cname is not None:
            built.setdefault(cname, set()).add(p.head)
    alts = [p.syms[0] for p in g.productions if p.head == 'statement']
    heads = set(h for hs in built.values() for h in hs)
    r.check(set(alts) == heads and len(built) == 4, 'every alternative of `statement` builds one of the four statement classes', g.cls,
            construct=LD, key='grammar', msg='statement alternatives %s vs statement-building productions %s' % (sorted(alts), sorted(heads)))


def funnel(ctx):
    repo = ctx.repo
    r = ctx.rule('C03-FUNNEL', 'all input routes end in ModelLoader.input and store nothing else on the loader', floor=6,
                 oracle='call graph')
    cg = CallGraph(repo)
    target = LD + '.input'
    routes = [LD + '.filename_input', LD + '.file_input', 'bridgepoint.ooaofooa:ModelLoader.filename_input',
              'xtuml.load:load_metamodel', 'bridgepoint.ooaofooa:load_metamodel', 'bridgepoint.ooaofooa:_mk_loader',
              'bridgepoint.ooaofooa:ModelLoader.__init__']
    from .c12 import _self_stores
    for q in routes:
        if q not in cg.funcs:
            raise AnalysisError('input route %s not found' % q)
        path = cg.path(q, target)
        r.check(path is not None, '%s reaches ModelLoader.input (%s)' % (q, ' -> '.join(path or [])), cg.funcs[q], construct=q, key='reaches-input',
                msg='%s no longer reaches ModelLoader.input: its content bypasses the statement list' % q)
        if q.endswith('filename_input') or q.endswith('file_input'):
            st = _self_stores(cg.funcs[q])
            r.check(not st, '%s stores nothing on the loader itself' % q, cg.funcs[q], construct=q, key='no-store',
                    msg='%s stores on the loader: %s' % (q, [src(s[0]) for s in st][:2]))
    # every channel decodes the text the same way (keys with non-ASCII characters must compare equal whatever the channel)
    n_dec = 0
    for q in routes:
        for node in ast.walk(cg.funcs[q]):
            if not isinstance(node, ast.Call):
                continue
            d = dotted(node.func) or ''
            enc = None
            for k in node.keywords:
                if k.arg == 'encoding':
                    enc = k.value
            if d in ('open', 'io.open', 'codecs.open') and enc is None and len(node.args) >= 4:
                enc = node.args[3]
            if d.endswith('.decode') and node.args:
                enc = node.args[0]
            if d in ('open', 'io.open', 'codecs.open', 'io.TextIOWrapper', 'TextIOWrapper') or d.endswith('.decode'):
                n_dec += 1
                good = enc is None or (isinstance(enc, ast.Constant) and isinstance(enc.value, str) and
                                       enc.value.lower().replace('-', '').replace('_', '') == 'utf8')
                r.check(good, '%s: `%s` reads text as UTF-8 (explicitly or by default)' % (q, src(node)[:60]), node, construct=q, key='decoding',
                        msg='%s decodes its input with `%s`, the other input channels with UTF-8: rows whose string keys contain non-ASCII '
                            'characters no longer join when referring and referred rows arrive through different channels' % (q, src(enc) if enc is not None else ''))
    r.check(n_dec >= 2, '%d decoding sites on the input routes' % n_dec, cg.funcs[routes[0]], construct=routes[0], key='decoding-sites',
            msg='only %d text decoding sites found on the input routes' % n_dec)
    # directory / zip member / plain file all delegate per file
    fi = repo.nfunc('bridgepoint.ooaofooa:ModelLoader.filename_input')      # normal form: guards canonical
    calls = [src(n.func) for n in ast.walk(fi) if isinstance(n, ast.Call) and src(n.func).startswith('xtuml.ModelLoader.')]
    r.check(sorted(set(calls)) == ['xtuml.ModelLoader.file_input', 'xtuml.ModelLoader.filename_input'] and len(calls) >= 3,
            'directory members, zip members and plain files are each fed to the base loader', fi,
            construct='bridgepoint.ooaofooa:ModelLoader.filename_input', key='three-routes',
            msg='bridgepoint filename_input delegates through %s' % calls)
    walks = [n for n in ast.walk(fi) if isinstance(n, ast.For) and isinstance(n.iter, ast.Call) and dotted(n.iter.func) == 'os.walk']
    listdirs = [n for n in ast.walk(fi) if isinstance(n, ast.For) and 'os.listdir' in src(n.iter)]
    if walks:
        w = walks[0]
        ok = src(w.iter) == 'os.walk(path_or_filename)' and isinstance(w.target, ast.Tuple) and len(w.target.elts) == 3
        dirv = src(w.target.elts[0]) if ok else '?'
        ok = ok and any(isinstance(c, ast.Call) and dotted(c.func) == 'os.path.join' and src(c.args[0]) == dirv for c in ast.walk(w))
        r.check(ok, 'a directory input is walked recursively and every member is opened by its joined path', w,
                construct='bridgepoint.ooaofooa:ModelLoader.filename_input', key='walk',
                msg='the directory route does not os.walk(path_or_filename) and open os.path.join(<walked dir>, name)')
    elif listdirs:
        for lp_ in listdirs:
            nv = lp_.target.id if isinstance(lp_.target, ast.Name) else None
            for c in ast.walk(lp_):
                if isinstance(c, ast.Call) and dotted(c.func) in ('os.path.isdir', 'os.path.isfile', 'os.path.exists', 'open', 'zipfile.is_zipfile') \
                        and c.args and isinstance(c.args[0], ast.Name) and c.args[0].id == nv:
                    r.violation('the directory route tests `%s` on the bare entry name returned by os.listdir, not on its path joined with the '
                                'directory: sub directories are never recognised, so files below the top level are silently dropped'
                                % src(c), c, construct='bridgepoint.ooaofooa:ModelLoader.filename_input', key='bare-listdir-name')
    else:
        raise AnalysisError('%s: directory traversal of filename_input not recognised' % loc(fi))
    # in normal form a member filter is the guard `if not <member>.endswith('.xtuml'): continue` in the member loop
    for what, is_member in (('directory members', lambda x: isinstance(x, ast.Name)),
                            ('zip members', lambda x: isinstance(x, ast.Attribute) and x.attr == 'filename')):
        found = False
        other_filters = []
        for lp_ in [n for n in ast.walk(fi) if isinstance(n, ast.For)]:
            for n in lp_.body:
                if isinstance(n, ast.If) and len(n.body) == 1 and isinstance(n.body[0], ast.Continue):
                    m = pm.match("not _M.endswith('.xtuml')", n.test)
                    if m and is_member(m['_M']) and any(isinstance(x, ast.Name) and x.id in [t.id for t in ast.walk(lp_.target) if isinstance(t, ast.Name)]
                                                        for x in ast.walk(m['_M'])):
                        found = True
        r.check(found, '%s are selected by the .xtuml suffix only' % what, fi,
                construct='bridgepoint.ooaofooa:ModelLoader.filename_input', key='suffix ' + what,
                msg='%s are no longer selected by `<member>.endswith(\'.xtuml\')`' % what)


def keys(ctx, am):
    repo = ctx.repo
    r = ctx.rule('C03-KEYS', 'hash join: same key name space, same null rule, index referred / probe referring over the same link', floor=12,
                 oracle='sibling agreement compute_lookup_key <-> compute_index_key; association role model')
    lk = repo.func('xtuml.meta:Link.compute_lookup_key')
    ik = repo.func('xtuml.meta:Link.compute_index_key')

    def analyse(fn):
        inst = param_names(fn)[0]
        loops = [n for n in walk_local(fn) if isinstance(n, ast.For)]
        if len(loops) != 1:
            raise AnalysisError('%s: key loop not found' % loc(fn))
        lp = loops[0]
        info = {'iter': src(lp.iter), 'inst': inst}
        if isinstance(lp.target, ast.Tuple):
            info['read'], info['name'] = [e.id for e in lp.target.elts]
        else:
            info['read'] = info['name'] = lp.target.id
        info['null'] = any(isinstance(n, ast.If) and src(n.test) == '_is_null(%s, %s)' % (inst, info['read']) and
                           len(n.body) == 1 and isinstance(n.body[0], ast.Return) and src(n.body[0]) == 'return None'
                           for n in lp.body)
        stores = [n for n in ast.walk(lp) if isinstance(n, ast.Assign) and isinstance(n.targets[0], ast.Subscript)]
        info['stores'] = sorted(set((src(s.targets[0].slice), src(s.value)) for s in stores))
        rets = [n for n in fn.body if isinstance(n, ast.Return)]
        info['ret'] = src(rets[-1].value) if rets else None
        return info, lp

    a, la = analyse(lk)
    b, lb = analyse(ik)
    r.check(a['iter'] == 'self.key_map.items()' and b['iter'] == 'self.key_map.values()',
            'lookup key walks key_map items (own attribute -> partner attribute), index key walks key_map values (partner attributes)', lk,
            construct='xtuml.meta:Link.compute_lookup_key', key='iter', msg='key loops range over %s / %s' % (a['iter'], b['iter']))
    r.check(a['null'] and b['null'], 'both return None as soon as one component is null (same _is_null rule)', lk,
            construct='xtuml.meta:Link', key='null-rule', msg='compute_lookup_key / compute_index_key do not both `return None` on _is_null(instance, attribute)')
    ok_a = all(k == a['name'] and v in ('%s.__dict__[%s]' % (a['inst'], a['read']), 'getattr(%s, %s)' % (a['inst'], a['read'])) for k, v in a['stores'])
    ok_b = all(k == b['name'] and v in ('%s.__dict__[%s]' % (b['inst'], b['read']), 'getattr(%s, %s)' % (b['inst'], b['read'])) for k, v in b['stores'])
    r.check(ok_a and a['stores'], 'lookup key: {partner attribute name: value of the own referential attribute}', lk,
            construct='xtuml.meta:Link.compute_lookup_key', key='lookup-components', msg='compute_lookup_key stores %s' % a['stores'])
    r.check(ok_b and b['stores'], 'index key: {attribute name: value of that attribute}', ik, construct='xtuml.meta:Link.compute_index_key',
            key='index-components', msg='compute_index_key stores %s' % b['stores'])
    r.check(a['ret'] == b['ret'] == 'frozenset(tuple(kwargs.items()))', 'both keys have the same container shape', lk, construct='xtuml.meta:Link',
            key='shape', msg='key shapes differ: %s vs %s' % (a['ret'], b['ret']))
    # populate_connections
    # populate_connections, read in normal form (aliases and temporaries folded, guards canonical)
    pc = repo.nfunc(LD + '.populate_connections')
    Q = LD + '.populate_connections'
    outer = [n for n in pc.body if isinstance(n, ast.For) and src(n.iter) == 'metamodel.associations']
    if len(outer) != 1 or not isinstance(outer[0].target, ast.Name):
        raise AnalysisError('%s: association loop not found' % loc(pc))
    A = outer[0].target.id
    idx_calls = [n for n in ast.walk(pc) if isinstance(n, ast.Call) and call_attr(n) == 'compute_index_key']
    lk_calls = [n for n in ast.walk(pc) if isinstance(n, ast.Call) and call_attr(n) == 'compute_lookup_key']
    if len(idx_calls) != 1 or len(lk_calls) != 1:
        raise AnalysisError('%s: expected one compute_index_key and one compute_lookup_key call, found %d / %d' % (loc(pc), len(idx_calls), len(lk_calls)))

    def link_field(call):
        m = pm.match('%s._F._M(_I)' % A, call)
        return m['_F'] if m else None
    fi, fl = link_field(idx_calls[0]), link_field(lk_calls[0])
    if fi is None or fl is None:
        raise AnalysisError('%s: key computations are not made on a link of the association loop variable' % loc(pc))
    r.check(fi == fl, 'index and probe use the same directed link (%s)' % fi, pc, construct=Q, key='same-link',
            msg='populate_connections indexes with %s but probes with %s' % (fi, fl))

    def enclosing_for(call):
        cur = call
        while cur is not None and not (isinstance(cur, ast.For) and isinstance(cur.target, ast.Name) and call.args and
                                       cur.target.id == src(call.args[0])):
            cur = getattr(cur, '_parent', None)
        return cur

    def loop_class(call):
        lp = enclosing_for(call)
        if lp is None:
            return None
        m = pm.match('%s._F.to_metaclass.storage' % A, lp.iter)
        return am.links[m['_F']]['to'] if m and m['_F'] in am.links else None
    field = fi
    km = am.key_maps.get(field)
    keys_owner = {'source_keys': 'SRC', 'target_keys': 'TGT'}
    want_probe, want_index = keys_owner[km[0]], keys_owner[km[1]]
    r.check(loop_class(lk_calls[0]) == want_probe, 'probing instances are those holding %s (%s class)' % (km[0], want_probe), lk_calls[0],
            construct=Q, key='probe-class', msg='populate_connections probes with instances of the %s class, but %s.key_map is keyed by %s'
            % (loop_class(lk_calls[0]), field, km[0]))
    r.check(loop_class(idx_calls[0]) == want_index, 'indexed instances are those holding %s (%s class)' % (km[1], want_index), idx_calls[0],
            construct=Q, key='index-class', msg='populate_connections indexes instances of the %s class, but %s.key_map values are %s'
            % (loop_class(idx_calls[0]), field, km[1]))
    # the key variables
    def key_var(call):
        st = call
        while st is not None and not isinstance(st, ast.stmt):
            st = getattr(st, '_parent', None)
        if isinstance(st, ast.Assign) and len(st.targets) == 1 and isinstance(st.targets[0], ast.Name) and st.value is call:
            return st.targets[0].id
        return None
    ki, kl = key_var(idx_calls[0]), key_var(lk_calls[0])
    if ki is None or kl is None:
        raise AnalysisError('%s: the computed keys are not bound to a variable' % loc(pc))
    probe_loop, index_loop = enclosing_for(lk_calls[0]), enclosing_for(idx_calls[0])
    if probe_loop is None or index_loop is None:
        raise AnalysisError('%s: instance loops around the key computations not found' % loc(pc))
    # every element of the bucket is connected in both directions
    connect_loops = [n for n in ast.walk(probe_loop) if isinstance(n, ast.For) and n is not probe_loop and
                     any(isinstance(c, ast.Call) and call_attr(c) == 'connect' for c in ast.walk(n))]
    ok = len(connect_loops) == 1 and isinstance(connect_loops[0].iter, ast.Subscript) and src(connect_loops[0].iter.slice) == kl and \
        sum(1 for c in ast.walk(connect_loops[0]) if isinstance(c, ast.Call) and call_attr(c) == 'connect') == 2 and \
        not any(isinstance(x, (ast.If, ast.Break, ast.Continue, ast.Return)) for x in ast.walk(connect_loops[0]))
    r.check(ok, 'every instance of the matching bucket is connected in both directions', pc, construct=Q, key='bucket',
            msg='populate_connections does not connect every element of the bucket <index>[%s] on both links' % kl)
    bucket_index = src(connect_loops[0].iter.value) if ok else None
    # skip conditions: a null key (both loops) and an absent bucket (probe loop); nothing else
    def skips_of(loop):
        out = []
        for n in ast.walk(loop):
            if isinstance(n, ast.If) and n.body and isinstance(n.body[-1], ast.Continue) and len(n.body) == 1:
                vals = n.test.values if isinstance(n.test, ast.BoolOp) and isinstance(n.test.op, ast.Or) else [n.test]
                out.extend(src(v) for v in vals)
        return sorted(out)
    s_index = skips_of(index_loop)
    s_probe = [x for x in skips_of(probe_loop)]
    want_index_skips = ['%s is None' % ki]
    want_probe_skips = sorted(['%s is None' % kl, '%s not in %s' % (kl, bucket_index)])
    r.check(s_index == want_index_skips and s_probe == want_probe_skips,
            'the only skip conditions are a null key and an absent bucket', pc, construct=Q, key='skips',
            msg='populate_connections skips indexed instances on %s and probing instances on %s; expected %s and %s'
                % (s_index, s_probe, want_index_skips, want_probe_skips))
    # other conditional execution around the connect loop would drop links as well
    cur = connect_loops[0]._parent if ok else None
    extra = []
    while cur is not None and cur is not probe_loop:
        if isinstance(cur, ast.If):
            extra.append(src(cur.test))
        cur = getattr(cur, '_parent', None)
    r.check(not extra, 'the connect loop runs for every probing instance that passed the skip conditions', pc, construct=Q, key='extra-guard',
            msg='the connect loop of populate_connections is additionally guarded by %s' % extra)
    ok = pm.contains('frozenset(%s.%s.key_map.values())' % (A, field), pc)
    r.check(ok, 'a shared index is keyed by the set of indexed attribute names', pc, construct=Q, key='index-key',
            msg='the per-class index is no longer keyed by frozenset(%s.%s.key_map.values())' % (A, field))
    # _is_null table
    from .. import absint
    import itertools
    fn = repo.func('xtuml.meta:_is_null')
    ip, np_ = param_names(fn, skip_self=False)[:2]

    def tycmp(e, s, tr):
        lit = e['_L']
        if isinstance(lit, ast.Constant) and isinstance(lit.value, str):
            return s['ty'].upper() == lit.value
        return None

    def namecmp(e, s, tr):
        '''attribute name vs requested name: equal ignoring case is the loop element's flag; a comparison that does not normalise
        both sides additionally needs the two spellings to be identical'''
        sides = [e['_A'], e['_B']]
        def has(x, nm):
            return any(isinstance(n, ast.Name) and n.id == nm for n in ast.walk(x))
        a_side = [x for x in sides if has(x, 'attr_name')]
        n_side = [x for x in sides if has(x, np_)]
        if len(a_side) != 1 or len(n_side) != 1 or a_side[0] is n_side[0]:
            return None
        def norm(x, nm):
            return isinstance(x, ast.Call) and isinstance(x.func, ast.Attribute) and x.func.attr in ('upper', 'lower', 'casefold') and \
                isinstance(x.func.value, ast.Name) and x.func.value.id == nm and not x.args
        def raw(x, nm):
            return isinstance(x, ast.Name) and x.id == nm
        an = True if norm(a_side[0], 'attr_name') else (False if raw(a_side[0], 'attr_name') else None)
        nn = True if (norm(n_side[0], np_) or (raw(n_side[0], np_) and s.get('name_norm'))) else (False if raw(n_side[0], np_) else None)
        if an is None or nn is None:
            return None
        match = s['env']['attr_name'][0]
        return match if (an and nn) else (match and s['same_spelling'])

    def name_norm(e, s, tr):
        s['name_norm'] = True
        return True
    atoms = [('%s in %s.__dict__' % (np_, ip), lambda e, s, tr: True),
             ('value', lambda e, s, tr: s['value'] == 'truthy'),
             ('value is None', lambda e, s, tr: s['value'] == 'none'),
             ('attr_ty == _L', tycmp),
             ('_A != _B', lambda e, s, tr: (None if namecmp(e, s, tr) is None else not namecmp(e, s, tr))),
             ('_A == _B', namecmp)]
    effects = [('value = _V', lambda e, s, tr: True), ('%s = %s.upper()' % (np_, np_), name_norm), ('%s = %s.lower()' % (np_, np_), name_norm),
               ('metaclass = get_metaclass(%s)' % ip, lambda e, s, tr: True), ('attr_ty = attr_ty.upper()', lambda e, s, tr: True)]
    iters = [('metaclass.attributes', lambda e, s, tr: [(False, 'x'), (True, 'y')])]
    it = absint.Interp(fn, atoms, effects, iters=iters)
    # bind tuple target (attr_name, attr_ty): element is a tuple (match?, _)
    orig_bind = it.bind

    def bind(target, element, state):
        env = state.setdefault('env', {})
        env['attr_name'] = element
        env['attr_ty'] = element
    it.bind = bind
    for value, ty, same in itertools.product(['none', 'truthy', 'falsy'], ['UNIQUE_ID', 'unique_id', 'STRING', 'INTEGER', 'BOOLEAN', 'REAL'], [True, False]):
        state = {'value': value, 'ty': ty, 'same_spelling': same}
        out, tr = it.run(state)
        got = src(out.value) if out.kind == 'return' and out.value is not None else None
        if got in (None, 'None') and out.kind in ('return', 'falloff'):
            got = 'False'       # the callers only test the truth of the result
        if value == 'truthy':
            want = 'False'
        elif value == 'none':
            want = 'True'
        elif ty.upper() == 'UNIQUE_ID':
            want = 'value == 0'
        elif ty.upper() == 'STRING':
            want = 'len(value) == 0'
        else:
            want = 'False'
        r.check(got == want, '_is_null(value %s, type %s%s) -> %s' % (value, ty, '' if same else ', attribute named in another letter case', want), fn,
                construct='xtuml.meta:_is_null', key='null %s %s' % (value, ty.upper()),
                msg='_is_null for a %s value of type %s%s yields `%s`; expected `%s` (0 id and empty string are null, other falsy values are not)'
                    % (value, ty, '' if same else ' whose attribute is named in another letter case than declared', got, want))


def new_rule(ctx, am):
    repo = ctx.repo
    r = ctx.rule('C03-NEW', 'API creation with referential values resolves links exactly as the loader does', floor=5,
                 oracle='_find_link semantics (C02-SWAP): a link taken from <metaclass>.links leads from an instance of that metaclass')
    fn = repo.nfunc('xtuml.meta:MetaClass.new')      # normal form: temporaries folded, guards canonical
    Q = 'xtuml.meta:MetaClass.new'
    inst = None
    for st in body_without_doc(fn):
        m = pm.match('_I = self.clazz()', st)
        if m:
            inst = m['_I'].id
    loops = [n for n in walk_local(fn) if isinstance(n, ast.For) and src(n.iter) == 'self.links.values()']
    if len(loops) != 1 or inst is None or not isinstance(loops[0].target, ast.Name):
        raise AnalysisError('%s: batch relate loop of MetaClass.new not found' % loc(fn))
    lp = loops[0]
    lv = lp.target.id
    # the query: {partner attribute: supplied referential value} over the link's key map
    qvar = ra = None
    for n in ast.walk(lp):
        if isinstance(n, ast.Assign) and len(n.targets) == 1 and isinstance(n.targets[0], ast.Name):
            m = pm.match('{_K: _RA[_V] for _K, _V in %s.key_map.items()}' % lv, n.value)
            if m and isinstance(m['_RA'], ast.Name):
                qvar, ra = n.targets[0].id, m['_RA'].id
    r.check(qvar is not None, 'the partner is looked up by {partner attribute: supplied referential value}', lp, construct=Q, key='query-keys',
            msg='MetaClass.new does not build the partner query as kwargs[key] = referential_attributes[value] over link.key_map.items()')
    if qvar is None:
        raise AnalysisError('%s: query of the batch relate not found' % loc(lp))
    skip_tests = []
    for n in lp.body:
        if isinstance(n, ast.If) and len(n.body) == 1 and isinstance(n.body[0], ast.Continue):
            vals = n.test.values if isinstance(n.test, ast.BoolOp) and isinstance(n.test.op, ast.Or) else [n.test]
            skip_tests.extend((v, n) for v in vals)
    from .. import normal

    def resolved(e):
        '''test with once-assigned pure locals replaced by their values (a loop-invariant sub-expression may be hoisted)'''
        single = {}
        for n in ast.walk(fn):
            if isinstance(n, ast.Assign) and len(n.targets) == 1 and isinstance(n.targets[0], ast.Name) and normal.is_pure(n.value):
                single.setdefault(n.targets[0].id, []).append(n.value)
        stores = {}
        for n in ast.walk(fn):
            if isinstance(n, ast.Name) and isinstance(n.ctx, ast.Store):
                stores[n.id] = stores.get(n.id, 0) + 1
        mapping = {k: v[0] for k, v in single.items() if len(v) == 1 and stores.get(k) == 1 and k not in (qvar, ra)}
        if not mapping:
            return e
        return normal._Expr().visit(normal._Subst(mapping).visit(normal.clone(e)))
    skip_tests = [(resolved(t), n) for t, n in skip_tests]
    covered = 'set(%s.key_map.values()) - set(%s)' % (lv, ra)
    covered_alts = {covered, 'not set(%s.key_map.values()) <= set(%s)' % (lv, ra), 'not set(%s) >= set(%s.key_map.values())' % (ra, lv),
                    'set(%s.key_map.values()).difference(%s)' % (lv, ra), 'set(%s.key_map.values()).difference(set(%s))' % (lv, ra)}
    allowed_skips = covered_alts | {'not %s' % qvar}
    ok = any(src(t) in covered_alts for t, _ in skip_tests)
    for t, s_ in skip_tests:
        r.check(src(t) in allowed_skips, 'batch relate skip `%s` is one of the two structural ones' % src(t), s_, construct=Q,
                key='extra-skip ' + src(t),
                msg='MetaClass.new skips the batch relate under `%s`: links are determined by the keys alone (a supplied referential value such as 0 '
                    'or False is a value, not an absent key), so this loses links that loading the same rows creates' % src(t))
    r.check(ok, 'a link is used only when all of its referential attributes were supplied', lp, construct=Q, key='covered',
            msg='MetaClass.new no longer skips links whose key_map values are not all among the supplied referential attributes')
    # nothing else makes the batch relate conditional
    others = [src(n.test) for n in lp.body if isinstance(n, ast.If) and not (len(n.body) == 1 and isinstance(n.body[0], ast.Continue))]
    r.check(not others, 'the batch relate of a covered link is unconditional', lp, construct=Q, key='extra-guard',
            msg='MetaClass.new makes the batch relate depend on %s' % others)
    calls = [n for n in ast.walk(lp) if isinstance(n, ast.Call) and dotted(n.func) == 'relate']
    qloops = [n for n in ast.walk(lp) if isinstance(n, ast.For) and src(n.iter) == '%s.to_metaclass.query(%s)' % (lv, qvar)]
    r.check(len(qloops) == 1, 'partners are the instances of the link\'s to-class matching the query', lp, construct=Q, key='query',
            msg='MetaClass.new does not query %s.to_metaclass with the built key' % lv)
    if len(calls) != 1 or not qloops:
        raise AnalysisError('%s: relate call of the batch relate not found' % loc(lp))
    other = qloops[0].target.id
    args = [src(a) for a in calls[0].args]
    want = [inst, other, '%s.rel_id' % lv, '%s.phrase' % lv]
    r.check(args == want, 'relate(%s): the link comes from self.links, so the new instance is the from-side' % ', '.join(want), calls[0],
            construct=Q, key='relate-direction relate(%s)' % ', '.join(args),
            msg='MetaClass.new calls relate(%s); `%s` is taken from self.links, i.e. it leads FROM the new instance TO the partner with '
                'phrase %s.phrase, so _find_link resolves the intended link only for relate(%s). With phrases (reflexive / multiple '
                'formalisations) the opposite direction is linked: the partner receives the referential value instead of the new instance'
                % (', '.join(args), lv, lv, ', '.join(want)))
    # clone: all attributes in declared order
    cl = repo.func('xtuml.meta:MetaClass.clone')
    ok = any(isinstance(n, ast.For) and src(n.iter) == 'get_metaclass(instance).attributes' for n in ast.walk(cl)) and \
        pm.contains('return self.new(*args)', cl)
    r.check(ok, 'clone passes every attribute value positionally in declared order', cl, construct='xtuml.meta:MetaClass.clone', key='clone',
            msg='MetaClass.clone no longer collects all attribute values of the source instance in declared order')
    mc = repo.func('xtuml.meta:MetaModel.clone')
    r.check(pm.contains('_M = self.find_metaclass(_K.kind)', mc) and pm.contains('return _M.clone(instance)', mc),
            'MetaModel.clone resolves the class by kind in the receiving metamodel', mc, construct='xtuml.meta:MetaModel.clone', key='mm-clone',
            msg='MetaModel.clone does not clone into the equally named class of this metamodel')
