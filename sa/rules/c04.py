'''
C04 - Interpreted OAL computes what the action language defines.

  C04-HANDLERS  every Node class the grammar can construct for the constructs of C04 has an evaluator
  C04-OPS       operator tables: keys cover the grammar's operators, each lambda is the Python operation of its lexeme
                applied to (left, right) in that order; operands are evaluated from node.left / node.right
  C04-CONTROL   loop-control and return/stop exceptions are raised, caught and mapped exactly where they belong;
                abstract tables of if / elif-list / elif
  C04-SCOPE     where-clause closures bind `selected` in a fresh block; block/body handlers pair enter/leave
  C04-SELECT    select handlers choose the many / one form by the case-normalised cardinality
  C04-SLOTS     slot table of the statement evaluators (operand roles of relate/unrelate, assignment, create, delete,
                for-each, literals, field access)
'''
import ast
import itertools

from ..src import AnalysisError, loc, src, norm, dotted, call_attr, param_names, body_without_doc, walk_local
from .. import pm, absint, cfg as cfgmod
from .common import exception_class_name, is_case_normalised
from . import nodes, lexrules

AW = 'bridgepoint.interpret:ActionWalker'

# Node classes outside the construct list of C04 (one reason each, taken from the property statement, which lists:
# literals, operators, variables, assignment, if/elif/else, while, for each, break, continue, return, control stop,
# create/delete, attribute access, relate/unrelate, selects, cardinality/empty/not_empty)
OUTSIDE_C04 = {
    'GenerateClassEventNode': 'event generation is not in C04\'s construct list',
    'GenerateCreatorEventNode': 'event generation is not in C04\'s construct list',
    'GenerateInstanceEventNode': 'event generation is not in C04\'s construct list',
    'GeneratePreexistingNode': 'event generation is not in C04\'s construct list',
    'GeneratePortEventNode': 'port signals are not in C04\'s construct list',
    'CreateClassEventNode': 'event creation is not in C04\'s construct list',
    'CreateCreatorEventNode': 'event creation is not in C04\'s construct list',
    'CreateInstanceEventNode': 'event creation is not in C04\'s construct list',
    'EventSpecNode': 'part of event statements',
    'EventDataListNode': 'part of event statements',
    'EventDataItemNode': 'part of event statements',
    'PortInvocationNode': 'port messages are not in C04\'s construct list',
}
CONSUMED_BY_PARENT = {
    'ParameterNode': ('ParameterListNode', 'the list handler reads child.name / child.expression directly'),
}
PER_WALKER = {
    'ParamAccessNode': ['FunctionWalker', 'OperationWalker'],
    'SelfAccessNode': ['OperationWalker', 'DerivedAttributeWalker'],
}

BIN_SPEC = {
    '+': ('BinOp', 'Add'), '-': ('BinOp', 'Sub'), '*': ('BinOp', 'Mult'), '/': ('BinOp', 'Div'), '%': ('BinOp', 'Mod'),
    '<': ('Compare', 'Lt'), '<=': ('Compare', 'LtE'), '>': ('Compare', 'Gt'), '>=': ('Compare', 'GtE'),
    '!=': ('Compare', 'NotEq'), '==': ('Compare', 'Eq'), 'or': ('BoolOp', 'Or'), 'and': ('BoolOp', 'And'),
}
TOKEN_LEXEME = {'PLUS': '+', 'MINUS': '-', 'TIMES': '*', 'DIV': '/', 'MOD': '%', 'LESSTHAN': '<', 'LE': '<=', 'GT': '>',
                'GE': '>=', 'NOTEQUAL': '!=', 'DOUBLEEQUAL': '==', 'OR': 'or', 'AND': 'and',
                'PIPE': '|', 'AMP': '&', 'CARET': '^', 'NOT': 'not', 'EMPTY': 'empty', 'NOT_EMPTY': 'not_empty',
                'CARDINALITY': 'cardinality'}
SET_OPERATORS = {'|', '&', '^'}      # set algebra: outside C04's list (arithmetic, comparison, boolean)


def run(ctx):
    ctx.guard(handlers, ctx)
    ctx.guard(ops, ctx)
    ctx.guard(control, ctx)
    ctx.guard(scope, ctx)
    ctx.guard(select, ctx)
    ctx.guard(slots, ctx)
    # mechanisms the interpreter's results rest on, decided by rule groups defined with other properties
    from . import c02 as _c02, c07 as _c07, c08 as _c08, c09 as _c09, lexrules as _lex
    _g = _lex.grammar_of(ctx.repo, 'bridgepoint.oal:OALParser')
    ctx.shared(_c07.lists, ctx, _g)            # statement / elif / parameter lists are built in source order
    ctx.shared(_c07.optional, ctx, _g)         # the short and the long spelling of a statement build the same tree (where clauses, assign ...)
    ctx.shared(_c08.taint, ctx, _g, _c08.keyword_fields(ctx, _g))   # keyword-carrying fields (cardinality ...) are read case-normalised
    ctx.shared(_c09.nav, ctx)                  # navigation behind select ... related by
    ctx.shared(_c02.linkops, ctx)              # relate / unrelate
    ctx.shared(_c02.delete_rule, ctx)          # delete object instance
    from . import linkedset as _ls
    ctx.shared(_ls.check, ctx, 'C04-SETS')     # instance sets behind select many / for each / cardinality
    ctx.assume('xtuml.relate/unrelate/delete/select/navigate behave as C02/C09 decide')
    ctx.assume('whole-program semantic equivalence with a relational reference evaluator is a runtime quantity and is not decided')
    return ('Exhaustiveness of evaluators against the Node classes the grammar can construct; operator tables compared '
            'with the grammar\'s operator tokens and with the Python operation each lexeme denotes; exception pairing of '
            'break/continue/return/stop over all handlers; abstract tables of if/elif evaluation; ordering rules for '
            'where-clause scoping; slot table of statement evaluators.')


def handlers(ctx):
    repo = ctx.repo
    r = ctx.rule('C04-HANDLERS', 'every constructible Node class of C04\'s constructs has an evaluator', floor=55,
                 oracle='grammar actions (constructible classes) vs accept_* methods')
    f = nodes.facts(repo)
    if len(f.constructible) < 55:
        raise AnalysisError('only %d constructible Node classes derived from the grammar' % len(f.constructible))
    aw = nodes.handlers_of(repo, AW)
    for cls in sorted(f.constructible):
        where = f.constructible[cls][0].fn
        if cls in aw:
            r.ok('%s -> ActionWalker.accept_%s' % (cls, cls), aw[cls], construct=cls)
            continue
        if cls in OUTSIDE_C04:
            r.info('%s has no evaluator: %s' % (cls, OUTSIDE_C04[cls]), where)
            r.ok('%s: outside C04 (%s)' % (cls, OUTSIDE_C04[cls]), where, construct=cls)
            continue
        if cls in CONSUMED_BY_PARENT:
            parent, why = CONSUMED_BY_PARENT[cls]
            pf = aw.get(parent)
            fields = set(n.attr for n in ast.walk(pf) if isinstance(n, ast.Attribute) and isinstance(n.value, ast.Name)
                         and n.value.id == 'child') if pf is not None else set()
            r.check(pf is not None and {'name', 'expression'} <= fields and not any(
                isinstance(c, ast.Call) and call_attr(c) == 'accept' and c.args and src(c.args[0]) == 'child'
                for c in ast.walk(pf)), '%s is consumed by accept_%s (%s)' % (cls, parent, why), pf or where,
                construct=AW + '.accept_' + parent, key='consumed ' + cls,
                msg='%s has no evaluator and accept_%s no longer reads its fields directly' % (cls, parent))
            continue
        if cls in PER_WALKER:
            for w in PER_WALKER[cls]:
                hw = nodes.handlers_of(repo, 'bridgepoint.interpret:' + w)
                r.check(cls in hw, '%s -> %s.accept_%s' % (cls, w, cls), repo.cls('bridgepoint.interpret:' + w),
                        construct='bridgepoint.interpret:' + w, key='missing ' + cls,
                        msg='%s does not define accept_%s: the node evaluates to nothing in this kind of action' % (w, cls))
            continue
        r.violation('the grammar can construct %s (e.g. %s) but the interpreter has no accept_%s: the statement is '
                    'silently skipped ("unsupported statement")' % (cls, where.name, cls), where, construct=AW, key='missing ' + cls)
    # each run_* entry point uses a concrete walker
    for fn_name, walker in (('run_function', 'FunctionWalker'), ('run_operation', 'OperationWalker'),
                            ('run_derived_attribute', 'DerivedAttributeWalker')):
        fn = repo.func('bridgepoint.interpret:' + fn_name)
        r.check(any(isinstance(n, ast.Call) and dotted(n.func) == walker for n in ast.walk(fn)),
                '%s evaluates with a %s' % (fn_name, walker), fn, construct='bridgepoint.interpret:' + fn_name, key='walker',
                msg='%s no longer constructs a %s' % (fn_name, walker))


def _dict_of(fn, name):
    for n in ast.walk(fn):
        if isinstance(n, ast.Assign) and isinstance(n.targets[0], ast.Name) and n.targets[0].id == name \
                and isinstance(n.value, ast.Dict):
            return n.value
    return None


def resolve_locals_(fn, e):
    from .common import resolve_locals
    return resolve_locals(fn, e, pure_only=False)


def ops(ctx):
    repo = ctx.repo
    r = ctx.rule('C04-OPS', 'operator tables agree with the grammar\'s operators and with Python\'s operations', floor=25,
                 oracle='property statement (arithmetic, comparison, boolean; unary not - + cardinality empty not_empty)')
    g = lexrules.grammar_of(repo, 'bridgepoint.oal:OALParser')
    # binary
    fn = repo.func(AW + '.accept_BinaryOperationNode')
    Q = AW + '.accept_BinaryOperationNode'
    d = _dict_of(fn, 'ops')
    if d is None:
        raise AnalysisError('%s: operator table `ops` not found' % loc(fn))
    table = {}
    for k, v in zip(d.keys, d.values):
        if not (isinstance(k, ast.Constant) and isinstance(k.value, str)):
            raise AnalysisError('%s: non-literal key in ops' % loc(d))
        table[k.value] = v
    grammar_ops = set()
    for p in g.productions:
        if p.head == 'expression' and len(p.syms) == 3 and p.syms[0] == p.syms[2] == 'expression':
            grammar_ops.add(TOKEN_LEXEME.get(p.syms[1], '?' + p.syms[1]))
    for lex in sorted(grammar_ops):
        if lex in SET_OPERATORS:
            r.info('binary operator %s (set algebra) is outside C04\'s list; not in the table' % lex, fn)
            continue
        r.check(lex in table, 'binary operator %s of the grammar has a table entry' % lex, fn, construct=Q, key='missing-op ' + lex,
                msg='binary operator %s of the grammar has no entry in the interpreter\'s operator table (KeyError at run time)' % lex)
    for key, lam in sorted(table.items()):
        r.check(key == key.lower(), 'table key %r is lower case (lookup key is lower-cased)' % key, lam, construct=Q, key='key-case ' + key,
                msg='table key %r is not lower case but the lookup key is' % key)
        if key not in BIN_SPEC:
            r.info('table entry %r is outside C04\'s list' % key, lam)
            continue
        kind, op = BIN_SPEC[key]
        ok = False
        OPERATOR_FN = {'add': 'Add', 'sub': 'Sub', 'mul': 'Mult', 'truediv': 'Div', 'mod': 'Mod', 'lt': 'Lt', 'le': 'LtE', 'gt': 'Gt', 'ge': 'GtE',
                       'ne': 'NotEq', 'eq': 'Eq'}
        if isinstance(lam, ast.Attribute) and isinstance(lam.value, ast.Name) and lam.value.id == 'operator' and \
                'operator' not in {n.id for n in ast.walk(fn) if isinstance(n, ast.Name) and isinstance(n.ctx, ast.Store)}:
            # operator.add(a, b) is a + b: the stdlib function of the operation, operands in call order
            ok = kind in ('BinOp', 'Compare') and OPERATOR_FN.get(lam.attr) == op
        if isinstance(lam, ast.Lambda) and len(lam.args.args) == 2:
            a, b = [x.arg for x in lam.args.args]
            body = lam.body
            if kind == 'BinOp' and isinstance(body, ast.BinOp):
                ok = type(body.op).__name__ == op and src(body.left) == a and src(body.right) == b
            elif kind == 'Compare' and isinstance(body, ast.Compare) and len(body.ops) == 1:
                ok = type(body.ops[0]).__name__ == op and src(body.left) == a and src(body.comparators[0]) == b
            elif kind == 'BoolOp' and isinstance(body, ast.BoolOp) and len(body.values) == 2:
                ok = type(body.op).__name__ == op and src(body.values[0]) == a and src(body.values[1]) == b
        r.check(ok, "ops[%r] is `left %s right`" % (key, key), lam, construct=Q, key='op-body ' + key,
                msg="ops[%r] is `%s`; the operator %s must compute `<left> %s <right>` with the operands in source order"
                    % (key, src(lam), key, key))
    # operand provenance and lookup
    # value flow on the normal form: the table is indexed by the lower-cased operator and applied to (left value, right value)
    nf_ = repo.nfunc(Q)
    ok = False
    for c_ in ast.walk(nf_):
        if isinstance(c_, ast.Call) and isinstance(c_.func, ast.Subscript) and len(c_.args) == 2 and not c_.keywords:
            tbl_ = resolve_locals_(nf_, c_.func.value)
            key_ = resolve_locals_(nf_, c_.func.slice)
            a0_, a1_ = resolve_locals_(nf_, c_.args[0]), resolve_locals_(nf_, c_.args[1])
            if isinstance(tbl_, ast.Dict) and pm.match('node.operator.lower()', key_) is not None and \
                    pm.match('self.accept(node.left).fget()', a0_) is not None and pm.match('self.accept(node.right).fget()', a1_) is not None:
                ok = True
    r.check(bool(ok), 'the operation is looked up by the lower-cased operator and applied to (value of node.left, value of node.right)',
            fn, construct=Q, key='apply', msg='accept_BinaryOperationNode does not apply ops[<operator.lower()>](<left value>, <right value>)')
    # unary
    fn = repo.func(AW + '.accept_UnaryOperationNode')
    Q = AW + '.accept_UnaryOperationNode'
    d = _dict_of(fn, 'ops')
    if d is None:
        raise AnalysisError('%s: operator table `ops` not found' % loc(fn))
    utable = {k.value: v for k, v in zip(d.keys, d.values) if isinstance(k, ast.Constant)}
    un_lex = set()
    for p in g.productions:
        if p.head == 'unary_operator' and len(p.syms) == 1:
            un_lex.add(TOKEN_LEXEME.get(p.syms[0], '?' + p.syms[0]))
    for lex in sorted(un_lex):
        r.check(lex in utable, 'unary operator %s of the grammar has a table entry' % lex, fn, construct=Q, key='missing-unop ' + lex,
                msg='unary operator %s of the grammar has no entry in the interpreter\'s table' % lex)
    uspec = {'-': 'USub', '+': 'UAdd', 'not': 'Not'}
    for key, lam in sorted(utable.items()):
        if not (isinstance(lam, ast.Lambda) and len(lam.args.args) == 1):
            r.violation('unary ops[%r] is not a one-argument lambda' % key, lam, construct=Q, key='unop-shape ' + key)
            continue
        a = lam.args.args[0].arg
        body = lam.body
        if key in uspec:
            ok = isinstance(body, ast.UnaryOp) and type(body.op).__name__ == uspec[key] and src(body.operand) == a
        elif key == 'cardinality':
            ok = pm.match('xtuml.cardinality(%s)' % a, body) is not None or pm.match('len(%s)' % a, body) is not None
        elif key == 'empty':
            ok = pm.match('not %s' % a, body) is not None
        elif key == 'not_empty':
            ok = pm.match('not not %s' % a, body) is not None or pm.match('bool(%s)' % a, body) is not None
        else:
            r.info('unary table entry %r is outside C04\'s list' % key, lam)
            continue
        r.check(ok, 'unary ops[%r] computes %s' % (key, key), lam, construct=Q, key='unop-body ' + key,
                msg='unary ops[%r] is `%s`, which is not the %s operation' % (key, src(lam), key))
    ok = pm.contains('self.accept(node.operand).fget()', fn) and any(
        pm.match('_V = node.operator.lower()', st) is not None for st in body_without_doc(fn))
    r.check(ok, 'the unary operation is looked up by the lower-cased operator and applied to the operand value', fn, construct=Q,
            key='apply', msg='accept_UnaryOperationNode does not evaluate node.operand and look up node.operator.lower()')
    # xtuml.cardinality table: None/empty -> 0, instance -> 1, set -> len
    cf = repo.func('xtuml.meta:cardinality')
    p0 = param_names(cf, skip_self=False)[0]
    it = absint.Interp(cf, [(p0, lambda e, s, tr: s['kind'] in ('instance', 'set')),
                            ('not %s' % p0, lambda e, s, tr: s['kind'] in ('none', 'emptyset')),
                            ('isinstance(%s, Class)' % p0, lambda e, s, tr: s['kind'] == 'instance')])
    for kind, want in (('none', '0'), ('emptyset', '0'), ('instance', '1'), ('set', 'len(%s)' % p0)):
        out, tr = it.run({'kind': kind})
        got = src(out.value) if out.kind == 'return' and out.value is not None else None
        r.check(got == want, 'cardinality(%s) = %s' % (kind, want), cf, construct='xtuml.meta:cardinality', key='cardinality ' + kind,
                msg='xtuml.cardinality of %s returns %s, expected %s' % (kind, got, want))


def _raises_in(repo, modname):
    out = {}
    mod = repo.module(modname)
    for c in repo.classes(modname):
        for m in c.body:
            if isinstance(m, ast.FunctionDef):
                for n in ast.walk(m):
                    if isinstance(n, ast.Raise):
                        out.setdefault(exception_class_name(n), []).append(('%s:%s.%s' % (modname, c.name, m.name), n))
    return out


def control(ctx):
    repo = ctx.repo
    r = ctx.rule('C04-CONTROL', 'break/continue/return/stop exceptions are raised and caught exactly where they belong; '
                                'if/elif tables', floor=20, oracle='property statement')
    raises = _raises_in(repo, 'bridgepoint.interpret')
    want_raise = {'BreakException': 'accept_BreakNode', 'ContinueException': 'accept_ContinueNode',
                  'ReturnException': 'accept_ReturnNode', 'StopException': 'accept_ControlNode'}
    for exc, handler in want_raise.items():
        sites = raises.get(exc, [])
        good = [q for q, n in sites if q == AW + '.' + handler]
        r.check(len(good) >= 1 and len(good) == len(sites), '%s is raised only by %s' % (exc, handler),
                sites[0][1] if sites else repo.cls(AW), construct=AW + '.' + handler, key='raise ' + exc,
                msg='%s is raised by %s; it must be raised by %s and nowhere else' % (exc, [q for q, _ in sites] or 'nobody', handler))
        fn = repo.func(AW + '.' + handler)
        c = cfgmod.build(fn)
        paths = c.paths(follow_exc=False)
        r.check(paths and all(p[-1][0].kind == 'raise' for p in paths), '%s raises on every path' % handler, fn,
                construct=AW + '.' + handler, key='always-raises',
                msg='%s can return without raising %s: the statement would have no effect' % (handler, exc))
    # the four control exceptions are told apart by their class in `except` clauses: none may be a kind of another
    bases = repo.exception_bases()

    def ancestors(n):
        seen, todo = set(), list(bases.get(n, ()))
        while todo:
            b = todo.pop()
            if b not in seen:
                seen.add(b)
                todo += list(bases.get(b, ()))
        return seen
    for exc in sorted(want_raise):
        related = sorted(a for a in ancestors(exc) if a in want_raise)
        r.check(not related, '%s is not a kind of another control exception' % exc, repo.cls('bridgepoint.interpret:' + exc),
                construct='bridgepoint.interpret:' + exc, key='hierarchy ' + exc,
                msg='%s derives from %s: every `except %s` clause (the loop evaluators, the body evaluator) also catches %s, so the '
                    'statement that raises it behaves like the other one' % (exc, related, related[0] if related else '', exc))
    # catch sites
    catches = {}
    for c in repo.classes('bridgepoint.interpret'):
        for m in c.body:
            if not isinstance(m, ast.FunctionDef):
                continue
            for n in ast.walk(m):
                if isinstance(n, ast.ExceptHandler):
                    names = []
                    if n.type is None:
                        names = ['<bare>']
                    elif isinstance(n.type, ast.Tuple):
                        names = [dotted(e) for e in n.type.elts]
                    else:
                        names = [dotted(n.type)]
                    for nm in names:
                        catches.setdefault((nm or '').split('.')[-1], []).append(('%s.%s' % (c.name, m.name), n, m))
    common = set()
    for exc in want_raise:
        common |= set(a for a in ancestors(exc) if a not in want_raise)
    for broad in ['<bare>', 'Exception', 'BaseException'] + sorted(common - {'Exception', 'BaseException', 'object'}):
        for q, n, m in catches.get(broad, []):
            r.violation('%s catches %s: loop-control / return exceptions would be swallowed' % (q, broad), n,
                        construct='bridgepoint.interpret:' + q, key='broad-except')
    for exc in ('ReturnException', 'StopException'):
        sites = catches.get(exc, [])
        r.check(sites and all(q == 'ActionWalker.accept_BodyNode' for q, _, _ in sites), '%s is caught only by accept_BodyNode' % exc,
                sites[0][1] if sites else repo.cls(AW), construct=AW + '.accept_BodyNode', key='catch ' + exc,
                msg='%s is caught by %s; only the body evaluator may end the action' % (exc, [q for q, _, _ in sites] or 'nobody'))
    # loops: abstract execution of the two loop evaluators over all outcomes of two iterations of the body (normal / continue /
    # break): a continue goes on with the next iteration, a break ends the loop, nothing escapes the evaluator
    import itertools as _it
    n_loops = 0
    for name in ('WhileNode', 'ForEachNode'):
        fn = repo.func(AW + '.accept_' + name)
        Q = AW + '.accept_' + name
        n_loops += 1

        def body(e, s, tr):
            k = s['n']
            s['n'] = k + 1
            tr.append(('body', k))
            o = s['outcomes'][k] if k < len(s['outcomes']) else 'ok'
            if o == 'break':
                raise absint.Raised('BreakException')
            if o == 'continue':
                raise absint.Raised('ContinueException')
            return True
        it_ = absint.Interp(fn, [('self.accept(node.expression).fget()', lambda e, s, tr: s['n'] < 2)],
                            [('self.accept(node.block)', body), ('self.symtab.install_symbol(_N, _V)', lambda e, s, tr: True)],
                            iters=[('self.symtab.find_symbol(node.set_variable_name)',
                                    lambda e, s, tr: [absint.Sym(ast.Name(id='E1', ctx=ast.Load())), absint.Sym(ast.Name(id='E2', ctx=ast.Load()))])])
        it_.pure_calls = {'find_symbol'}
        for outcomes in _it.product(['ok', 'continue', 'break'], repeat=2):
            out_, tr_ = it_.run({'n': 0, 'outcomes': list(outcomes)})
            bodies = [t[1] for t in tr_ if isinstance(t, tuple) and t[0] == 'body']
            want = [0] if outcomes[0] == 'break' else [0, 1]
            r.check(out_.kind != 'raise' and bodies == want, '%s: body outcomes %s -> iterations %s' % (name, list(outcomes), want), fn, construct=Q,
                    key='loop-mapping %s' % (outcomes,),
                    msg='%s with body outcomes %s runs the iterations %s and ends with %r; expected %s and a normal end (ContinueException -> next '
                        'iteration, BreakException -> leave the loop)' % (Q, list(outcomes), bodies, out_, want))
    # while re-evaluates its condition, for-each rebinds the loop variable
    wf = repo.func(AW + '.accept_WhileNode')
    r.check(any(isinstance(n, ast.While) and pm.match('self.accept(node.expression).fget()', n.test) is not None for n in ast.walk(wf)),
            'while evaluates its condition before every iteration', wf, construct=AW + '.accept_WhileNode', key='while-cond',
            msg='accept_WhileNode does not loop on `self.accept(node.expression).fget()`')
    ff = repo.func(AW + '.accept_ForEachNode')
    ok = False
    for lp in [n for n in ast.walk(ff) if isinstance(n, ast.For)]:
        lv = lp.target.id if isinstance(lp.target, ast.Name) else None
        setv = src(lp.iter)
        if lv and any(pm.match('self.symtab.install_symbol(node.instance_variable_name, %s)' % lv, st) is not None for st in lp.body) \
                and any(pm.match('%s = self.symtab.find_symbol(node.set_variable_name)' % setv, st) is not None for st in ff.body):
            ok = True
    r.check(ok, 'for each binds the instance variable to every element of the set variable', ff, construct=AW + '.accept_ForEachNode',
            key='foreach', msg='accept_ForEachNode does not iterate the set variable binding node.instance_variable_name')
    # accept_BodyNode: leave_scope on every normal path after enter_scope
    bf = repo.func(AW + '.accept_BodyNode')
    c = cfgmod.build(bf)
    paths = [p for p in c.paths() if p[-1][0].kind == 'exit']
    ok = bool(paths)
    for p in paths:
        seq = [('enter' if pm.match('self.symtab.enter_scope()', n.ast) is not None else
                'leave' if pm.match('self.symtab.leave_scope()', n.ast) is not None else None)
               for n, _ in p if n.kind == 'stmt']
        seq = [s for s in seq if s]
        ok = ok and seq == ['enter', 'leave']
    r.check(ok, 'the body evaluator enters one scope and leaves it on every exit (%d paths)' % len(paths), bf,
            construct=AW + '.accept_BodyNode', key='scope-pairing',
            msg='accept_BodyNode does not pair enter_scope/leave_scope on every path (return/stop included)')
    # ActionWalker.accept only translates MetaException
    af = repo.func(AW + '.accept')
    hs = [n for n in ast.walk(af) if isinstance(n, ast.ExceptHandler)]
    ok = all(h.type is not None and (dotted(h.type) or '').split('.')[-1] == 'MetaException' for h in hs)
    r.check(ok, 'the dispatching accept() intercepts MetaException only', af, construct=AW + '.accept', key='accept-except',
            msg='ActionWalker.accept intercepts exceptions other than MetaException')
    # if / elif tables
    f = repo.func(AW + '.accept_IfNode')
    it = absint.Interp(f, [('self.accept(node.expression).fget()', lambda e, s, tr: s['c']),
                           ('self.accept(node.elif_list)', lambda e, s, tr: (tr.append('elifs'), s['e'])[1])],
                       [('self.accept(node.block)', lambda e, s, tr: tr.append('block')),
                        ('self.accept(node.else_clause)', lambda e, s, tr: tr.append('else'))])
    for cnd, e in itertools.product([True, False], repeat=2):
        out, tr = it.run({'c': cnd, 'e': e})
        want = ['block'] if cnd else (['elifs'] if e else ['elifs', 'else'])
        r.check(tr == want, 'if(cond=%d, some elif taken=%d) evaluates %s' % (cnd, e, want), f, construct=AW + '.accept_IfNode',
                key='if %d %d' % (cnd, e), msg='accept_IfNode with condition=%s, elif taken=%s evaluates %s; expected %s' % (cnd, e, tr, want))
    f = repo.func(AW + '.accept_ElIfListNode')
    it = absint.Interp(f, [('self.accept(child)', lambda e, s, tr: (tr.append(s['env']['child']), s['r'][s['env']['child']])[1])],
                       iters=[('node.children', lambda e, s, tr: [0, 1])])
    for r1, r2 in itertools.product([True, False], repeat=2):
        out, tr = it.run({'r': [r1, r2]})
        want = [0] if r1 else [0, 1]
        res = bool(out.kind == 'return' and isinstance(out.value, ast.Constant) and out.value.value)
        r.check(tr == want and res == (r1 or r2), 'elif list (%d,%d): first taken clause wins' % (r1, r2), f,
                construct=AW + '.accept_ElIfListNode', key='eliflist %d %d' % (r1, r2),
                msg='accept_ElIfListNode with clause results (%s,%s) evaluates clauses %s and reports %s' % (r1, r2, tr, res))
    f = repo.func(AW + '.accept_ElIfNode')
    it = absint.Interp(f, [('self.accept(node.expression).fget()', lambda e, s, tr: s['c'])],
                       [('self.accept(node.block)', lambda e, s, tr: tr.append('block'))])
    for cnd in (True, False):
        out, tr = it.run({'c': cnd})
        res = bool(out.kind == 'return' and isinstance(out.value, ast.Constant) and out.value.value)
        r.check(tr == (['block'] if cnd else []) and res == cnd, 'elif(cond=%d)' % cnd, f, construct=AW + '.accept_ElIfNode',
                key='elif %d' % cnd, msg='accept_ElIfNode with condition=%s evaluates %s and reports %s' % (cnd, tr, res))


def scope(ctx):
    repo = ctx.repo
    r = ctx.rule('C04-SCOPE', 'where clauses evaluate with `selected` bound in a fresh block; blocks are paired', floor=3,
                 oracle='property statement')
    for h in ('accept_SelectFromWhereNode', 'accept_SelectRelatedWhereNode'):
        fn = repo.func(AW + '.' + h)
        inner = [n for n in fn.body if isinstance(n, ast.FunctionDef)]
        if len(inner) != 1:
            raise AnalysisError('%s: where closure not found in %s' % (loc(fn), h))
        w = inner[0]
        p = param_names(w, skip_self=False)[0]
        want = ['self.symtab.enter_block()', "self.symtab.install_symbol('selected', %s)" % p,
                '_V = self.accept(node.where_clause)', 'self.symtab.leave_block()', 'return _V.fget()']
        ok = pm.match_canon(want, body_without_doc(w)) is not None
        r.check(ok, '%s: enter_block, bind selected, evaluate, leave_block, return value' % h, w, construct=AW + '.' + h + '.where',
                key='where-order', msg='%s: the where closure is not exactly enter_block / install selected / evaluate / leave_block / '
                                       'return value' % h)
        # the closure is what is passed as filter
        r.check(any(isinstance(c, ast.Call) and any(isinstance(a, ast.Name) and a.id == w.name for a in c.args) for c in ast.walk(fn)),
                '%s passes the closure as the query filter' % h, fn, construct=AW + '.' + h, key='where-passed',
                msg='%s does not pass its where closure to the query' % h)
    bf = repo.func(AW + '.accept_BlockNode')
    want = ['self.symtab.enter_block()', 'self.accept(node.statement_list)', 'self.symtab.leave_block()']
    r.check(pm.match_canon(want, body_without_doc(bf)) is not None, 'a block evaluates its statements between enter_block and leave_block',
            bf, construct=AW + '.accept_BlockNode', key='block-pairing', msg='accept_BlockNode is not enter_block / statements / leave_block')
    sf = repo.func(AW + '.accept_StatementListNode')
    ok = any(isinstance(n, ast.For) and pm.match('node.children', n.iter) is not None and
             pm.match(['self.accept(%s)' % n.target.id], n.body) is not None for n in ast.walk(sf))
    r.check(ok, 'statements are evaluated in order', sf, construct=AW + '.accept_StatementListNode', key='stmt-order',
            msg='accept_StatementListNode does not evaluate node.children in order')
    # symbol table: a variable lives in the block that first assigns it, and is visible in inner blocks
    ins = repo.func('bridgepoint.interpret:SymbolTable.install_symbol')
    NAME, HANDLE = param_names(ins)[:2]

    def blocks(e, s, tr):
        return ['outer', 'inner']

    def has(e, s, tr):
        b = e['_B']
        if isinstance(b, ast.Name) and s.get('env', {}).get(b.id) in ('outer', 'inner'):
            return s['where'] == s['env'][b.id]
        return None

    def store(e, s, tr):
        b = e['_B']
        if isinstance(b, ast.Name) and s.get('env', {}).get(b.id) in ('outer', 'inner'):
            tr.append(('store', s['env'][b.id]))
            return True
        if pm.match('self.scope_head[-1]', b) is not None:
            tr.append(('store', 'inner'))
            return True
        if pm.match('self.scope_head[0]', b) is not None:
            tr.append(('store', 'outer'))
            return True
        return False

    def rebind_last(e, s, tr):
        if pm.match('self.scope_head[-1]', e['_V']) is not None:
            s.setdefault('env', {})[e['_N'].id] = 'inner'
            return True
        return False
    def get_test(positive):
        def f(e, s, tr):
            h = has(e, s, tr)
            if h is None:
                return None
            val = h and not s.get('none_valued', False)      # .get(name) of a declared variable that holds no value is None
            return val if positive else not val
        return f
    it = absint.Interp(ins, [('%s in _B' % NAME, has), ('%s not in _B' % NAME, lambda e, s, tr: (None if has(e, s, tr) is None else not has(e, s, tr))),
                             ('_B.get(%s) is not None' % NAME, get_test(True)), ('_B.get(%s) is None' % NAME, get_test(False)),
                             ('_B.get(%s)' % NAME, get_test(True)), ('_B.get(%s, None) is not None' % NAME, get_test(True)),
                             ('_B.get(%s, None) is None' % NAME, get_test(False)), ('_B.get(%s, None)' % NAME, get_test(True)),
                             ('_B[%s] is not None' % NAME, get_test(True)), ('_B[%s]' % NAME, get_test(True))],
                       [('_B[%s] = %s' % (NAME, HANDLE), store), ('_N = _V', rebind_last)],
                       iters=[('self.scope_head', blocks)])
    for where, none_valued in (('outer', False), ('inner', False), (None, False), ('outer', True)):
        out, tr = it.run({'where': where, 'none_valued': none_valued})
        stores = [t[1] for t in tr if t[0] == 'store']
        want = [where or 'inner']
        r.check(stores == want, 'install_symbol(variable %s) binds it in the %s block' % (
            ('declared in the %s block' % where + (' and holding an empty value' if none_valued else '')) if where else 'not declared yet', want[0]), ins,
            construct='bridgepoint.interpret:SymbolTable.install_symbol', key='install %s %s' % (where, none_valued),
            msg='install_symbol for a variable %s writes to %s; it must rebind an existing variable in its own block, else declare it in '
                'the innermost block' % ('declared in the %s block' % where if where else 'not declared yet', stores))


def select(ctx):
    repo = ctx.repo
    r = ctx.rule('C04-SELECT', 'select evaluators choose the set form for `many` and the single form otherwise', floor=4,
                 oracle='property statement + C08')
    table = {'accept_SelectFromNode': ('select_many', ('select_any', 'select_one')),
             'accept_SelectFromWhereNode': ('select_many', ('select_any', 'select_one')),
             'accept_SelectRelatedNode': ('navigate_many', ('navigate_one', 'navigate_any')),
             'accept_SelectRelatedWhereNode': ('navigate_many', ('navigate_one', 'navigate_any'))}
    for h, (many, single) in table.items():
        fn = repo.func(AW + '.' + h)
        ok = False
        for n in walk_local(fn):
            if not isinstance(n, ast.If):
                continue
            t = n.test
            is_many = pm.match('node.many', t) is not None or (
                isinstance(t, ast.Compare) and is_case_normalised(t.left) and src(t.left.func.value) == 'node.cardinality'
                and isinstance(t.comparators[0], ast.Constant) and
                getattr(t.comparators[0].value, t.left.func.attr)() == t.comparators[0].value and
                t.comparators[0].value.lower() == 'many' and isinstance(t.ops[0], ast.Eq))
            if not is_many:
                continue
            b1 = set(call_attr(c) for st in n.body for c in ast.walk(st) if isinstance(c, ast.Call))
            b2 = set(call_attr(c) for st in n.orelse for c in ast.walk(st) if isinstance(c, ast.Call))
            ok = many in b1 and any(s in b2 for s in single) and many not in b2
        r.check(ok, '%s: many -> %s, otherwise %s' % (h, many, '/'.join(single)), fn, construct=AW + '.' + h, key='select-branches',
                msg='%s does not choose %s for `many` and %s otherwise on the case-normalised cardinality' % (h, many, '/'.join(single)))


SLOTS = [
    ('accept_AssignmentNode', ['_V = self.accept(node.expression).fget()', '_T = self.accept(node.variable_access)', '_T.fset(_V)'],
     'assignment stores the value of the right-hand side into the left-hand side'),
    ('accept_RelateNode', ['_A = self.symtab.find_symbol(node.from_variable_name)', '_B = self.symtab.find_symbol(node.to_variable_name)',
                           "xtuml.relate(_A, _B, node.rel_id, node.phrase.replace(\"'\", ''))"],
     'relate <from> to <to> across R.phrase'),
    ('accept_UnrelateNode', ['_A = self.symtab.find_symbol(node.from_variable_name)', '_B = self.symtab.find_symbol(node.to_variable_name)',
                             "xtuml.unrelate(_A, _B, node.rel_id, node.phrase.replace(\"'\", ''))"],
     'unrelate <from> from <to> across R.phrase'),
    ('accept_RelateUsingNode', ['_A = self.symtab.find_symbol(node.from_variable_name)', '_B = self.symtab.find_symbol(node.to_variable_name)',
                                '_U = self.symtab.find_symbol(node.using_variable_name)',
                                "xtuml.relate(_A, _U, node.rel_id, node.phrase.replace(\"'\", ''))",
                                "xtuml.relate(_U, _B, node.rel_id, node.phrase.replace(\"'\", ''))"],
     'relate ... using: link instance related to both ends, from-side first'),
    ('accept_UnrelateUsingNode', ['_A = self.symtab.find_symbol(node.from_variable_name)', '_B = self.symtab.find_symbol(node.to_variable_name)',
                                  '_U = self.symtab.find_symbol(node.using_variable_name)',
                                  "xtuml.unrelate(_A, _U, node.rel_id, node.phrase.replace(\"'\", ''))",
                                  "xtuml.unrelate(_U, _B, node.rel_id, node.phrase.replace(\"'\", ''))"],
     'unrelate ... using'),
    ('accept_CreateObjectNode', ['_I = self.domain.new(node.key_letter)', 'self.symtab.install_symbol(node.variable_name, _I)'],
     'create object instance v of K'),
    ('accept_CreateObjectNoVariableNode', ['self.domain.new(node.key_letter)'], 'create object instance of K'),
    ('accept_DeleteNode', ['_I = self.symtab.find_symbol(node.variable_name)', 'xtuml.delete(_I)'], 'delete object instance v'),
    ('accept_IntegerNode', ['_V = int(node.value)', 'return property(lambda: _V)'], 'integer literal'),
    ('accept_RealNode', ['_V = float(node.value)', 'return property(lambda: _V)'], 'real literal'),
    ('accept_StringNode', ['_V = node.value[1:-1]', 'return property(lambda: _V)'], 'string literal without its quotes'),
    ('accept_BooleanNode', ["_V = node.value.upper() == 'TRUE'", 'return property(lambda: _V)'], 'boolean literal'),
    ('accept_FieldAccessNode', ['_H = self.accept(node.handle).fget()',
                                'return property(fget=lambda: getattr(_H, node.name), fset=lambda value: setattr(_H, node.name, value))'],
     'attribute read/write on the evaluated handle'),
    ('accept_SelectedAccessNode', ["_S = self.symtab.find_symbol('selected')", 'return property(lambda: _S)'], 'selected'),
    ('accept_NavigationStepNode', ["return lambda chain: chain.nav(node.key_letter, node.rel_id, node.phrase.replace(\"'\", ''))"],
     'navigation step ->K[R.phrase]'),
]


# equivalent spellings of one slot sequence (the two case foldings agree on the only literal that matters)
SLOT_ALTERNATIVES = {
    'accept_BooleanNode': [["_V = node.value.lower() == 'true'", 'return property(lambda: _V)']],
}


def slots(ctx):
    repo = ctx.repo
    r = ctx.rule('C04-SLOTS', 'operand roles of the statement evaluators (slot table)', floor=14,
                 oracle='grammar field names of the Node classes (from/to/using, variable/expression, key letter)')
    for h, pats, what in SLOTS:
        fn = repo.func(AW + '.' + h)
        alts = [pats] + SLOT_ALTERNATIVES.get(h, [])
        ok = any(pm.match_canon(a_, body_without_doc(fn)) is not None for a_ in alts)
        r.check(ok, '%s: %s' % (h, what), fn, construct=AW + '.' + h, key='slots',
                msg='%s no longer has the operand roles of `%s` (expected the statement sequence %s)' % (h, what, pats))
    # select variable is bound to the query result
    for h, pat in (('accept_SelectFromNode', 'self.symtab.install_symbol(node.variable_name, _H)'),
                   ('accept_SelectFromWhereNode', 'self.symtab.install_symbol(node.variable_name, _H)'),
                   ('accept_SelectRelatedNode', 'self.symtab.install_symbol(node.variable_name, _C())'),
                   ('accept_SelectRelatedWhereNode', 'self.symtab.install_symbol(node.variable_name, _C(where))')):
        fn = repo.func(AW + '.' + h)
        last = body_without_doc(fn)[-1]
        r.check(pm.match(pat, last) is not None, '%s binds node.variable_name to the result' % h, fn, construct=AW + '.' + h,
                key='bind-result', msg='%s does not end by binding node.variable_name to the query result' % h)
    for h in ('accept_SelectFromNode', 'accept_SelectFromWhereNode'):
        fn = repo.func(AW + '.' + h)
        calls = [c for c in ast.walk(fn) if isinstance(c, ast.Call) and call_attr(c) in ('select_many', 'select_any', 'select_one')]
        r.check(calls and all(c.args and src(c.args[0]) == 'node.key_letter' for c in calls), '%s queries class node.key_letter' % h, fn,
                construct=AW + '.' + h, key='select-class', msg='%s does not query the class named by node.key_letter' % h)
    for h in ('accept_SelectRelatedNode', 'accept_SelectRelatedWhereNode'):
        fn = repo.func(AW + '.' + h)
        ok = pm.contains('_H = self.accept(node.handle).fget()', fn) and any(
            isinstance(n, ast.For) and pm.match('self.accept(node.navigation_chain)', n.iter) is not None and
            pm.match(['_C = %s(_C)' % n.target.id], n.body) is not None for n in ast.walk(fn))
        r.check(ok, '%s starts at node.handle and applies the navigation steps in order' % h, fn, construct=AW + '.' + h,
                key='chain', msg='%s does not start from node.handle and fold the navigation chain in order' % h)
    nl = repo.func(AW + '.accept_NavigationListNode')
    ok = any(isinstance(n, ast.For) and pm.match('node.children', n.iter) is not None for n in ast.walk(nl))
    r.check(ok, 'navigation steps are produced in source order', nl, construct=AW + '.accept_NavigationListNode', key='nav-order',
            msg='accept_NavigationListNode does not iterate node.children in order')
