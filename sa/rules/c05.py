'''
C05 - Prebuild followed by text generation reproduces the program.

  C05-HANDLERS   prebuild has a handler for every constructible Node class; sourcegen has a generator for every kind
                 prebuild can create as statement / value subtype and for every kind it dispatches on
  C05-KINDS      navigation chains of sourcegen.py conform to the schema
  C05-CHAIN      succession associations are read in the direction in which they are written (R661, R816, R604)
  C05-ROLES      operand roles: grammar position -> Node field -> association number -> text position is the identity
  C05-LITERALS   inverse pairs of literal / operator / phrase / relationship-number encodings
  C05-SENTENTIAL every text a generator can emit derives from the grammar symbol of its construct
'''
import ast

from ..src import AnalysisError, loc, src, dotted, call_attr, param_names, body_without_doc, walk_local
from .. import pm
from ..kinds import chain_of, rel_of
from ..schema import schema as get_schema
from . import nodes, kindrules, chain, lexrules

PB = 'bridgepoint.prebuild'
AP = PB + ':ActionPrebuilder'
SG = 'bridgepoint.sourcegen'
TG = SG + ':ActionTextGenWalker'
SUCCESSIONS = (661, 816, 604)

PB_TABLED = {
    'EventSpecNode': 'consumed by the event handlers (e_gsme / e_csme read node.event_specification.* directly)',
}
SG_OUTSIDE = {
    'V_ALV': 'array length values are outside C05\'s supported statement set',
    'ACT_SR': 'the plain select-related subtype carries no text of its own (ACT_SEL generates it)',
}


def sg_accept_kinds(ki, func, arg, env, cls):
    return ki.expr_kinds(arg, env, cls)


def run(ctx):
    repo = ctx.repo
    ctx.guard(handlers, ctx)
    ki = kindrules.infer(repo, SG, sg_accept_kinds, None, True)
    ctx.guard(kindrules.kinds_rule, ctx, 'C05-KINDS', SG, 140, ki)
    ctx.guard(chain_rule, ctx)
    ctx.guard(roles, ctx)
    ctx.guard(literals, ctx)
    ctx.guard(emits, ctx)
    ctx.guard(names, ctx, ki)
    from . import c06 as _c06w
    ctx.shared(_c06w.walker_state, ctx)      # a construct's later parts (elif / else, parameters) are attached to ITS instance, also when constructs nest
    from . import sentential
    ctx.guard(sentential.rule, ctx)
    from . import scope as _scope
    ctx.guard(_scope.symbols_exact, ctx, 'C05-SYMBOLS')
    from . import c07 as _c07, lexrules as _lex
    _g = _lex.grammar_of(ctx.repo, 'bridgepoint.oal:OALParser')
    ctx.shared(_c07.lists, ctx, _g)            # list nodes keep the source order the generated text is compared against
    ctx.shared(_lex.lineno_rule, ctx, 'C05-LINENO', 'bridgepoint.oal:OALParser', floor=30)
    _r = ctx.rule('C05-GLOBAL', 'is_global: visible-everywhere elements are those outside every component, through all enclosing packages', floor=8,
                  oracle='R8000 / R8003 of ooaofooa')
    ctx.guard(_scope.globality, _r, ctx.repo)
    ctx.assume('name resolution (o_obj, s_sync, r_rel ... look-ups) succeeds: programs are well-formed and name-resolved')
    return ('Exhaustiveness of prebuild handlers against the grammar and of text generators against the kinds prebuild creates; '
            'schema type-check of every navigation in sourcegen.py; direction agreement of writer and reader on the three '
            'succession associations; role identity grammar position -> node field -> association -> emission order; '
            'inverse-pair table of the literal encodings.')


# ---------------------------------------------------------------------------
def handlers(ctx):
    repo = ctx.repo
    sc = get_schema(repo)
    r = ctx.rule('C05-HANDLERS', 'prebuild handles every constructible Node class; sourcegen generates every kind prebuild creates',
                 floor=90, oracle='grammar actions; schema subtype sets; new() calls of prebuild.py')
    f = nodes.facts(repo)
    ph = nodes.handlers_of(repo, AP)
    concrete = []
    fn = repo.func(PB + ':prebuild_action')
    for n in ast.walk(fn):
        if isinstance(n, ast.Assign) and isinstance(n.value, ast.Dict) and src(n.targets[0]) == 'walker_map':
            concrete = [v.id for v in n.value.values if isinstance(v, ast.Name)]
    if len(concrete) < 5:
        raise AnalysisError('prebuild_action.walker_map not understood')
    for c in sorted(f.constructible):
        where = f.constructible[c][0].fn
        if c in ph:
            r.ok('%s -> ActionPrebuilder.accept_%s' % (c, c), ph[c], construct='pb|' + c)
        elif c in PB_TABLED:
            r.ok('%s: %s' % (c, PB_TABLED[c]), where, construct='pb|' + c)
        elif c == 'ParamAccessNode':
            have = [w for w in concrete if 'ParamAccessNode' in nodes.handlers_of(repo, PB + ':' + w)]
            missing = sorted(set(concrete) - set(have))
            r.check(missing in ([], ['DerivedAttributePrebuilder']), 'param.<name> is handled by every prebuilder whose action has parameters',
                    where, construct=PB, key='param-access %s' % missing,
                    msg='ParamAccessNode is not handled by %s' % missing)
        else:
            r.violation('the grammar can construct %s (%s) but prebuild has no accept_%s: the construct is dropped from the model'
                        % (c, where.name, c), where, construct=AP, key='pb-missing ' + c)
    # kinds created by prebuild as R603 / R801 subtypes
    created = set()
    for cls in repo.classes(PB):
        for m in cls.body:
            if isinstance(m, ast.FunctionDef):
                for n in ast.walk(m):
                    if isinstance(n, ast.Call) and call_attr(n) == 'new' and n.args and isinstance(n.args[0], ast.Constant) \
                            and isinstance(n.args[0].value, str):
                        created.add(n.args[0].value)
    sub = set(sc.subkinds('ACT_SMT', 603)) | set(sc.subkinds('V_VAL', 801))
    th = nodes.handlers_of(repo, TG)
    for k in sorted(created & sub):
        if k in th:
            r.ok('%s -> sourcegen accept_%s' % (k, k), th[k], construct='sg|' + k)
        elif k in SG_OUTSIDE:
            r.info('%s has no generator: %s' % (k, SG_OUTSIDE[k]), repo.cls(TG))
            r.ok('%s: %s' % (k, SG_OUTSIDE[k]), repo.cls(TG), construct='sg|' + k)
        else:
            r.violation('prebuild creates %s (a statement/value subtype) but sourcegen has no accept_%s: the construct is missing '
                        'from the generated text' % (k, k), repo.cls(TG), construct=TG, key='sg-missing ' + k)
    # kinds sourcegen dispatches on through self.accept(<navigation>)
    ki = kindrules.infer(repo, SG, sg_accept_kinds, None, True)
    for cls, fn in ki._functions():
        if cls is None or cls.name != 'ActionTextGenWalker':
            continue
        env = ki.func_env(fn, cls)
        for n in ast.walk(fn):
            if isinstance(n, ast.Call) and src(n.func) == 'self.accept' and n.args:
                ks = ki.expr_kinds(n.args[0], env, cls)
                if not ks:
                    continue
                # a chain that passes through an instance-subsystem kind which prebuild never creates is unreachable
                ch = chain_of(n.args[0])
                via = [st.kind for st in ch[2]] if ch else []
                instance_kinds = lambda k: k.split('_')[0] in ('ACT', 'V', 'E')
                if any(instance_kinds(k) and k not in created for k in via):
                    r.info('%s: %s is unreachable for prebuilt models (prebuild never creates %s)'
                           % (fn.name, src(n.args[0])[:60], [k for k in via if instance_kinds(k) and k not in created]), n)
                    continue
                for k in ks:
                    if k in ('ACT_SMT', 'V_VAL'):
                        continue
                    if instance_kinds(k) and k not in created:
                        continue
                    if k in SG_OUTSIDE:
                        continue
                    r.check(k in th, '%s dispatches on %s, which has a generator' % (fn.name, k), n, construct=TG + '.' + fn.name,
                            key='dispatch-missing ' + k,
                            msg='%s calls self.accept(%s) yielding %s, but there is no accept_%s (default_accept prints the class name '
                                'instead of generating text)' % (fn.name, src(n.args[0])[:60], k, k))
    # entry points
    ent = repo.func(SG + ':gen_text_action')
    r.check(pm.contains('_W = ActionTextGenWalker(-1)', ent) and pm.contains('_W.accept(instance)', ent), 'gen_text_action walks the instance', ent,
            construct=SG + ':gen_text_action', key='entry', msg='gen_text_action no longer walks its argument with a fresh ActionTextGenWalker(-1)')
    for k in ('S_SYNC', 'S_BRG', 'O_TFR', 'O_DBATTR', 'SM_ACT', 'SPR_RO', 'SPR_RS', 'SPR_PO', 'SPR_PS'):
        r.check(k in th, 'action home %s has a generator' % k, repo.cls(TG), construct=TG, key='home ' + k,
                msg='sourcegen has no accept_%s' % k)


# ---------------------------------------------------------------------------
def chain_rule(ctx):
    repo = ctx.repo
    sc = get_schema(repo)
    r = ctx.rule('C05-CHAIN', 'succession associations are read in source order, consistently with how prebuild writes them', floor=12,
                 oracle='CHAIN-DIR (schema key names) + writer/reader agreement')
    tg = repo.cls(TG)
    readers = {}
    for name, fn in sorted(repo.methods(tg).items()):
        for rel in SUCCESSIONS:
            for u in chain.reader_sites(fn, rel):
                readers.setdefault(rel, []).append((name, u))
    ap = repo.cls(AP)
    for name, fn in sorted(repo.methods(ap).items()):
        for u in chain.reader_sites(fn, 604):
            readers.setdefault(604, []).append(('prebuild.' + name, u))
    for rel in SUCCESSIONS:
        if not readers.get(rel):
            raise AnalysisError('no reader of R%d found in sourcegen.py' % rel)
    # writer orientation per association (from prebuild)
    writer_referring = {}
    for name, fn in sorted(repo.methods(ap).items()):
        for w in chain.writer_sites(fn, SUCCESSIONS):
            if w.loop is None or w.prev_var is None:
                continue
            s = sc.succession(w.rel)
            referring_operand = w.a if w.phrase == s['from_phrase'] else w.b
            prev_is = 'earlier' if w.direction == 'forward' else 'later'
            cur_is = 'later' if w.direction == 'forward' else 'earlier'
            writer_referring.setdefault(w.rel, set()).add(prev_is if referring_operand == w.prev_var else cur_is)
    for rel in SUCCESSIONS:
        s = sc.succession(rel)
        wr = writer_referring.get(rel, set())
        r.check(len(wr) == 1, 'all writers of R%d agree on the referring element (%s)' % (rel, sorted(wr)), ap, construct=AP,
                key='writers-agree R%d' % rel, msg='prebuild writes R%d with different orientations at different sites: %s' % (rel, sorted(wr)))
        if len(wr) != 1:
            continue
        referring = list(wr)[0]
        # phrases as they actually work with this writer
        if referring == 'later':
            to_succ, to_pred = s['to_phrase'], s['from_phrase']
        else:
            to_succ, to_pred = s['from_phrase'], s['to_phrase']
        for name, u in readers[rel]:
            if u.role == 'unknown':
                r.info('%s: %s has no recognised role' % (name, src(u.node)), u.node)
                continue
            want = to_succ if u.role == 'advance' else to_pred
            r.check(u.phrase == want, '%s reads R%d (%s) with phrase %r, matching the writer' % (name, rel, u.role, u.phrase), u.node,
                    construct=TG + '.' + name, key='reader-vs-writer R%d %s' % (rel, u.role),
                    msg='%s: `%s` (%s) uses phrase %r, but prebuild links R%d so that the %s element refers to its neighbour; '
                        'the %s needs phrase %r -- the generated text lists the elements in the wrong order'
                        % (name, src(u.node), u.role, u.phrase, rel, referring, u.role, want))
        # and both agree with the schema's orientation oracle
        for name, u in readers[rel]:
            chain.check_reader(ctx, r, u, TG + '.' + name if not name.startswith('prebuild.') else AP + '.' + name[9:])


# ---------------------------------------------------------------------------
def _field_positions(f, cls):
    '''field -> grammar position, for the (longest) production constructing cls'''
    out = {}
    for (c, field), lst in f.field_pos.items():
        if c != cls:
            continue
        for p, pos, v in lst:
            if pos is not None:
                out.setdefault(field, set()).add((len(p.syms), pos))
    res = {}
    for field, s in out.items():
        res[field] = sorted(s)
    return res


def _emission_statements(g):
    '''the statements of a text generator with its once-assigned pure locals (navigations from inst, attribute reads) filled in
    where they are used: the generator only reads the model, so when such a value is computed does not matter'''
    from .. import normal
    from .common import resolve_locals
    out = []
    for st in body_without_doc(g):
        if isinstance(st, ast.Assign) and len(st.targets) == 1 and isinstance(st.targets[0], ast.Name) and normal.is_pure(st.value) and \
                sum(1 for n in ast.walk(g) if isinstance(n, ast.Name) and isinstance(n.ctx, ast.Store) and n.id == st.targets[0].id) == 1:
            continue
        if isinstance(st, ast.Expr):
            out.append(ast.copy_location(ast.Expr(value=resolve_locals(g, st.value)), st))
        else:
            out.append(st)
    return out


def roles(ctx):
    repo = ctx.repo
    sc = get_schema(repo)
    f = nodes.facts(repo)
    r = ctx.rule('C05-ROLES', 'operand roles survive grammar -> node field -> association -> generated text', floor=12,
                 oracle='composition of three artefacts must be the identity on the order of operands')
    ap = repo.cls(AP)
    th = nodes.handlers_of(repo, TG)
    for name, fn in sorted(repo.methods(ap).items()):
        if not name.startswith('accept_'):
            continue
        ncls = name[7:]
        if ncls not in f.constructible:
            continue
        # provenance: local var -> node field
        prov = {}
        for st in ast.walk(fn):
            if isinstance(st, ast.Assign) and len(st.targets) == 1 and isinstance(st.targets[0], ast.Name):
                fields = [n.attr for n in ast.walk(st.value) if isinstance(n, ast.Attribute) and isinstance(n.value, ast.Name)
                          and n.value.id == 'node']
                fields = [x for x in fields if x != 'position']
                if len(set(fields)) == 1 and isinstance(st.value, ast.Call):
                    prov[st.targets[0].id] = fields[0]
        # created subtype var(s)
        created = {}
        for st in ast.walk(fn):
            if isinstance(st, ast.Assign) and isinstance(st.value, ast.Call) and call_attr(st.value) == 'new' and st.value.args \
                    and isinstance(st.value.args[0], ast.Constant) and isinstance(st.targets[0], ast.Name):
                created[st.targets[0].id] = st.value.args[0].value
        # relate(created, operand, N)
        rel_field = {}
        for n in ast.walk(fn):
            if isinstance(n, ast.Call) and dotted(n.func) in ('relate', 'xtuml.relate') and len(n.args) >= 3:
                rr = rel_of(n.args[2])
                a, b = src(n.args[0]), src(n.args[1])
                for x, y in ((a, b), (b, a)):
                    if x in created and y in prov and rr:
                        rel_field.setdefault(created[x], {})[rr[0]] = prov[y]
        for kind, mapping in rel_field.items():
            if kind not in th or len(mapping) < 2:
                continue
            gen = th[kind]
            # emission order of association numbers in the generator (first occurrence, source order)
            inst = param_names(gen)[0]
            order = []
            varrel = {}
            events = []
            for n in ast.walk(gen):
                if isinstance(n, ast.Assign) and isinstance(n.targets[0], ast.Name):
                    ch = chain_of(n.value)
                    if ch and src(ch[1]) == inst:
                        varrel[n.targets[0].id] = ch[2][0].rel
            for n in ast.walk(gen):
                if isinstance(n, ast.Call) and src(n.func) in ('self.accept', 'self.buf', 'self.buf_linebreak'):
                    for a in n.args:
                        for x in ast.walk(a):
                            ch = chain_of(x) if isinstance(x, ast.Call) else None
                            if ch and src(ch[1]) == inst:
                                events.append((n.lineno, n.col_offset, ch[2][0].rel))
                            if isinstance(x, ast.Name) and x.id in varrel:
                                events.append((n.lineno, n.col_offset, varrel[x.id]))
            for _, _, rel in sorted(events):
                if rel not in order:
                    order.append(rel)
            pos = _field_positions(f, ncls)
            emitted = [rel for rel in order if rel in mapping and mapping[rel] in pos]
            if len(emitted) < 2:
                continue
            # compare with grammar positions (use the longest production)
            def gpos(field):
                return max(pos[field])[1] if pos.get(field) else None
            seq = [(rel, mapping[rel], gpos(mapping[rel])) for rel in emitted]
            ok = all(seq[i][2] < seq[i + 1][2] for i in range(len(seq) - 1))
            r.check(ok, '%s/%s: operands %s are emitted in their grammar order' % (ncls, kind, [(x[0], x[1]) for x in seq]), gen,
                    construct=TG + '.accept_' + kind, key='roles ' + kind,
                    msg='%s: prebuild stores %s and accept_%s emits them in the order %s, but the grammar places these operands at '
                        'positions %s -- two operands swap roles in the regenerated text'
                        % (ncls, sorted(mapping.items()), kind, [x[0] for x in seq], [x[2] for x in seq]))
    # binary / unary / assignment operand roles (values, related to V_VAL not to variables)
    bin_pb = repo.func(AP + '.accept_BinaryOperationNode')
    ok = pm.contains('_L = self.accept(node.left)', bin_pb) and pm.contains('_R = self.accept(node.right)', bin_pb)
    lv = rv = None
    for st in body_without_doc(bin_pb):
        m = pm.match('_L = self.accept(node.left)', st)
        if m:
            lv = m['_L'].id
        m = pm.match('_R = self.accept(node.right)', st)
        if m:
            rv = m['_R'].id
    ok = lv and rv and pm.contains('relate(_B, %s, 802)' % lv, bin_pb) and pm.contains('relate(_B, %s, 803)' % rv, bin_pb)
    r.check(bool(ok), 'binary operation: left operand over R802, right operand over R803', bin_pb, construct=AP + '.accept_BinaryOperationNode',
            key='binop-802-803', msg='accept_BinaryOperationNode does not relate node.left over R802 and node.right over R803')
    g = th['V_BIN']
    want = ["self.buf('(')", 'self.accept(one(inst).V_VAL[802]())', "self.buf(' ', inst.Operator, ' ')",
            'self.accept(one(inst).V_VAL[803]())', "self.buf(')')"]
    r.check(pm.match_canon(want, _emission_statements(g)) is not None, 'V_BIN is generated as ( <R802> operator <R803> )', g, construct=TG + '.accept_V_BIN',
            key='gen-binop', msg='accept_V_BIN does not emit "(" <R802 operand> operator <R803 operand> ")"')
    ai_pb = repo.func(AP + '.accept_AssignmentNode')
    ok = pm.contains('_R = self.accept(node.expression)', ai_pb) and pm.contains('_L = self.accept(node.variable_access)', ai_pb)
    m1 = [pm.match('_R = self.accept(node.expression)', st) for st in body_without_doc(ai_pb)]
    m2 = [pm.match('_L = self.accept(node.variable_access)', st) for st in body_without_doc(ai_pb)]
    rvn = [m['_R'].id for m in m1 if m]
    lvn = [m['_L'].id for m in m2 if m]
    ok = rvn and lvn and pm.contains('relate(_A, %s, 609)' % rvn[0], ai_pb) and pm.contains('relate(_A, %s, 689)' % lvn[0], ai_pb)
    r.check(bool(ok), 'assignment: r-value over R609, l-value over R689', ai_pb, construct=AP + '.accept_AssignmentNode', key='assign-609-689',
            msg='accept_AssignmentNode does not relate the expression over R609 and the variable access over R689')
    g = th['ACT_AI']
    seq = [src(n) for n in ast.walk(g) if isinstance(n, ast.Call) and src(n.func) == 'self.accept']
    r.check(seq == ['self.accept(one(inst).V_VAL[689]())', 'self.accept(one(inst).V_VAL[609]())'],
            'ACT_AI is generated as <R689 l-value> = <R609 r-value>', g, construct=TG + '.accept_ACT_AI', key='gen-assign',
            msg='accept_ACT_AI emits %s; expected the l-value (R689) before the r-value (R609)' % seq)
    # parameter name/value, for-each instance/set
    g = th['V_PAR']
    r.check(pm.contains("self.buf(inst.Name, ': ')", g) and pm.contains('self.accept(one(inst).V_VAL[800]())', g),
            'a parameter is generated as name: <value over R800>', g, construct=TG + '.accept_V_PAR', key='gen-par',
            msg='accept_V_PAR does not emit `Name: <R800 value>`')


# ---------------------------------------------------------------------------
def emits(ctx):
    '''no construct is dropped from the generated text: every path through a generator writes something or hands on to another
    generator (an early return before the first piece silently loses the construct, e.g. an else clause with an empty block)'''
    from .. import cfg as cfgmod
    repo = ctx.repo
    r = ctx.rule('C05-EMITS', 'every path through a text generator emits text or delegates to another generator', floor=60,
                 oracle='property statement (same statements in the same order and nesting)')
    cls = repo.cls(TG)
    for m in cls.body:
        if not (isinstance(m, ast.FunctionDef) and m.name.startswith('accept_')):
            continue
        g = cfgmod.build(m)
        bad = None
        for p_ in g.paths(follow_exc=False):
            if p_[-1][0].kind == 'raise':
                continue
            em = any(n.kind in ('stmt', 'test', 'for') and n.ast is not None and any(
                isinstance(c, ast.Call) and isinstance(c.func, ast.Attribute) and c.func.attr in ('buf', 'buf_linebreak', 'accept', 'default_accept')
                for c in ast.walk(n.ast)) for n, _ in p_)
            if not em:
                bad = p_
                break
        q = TG + '.' + m.name
        r.check(bad is None, '%s writes or delegates on every path' % m.name, m, construct=q, key='silent-path',
                msg='%s has a path that ends without writing anything (%s): the construct is silently missing from the generated text' % (
                    q, ' ; '.join(src(n.ast).split('\n')[0][:40] for n, _ in (bad or []) if n.ast is not None and n.kind in ('test', 'stmt'))[:160]))


def literals(ctx):
    repo = ctx.repo
    r = ctx.rule('C05-LITERALS', 'literal, operator, phrase and relationship-number encodings are inverse pairs', floor=9,
                 oracle='writer (prebuild) vs reader (sourcegen) per attribute')
    ap, tg = AP, TG
    pairs = [
        ('string literal: quotes stripped / re-added',
         (ap + '.accept_StringNode', "self.new('V_LST', Value=node.value[1:-1])"), (tg + '.accept_V_LST', "self.buf('\"%s\"' % inst.Value)")),
        ('boolean literal: upper-cased / lower-cased',
         (ap + '.accept_BooleanNode', "self.new('V_LBO', Value=str(node.value).upper())"), (tg + '.accept_V_LBO', 'self.buf(inst.Value.lower())')),
        ('integer literal verbatim',
         (ap + '.accept_IntegerNode', "self.new('V_LIN', Value=node.value)"), (tg + '.accept_V_LIN', 'self.buf(inst.Value)')),
        ('real literal verbatim',
         (ap + '.accept_RealNode', "self.new('V_LRL', Value=node.value)"), (tg + '.accept_V_LRL', 'self.buf(inst.Value)')),
        ('unary operator lower-cased / verbatim',
         (ap + '.accept_UnaryOperationNode', "self.new('V_UNY', Operator=node.operator.lower())"), (tg + '.accept_V_UNY', "self.buf(inst.Operator, ' ')")),
        ('relate phrase verbatim (with ticks) / after a dot',
         (ap + '.accept_RelateNode', "self.new('ACT_REL', relationship_phrase=node.phrase)"), (tg + '.accept_ACT_REL', "self.buf('.', inst.relationship_phrase)")),
        ('navigation phrase verbatim / after a dot',
         (ap + '.accept_NavigationStepNode', "self.new('ACT_LNK', Mult=2, Rel_Phrase=node.phrase)"), (tg + '.accept_ACT_LNK', "self.buf('.', inst.Rel_Phrase)")),
        ('relationship number: int(rel_id[1:]) / "R" + str(Numb)',
         (ap + '.r_rel', 'where(Numb=int(rel_id[1:]))'), (tg + '.accept_ACT_LNK', "self.buf('->', one(inst).O_OBJ[678]().Key_Lett, '[R', str(one(inst).R_REL[681]().Numb))")),
        ('select cardinality lower-cased / verbatim',
         (ap + '.accept_SelectFromNode', "self.new('ACT_FIO', is_implicit=implicit, cardinality=node.cardinality.lower())"),
         (tg + '.accept_ACT_FIO', "self.buf('select ', inst.cardinality, ' ')")),
        ('select-where cardinality lower-cased / verbatim',
         (ap + '.accept_SelectFromWhereNode', "self.new('ACT_FIW', is_implicit=implicit, cardinality=node.cardinality.lower())"),
         (tg + '.accept_ACT_FIW', "self.buf('select ', inst.cardinality, ' ')")),
        ('select-related cardinality (any / one / many) lower-cased / verbatim',
         (ap + '.act_sel', "self.new('ACT_SEL', is_implicit=implicit, cardinality=node.cardinality.lower())"),
         (tg + '.accept_ACT_SEL', "self.buf('select ', inst.cardinality, ' ')")),
        ('variable name verbatim', (ap + '.v_int', 'self.v_var(node, Name=name)'), (tg + '.accept_V_VAR', 'self.buf(inst.Name)')),
        ('parameter name verbatim', (ap + '.accept_ParameterNode', "self.new('V_PAR', Name=node.name)"), (tg + '.accept_V_PAR', "self.buf(inst.Name, ': ')")),
    ]
    from .. import emit as _emit

    def pieces(args):
        out_ = ''
        for a_ in args:
            for p_ in _emit.flatten(a_):
                out_ += p_[1] if p_[0] == 'lit' else '\x00%s\x01' % src(p_[1])
        return out_

    def emitted(f_):
        '''the text the generator writes, in source order: literal pieces verbatim, every other piece as a marked hole; any
        statement that is not a buf() call is a separator.  How the pieces are spread over buf() calls / arguments / `+` / %
        formats does not matter.'''
        out_ = ''
        for n_ in normal_order(f_):
            if isinstance(n_, ast.Expr) and isinstance(n_.value, ast.Call) and call_attr(n_.value) == 'buf' and src(n_.value.func.value) == 'self' \
                    and not n_.value.keywords and not any(isinstance(a_, ast.Starred) for a_ in n_.value.args):
                out_ += pieces(n_.value.args)
            elif isinstance(n_, (ast.If, ast.For, ast.While)):
                out_ += '\x02'
            elif isinstance(n_, ast.stmt):
                out_ += '\x02'
        return out_

    def normal_order(f_):
        def rec(lst_):
            for st_ in lst_:
                yield st_
                for fld_ in ('body', 'orelse', 'finalbody'):
                    sub_ = getattr(st_, fld_, None)
                    if isinstance(sub_, list) and not isinstance(st_, (ast.FunctionDef, ast.ClassDef)):
                        for x_ in rec(sub_):
                            yield x_
        return rec(f_.body)
    for what, (wq, wpat), (rq, rpat) in pairs:
        wf, rf = repo.func(wq), repo.nfunc(rq)
        want_ = pieces(ast.parse(rpat).body[0].value.args)
        ok = pm.contains(wpat, wf) and want_ in emitted(rf)
        r.check(ok, what, rf, construct=rq, key='pair ' + what,
                msg='encoding pair broken (%s): %s must contain `%s` and %s must contain `%s`' % (what, wq, wpat, rq, rpat))
    # elif clauses have no succession association: they are ordered by (line, column) of their statement
    f = repo.func(tg + '.accept_ACT_IF')
    keys = [n for n in ast.walk(f) if isinstance(n, ast.Lambda) and isinstance(n.body, ast.Tuple)]
    ok = len(keys) == 1 and [src(e).split('.')[-1] for e in keys[0].body.elts] == ['LineNumber', 'StartPosition'] and \
        pm.contains('sorted(many(inst).ACT_EL[682](), key=by_position)', f)
    r.check(ok, 'elif clauses are emitted ordered by (LineNumber, StartPosition)', f, construct=tg + '.accept_ACT_IF', key='elif-order',
            msg='accept_ACT_IF does not sort the ACT_EL clauses by the key (LineNumber, StartPosition) in that order: clauses on different lines '
                'may be emitted in the wrong order')
    # named constants: looked up by group AND name, regenerated as group::name
    f = repo.func(ap + '.accept_EnumOrNamedConstantNode')
    ok = pm.contains("_G = self.any('CNST_CSP', where(InformalGroupName=node.namespace))", f)
    gv = [pm.match("_G = self.any('CNST_CSP', where(InformalGroupName=node.namespace))", n) for n in ast.walk(f) if isinstance(n, ast.Assign)]
    gv = [m['_G'].id for m in gv if m]
    ok = ok and gv and pm.contains('_C = one(%s).CNST_SYC[1504](where(Name=node.name))' % gv[0], f)
    g2 = repo.func(tg + '.accept_V_SCV')
    ok2 = pm.contains("self.buf(cnst_csp.InformalGroupName, '::', cnst_syc.Name)", g2) and pm.contains('cnst_csp = one(cnst_syc).CNST_CSP[1504]()', g2)
    r.check(bool(ok) and ok2, 'a named constant is resolved inside the group named by its namespace and regenerated as group::name', f,
            construct=ap + '.accept_EnumOrNamedConstantNode', key='constant-group',
            msg='Group::NAME is no longer resolved as the constant NAME of the group whose InformalGroupName is the written namespace (or not '
                'regenerated from that group): with two groups defining the same name the wrong group is emitted')
    ok = pm.contains("_E = one(s_dt).S_EDT[17].S_ENUM[27](where(name=node.name))", f) and pm.contains('s_dt = self.s_dt(node.namespace)', f)
    r.check(ok, 'an enumerator is resolved inside the enumeration named by its namespace', f, construct=ap + '.accept_EnumOrNamedConstantNode', key='enum-type',
            msg='Type::Enumerator is no longer resolved inside the data type named by the namespace')
    # statement separator and block structure
    f = repo.func(tg + '.accept_ACT_SMT')
    r.check(pm.match_canon(['self.accept(subtype(inst, 603))', "self.buf_linebreak(';')"], body_without_doc(f)) is not None,
            'a statement is its R603 subtype followed by ";"', f, construct=tg + '.accept_ACT_SMT', key='stmt-sep',
            msg='accept_ACT_SMT is not `accept(subtype over R603)` followed by ";"')
    f = repo.func(tg + '.accept_V_VAL')
    r.check(pm.match_canon(['self.accept(subtype(inst, 801))'], body_without_doc(f)) is not None, 'a value is generated by its R801 subtype', f,
            construct=tg + '.accept_V_VAL', key='val-sub', msg='accept_V_VAL does not dispatch on the R801 subtype')


def names(ctx, ki):
    """A model element that prebuild finds BY NAME is found through one attribute (`where(Key_Lett=...)` for classes and external
    entities); the generated text must name the element by that same attribute, or translating the text again finds another element
    or none."""
    repo = ctx.repo
    r = ctx.rule('C05-NAMES', 'text names a class / external entity by the attribute prebuild looks it up with', floor=10,
                 oracle='writer / reader agreement: the look-up helpers of prebuild')
    lookups = {}
    for c in repo.classes(PB):
        for m in c.body:
            if not isinstance(m, ast.FunctionDef):
                continue
            for n in ast.walk(m):
                if isinstance(n, ast.Call) and isinstance(n.func, ast.Subscript) and isinstance(n.func.value, ast.Attribute) and len(n.args) == 1:
                    w = n.args[0]
                    if isinstance(w, ast.Call) and dotted(w.func) == 'where' and len(w.keywords) == 1 and not w.args and \
                            isinstance(w.keywords[0].value, ast.Name) and w.keywords[0].value.id in [a.arg for a in m.args.args]:
                        lookups.setdefault(n.func.value.attr, set()).add(w.keywords[0].arg)
    lookups = dict((k, v) for k, v in lookups.items() if k in ('O_OBJ', 'S_EE'))
    if set(lookups) != {'O_OBJ', 'S_EE'} or any(len(v) != 1 for v in lookups.values()):
        raise AnalysisError('prebuild no longer finds classes and external entities through one where(<attribute>=<parameter>) look-up each: %s' % lookups)
    cls = repo.cls(SG + ':ActionTextGenWalker')
    n_sites = 0
    for m in cls.body:
        if not (isinstance(m, ast.FunctionDef) and m.name.startswith('accept_')):
            continue
        env = ki.func_env(m, cls)
        for n in ast.walk(m):
            if not (isinstance(n, ast.Call) and src(n.func) in ('self.buf', 'self.buf_linebreak')):
                continue
            for a in n.args:
                if not (isinstance(a, ast.Attribute) and isinstance(a.value, ast.Name)):
                    continue
                kinds_ = ki.expr_kinds(a.value, env, cls) or set()
                for k in sorted(set(kinds_) & set(lookups)):
                    want = sorted(lookups[k])[0]
                    if len(set(kinds_)) != 1:
                        continue
                    n_sites += 1
                    q = '%s:ActionTextGenWalker.%s' % (SG, m.name)
                    r.check(a.attr == want, '%s names the %s by %s' % (m.name, k, want), a, construct=q, key='name-attr ' + src(a),
                            msg='%s writes `%s` into the text, but prebuild finds a %s by %s (where(%s=...)): for an element whose %s differs from its '
                                '%s the generated text names nothing (or something else), so it does not translate back to the same instances'
                                % (m.name, src(a), k, want, want, a.attr, want))
    if n_sites < 10:
        raise AnalysisError('only %d name positions of classes / external entities found in sourcegen' % n_sites)
