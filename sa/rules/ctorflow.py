'''
Which grammar slot reaches which constructor parameter in a ply action: `p[0] = Ctor(...)` is resolved by abstract
execution with symbolic locals, so argument lists built step by step (args = [..]; args.extend(p[6]); Ctor(*args)),
tuple unpacking (a, b = p[6]; Ctor(x=a, y=b)) and positional / keyword spellings all give the same binding
{parameter: 'p[4]' | 'p[6][0]' | ...}.
'''
import ast

from ..src import AnalysisError, loc, src, param_names
from .. import pm, absint, normal


def ctor_binding(fn, ctors, signatures, arity=None):
    '''-> (constructor name, {parameter: source of the expression that reaches it}) for the `p[0] = <Ctor>(...)` of fn, or
    (None, None).  arity: {'p[6]': 4} expands a starred slot of known tuple length into its components.'''
    arity = arity or {}
    P = param_names(fn)[0] if param_names(fn) else 'p'
    result = {}

    def lst_extend(e, s, tr):
        n = e['_L']
        if not (isinstance(n, ast.Name) and isinstance(s.get('senv', {}).get(n.id), (ast.List, ast.Tuple))):
            return False
        cur = s['senv'][n.id]
        s['senv'][n.id] = ast.copy_location(ast.List(elts=list(cur.elts) + [ast.Starred(value=e['_X'], ctx=ast.Load())], ctx=ast.Load()), cur)
        return True

    def lst_append(e, s, tr):
        n = e['_L']
        if not (isinstance(n, ast.Name) and isinstance(s.get('senv', {}).get(n.id), (ast.List, ast.Tuple))):
            return False
        cur = s['senv'][n.id]
        s['senv'][n.id] = ast.copy_location(ast.List(elts=list(cur.elts) + [e['_X']], ctx=ast.Load()), cur)
        return True

    def unpack(e, s, tr):
        t, v = e['_T'], e['_V']
        if not isinstance(t, (ast.Tuple, ast.List)) or not all(isinstance(x, ast.Name) for x in t.elts):
            return False
        if isinstance(v, (ast.Tuple, ast.List)) and len(v.elts) == len(t.elts):
            for x, y in zip(t.elts, v.elts):
                s.setdefault('senv', {})[x.id] = y
            return True
        for k, x in enumerate(t.elts):
            s.setdefault('senv', {})[x.id] = ast.copy_location(ast.Subscript(value=v, slice=ast.Constant(value=k), ctx=ast.Load()), v)
        return True

    def build(e, s, tr):
        v = e['_V']
        if not (isinstance(v, ast.Call) and isinstance(v.func, ast.Name) and v.func.id in ctors):
            return False
        args = []

        def flat(a):
            if isinstance(a, ast.Starred) and isinstance(a.value, (ast.List, ast.Tuple)):
                for x in a.value.elts:
                    flat(x)
            elif isinstance(a, ast.Starred) and src(a.value) in arity:
                for k in range(arity[src(a.value)]):
                    args.append('%s[%d]' % (src(a.value), k))
            elif isinstance(a, ast.Starred):
                raise AnalysisError('%s: starred argument `%s` of unknown length' % (loc(fn), src(a)))
            else:
                args.append(src(a))
        for a in v.args:
            flat(a)
        params = signatures.get(v.func.id)
        if params is None or len(args) > len(params):
            raise AnalysisError('%s: call of %s does not fit its signature' % (loc(fn), v.func.id))
        b = dict(zip(params, args))
        for k in v.keywords:
            if k.arg is None or k.arg in b or k.arg not in params:
                raise AnalysisError('%s: keyword arguments of %s not understood' % (loc(fn), v.func.id))
            b[k.arg] = src(k.value)
        result['ctor'] = v.func.id
        result['binding'] = b
        return True
    it = absint.Interp(fn, [('%s[_J] is None' % P, lambda e, s, tr: False), ('%s[_J] is not None' % P, lambda e, s, tr: True)],
                       [('%s[0] = _V' % P, build), ('_L.extend(_X)', lst_extend), ('_L.append(_X)', lst_append), ('_T = _V', unpack)])
    it.pure_calls = set(ctors)
    try:
        it.run({})
    except AnalysisError:
        return None, None
    return result.get('ctor'), result.get('binding')
