'''
Rules over ply lexer classes shared by C12 (SQL loader) and C13/C07 (OAL).
'''
import ast
import re

from ..src import AnalysisError, loc, src, dotted, call_attr, param_names, walk_local
from .. import pm, cfg as cfgmod
from ..grammar import Grammar
from ..lexer import RegexNFA

PLY_FLAGS = re.VERBOSE      # ply.lex compiles the master regex with re.VERBOSE by default

_gcache = {}


def grammar_of(repo, qual):
    key = (id(repo), qual)
    if key not in _gcache:
        _gcache[key] = Grammar(repo, qual)
    return _gcache[key]


def time_rule(ctx, rule_id, class_qual, extra_regex_fn=None, floor=10):
    '''no token regex is exponentially ambiguous (exact product-automaton test)'''
    repo = ctx.repo
    r = ctx.rule(rule_id, 'no token regex of %s has exponential ambiguity (bounded-time lexing)' % class_qual, floor=floor,
                 oracle='Weber/Seidl EDA criterion on the regex automaton; ply lexes with a backtracking matcher')
    g = grammar_of(repo, class_qual)
    for t in g.token_rules:
        nfa = RegexNFA(t.regex, PLY_FLAGS)
        w = nfa.eda()
        node = t.fn if t.fn is not None else g.cls
        r.check(w is None, 'token %s regex %r: finitely/polynomially ambiguous' % (t.name, t.regex), node,
                construct='%s.t_%s' % (class_qual, t.name), key='EDA',
                msg='token regex t_%s = %r is exponentially ambiguous: two different ways to match a repeated %r inside a '
                    'loop, so a non-matching input of n such characters costs 2^n steps' % (t.name, t.regex, (w or {}).get('char')),
                facts=w)
        for la in nfa.lookaheads:
            pass
    if extra_regex_fn:
        fn = repo.func(extra_regex_fn)
        n = 0
        for node in ast.walk(fn):
            if isinstance(node, ast.Call) and dotted(node.func) in ('re.match', 're.search', 're.fullmatch', 're.compile') \
                    and node.args and isinstance(node.args[0], ast.Constant):
                n += 1
                pat = node.args[0].value
                w = RegexNFA(pat, 0).eda()
                r.check(w is None, '%s regex %r: not exponentially ambiguous' % (extra_regex_fn, pat), node,
                        construct=extra_regex_fn, key='EDA ' + pat,
                        msg='regex %r in %s is exponentially ambiguous' % (pat, extra_regex_fn), facts=w)
        if n == 0:
            raise AnalysisError('%s: no literal regex found' % loc(fn))
    return r


def _resolved_match(fn, stmt_pattern, st, value_patterns):
    '''st matches stmt_pattern and its value _V -- with once-assigned pure locals replaced by their values -- is one of the values'''
    from .common import resolve_locals
    m = pm.match(stmt_pattern, st)
    if m is None:
        return False
    v = resolve_locals(fn, m['_V'])
    return any(pm.match(vp, v) is not None for vp in value_patterns) or any(pm.match(vp, m['_V']) is not None for vp in value_patterns)


def endpos_rule(ctx, rule_id, class_qual, floor):
    '''every token rule sets t.endlexpos = t.lexpos + len(t.value) on every path before returning'''
    repo = ctx.repo
    r = ctx.rule(rule_id, 'every token rule of %s records the exact end offset of its lexeme' % class_qual, floor=floor,
                 oracle='p.lexspan()/set_positional_info read t.endlexpos as the end of the last token')
    g = grammar_of(repo, class_qual)
    for t in g.token_rules:
        if t.fn is None:
            r.violation('token %s is a string rule: ply cannot attach endlexpos to it' % t.name, g.cls,
                        construct='%s.t_%s' % (class_qual, t.name), key='string-rule')
            continue
        if not t.returns_token:
            continue
        tp = param_names(t.fn)[0]
        c = cfgmod.build(t.fn)
        paths = [p for p in c.paths(follow_exc=False) if p[-1][0].kind == 'exit']
        ok = bool(paths)
        for p in paths:
            good = False
            modified = False        # t.value / t.lexpos re-bound: len(t.value) is no longer the length of the matched text
            for n, _ in p:
                if n.kind != 'stmt':
                    continue
                tg = n.ast.targets if isinstance(n.ast, ast.Assign) else ([n.ast.target] if isinstance(n.ast, ast.AugAssign) else [])
                if any(src(x) in ('%s.value' % tp, '%s.lexpos' % tp) for x in tg):
                    modified = True
                    continue
                if _resolved_match(t.fn, '%s.endlexpos = _V' % tp, n.ast, ['%s.lexpos + len(%s.value)' % (tp, tp),
                                                                          'len(%s.value) + %s.lexpos' % (tp, tp)]):
                    good = not modified
                elif any(src(x) == '%s.endlexpos' % tp for x in tg):
                    good = False
            ok = ok and good
        r.check(ok, 't_%s sets endlexpos = lexpos + len(value) on all %d returning paths' % (t.name, len(paths)), t.fn,
                construct='%s.t_%s' % (class_qual, t.name), key='endlexpos',
                msg='t_%s returns a token on a path where %s.endlexpos is not set to %s.lexpos + len(%s.value) of the MATCHED text (the value '
                    'is re-bound before, or endlexpos overwritten afterwards): every node ending with this token gets a wrong end position' % (t.name, tp, tp, tp))
    return r


def lineno_rule(ctx, rule_id, class_qual, floor):
    '''every token rule whose regex can match a newline advances the line counter by the newlines of its lexeme'''
    repo = ctx.repo
    r = ctx.rule(rule_id, 'token rules of %s that can match a newline count the newlines they consume' % class_qual,
                 floor=floor, oracle='regex automaton: can the token language contain "\\n"?')
    g = grammar_of(repo, class_qual)
    for t in g.token_rules:
        nfa = RegexNFA(t.regex, PLY_FLAGS)
        can_nl = nfa.can_consume('\n')
        if not can_nl:
            r.ok('t_%s cannot match a newline' % t.name, t.fn)
            continue
        if t.fn is None:
            r.violation('string rule %s can match a newline but cannot count it' % t.name, g.cls,
                        construct='%s.t_%s' % (class_qual, t.name), key='lineno-string-rule')
            continue
        tp = param_names(t.fn)[0]
        pats = ['%s.lexer.lineno += %s.value.count(_NL)' % (tp, tp), '%s.lexer.lineno += (%s.value.count(_NL))' % (tp, tp)]
        c = cfgmod.build(t.fn)
        paths = [p for p in c.paths(follow_exc=False) if p[-1][0].kind == 'exit']
        only_nl = _only_newlines(nfa)
        ok = bool(paths)
        from .common import resolve_locals

        def no_newline_edge(node, label):
            '''the edge (test, label) is only taken when the lexeme holds no newline: nothing is to be counted on that path'''
            if node.kind != 'test' or label not in ('T', 'F'):
                return False
            e = resolve_locals(t.fn, node.ast if isinstance(node.ast, ast.expr) else getattr(node.ast, 'test', node.ast))
            neg_ = False
            while isinstance(e, ast.UnaryOp) and isinstance(e.op, ast.Not):
                e, neg_ = e.operand, not neg_
            has_nl = None       # truth of e  <=>  the lexeme contains a newline
            cnt = "%s.value.count('\\n')" % tp
            for pat_, pos_ in (("'\\n' in %s.value" % tp, True), ("'\\n' not in %s.value" % tp, False), (cnt, True), (cnt + ' > 0', True),
                               (cnt + ' != 0', True), (cnt + ' >= 1', True), (cnt + ' == 0', False), (cnt + ' < 1', False),
                               ('0 < ' + cnt, True), ('0 != ' + cnt, True), ('0 == ' + cnt, False)):
                if pm.match(pat_, e) is not None:
                    has_nl = pos_
            if has_nl is None:
                return False
            if neg_:
                has_nl = not has_nl
            return (label == 'F') if has_nl else (label == 'T')
        for p in paths:
            good = False
            for n, lab_ in p:
                if no_newline_edge(n, lab_):
                    good = True
                if n.kind != 'stmt':
                    continue
                if _resolved_match(t.fn, '%s.lexer.lineno += _V' % tp, n.ast, ["%s.value.count('\\n')" % tp]):
                    good = True
                if only_nl and _resolved_match(t.fn, '%s.lexer.lineno += _V' % tp, n.ast, ['len(%s.value)' % tp]):
                    good = True
            ok = ok and good
        r.check(ok, 't_%s (regex can match a newline) adds its newline count to lexer.lineno' % t.name, t.fn,
                construct='%s.t_%s' % (class_qual, t.name), key='lineno',
                msg='t_%s: the regex %r can match a newline, but the rule does not add %s.value.count("\\n") to '
                    '%s.lexer.lineno: every later token and node reports a line number that is too small'
                    % (t.name, t.regex, tp, tp))
    return r


def _only_newlines(nfa):
    '''the token language is a subset of \\n+'''
    live = nfa.trim()
    for q in live:
        for cs, t in nfa.trans[q]:
            if t in live:
                for ch in nfa.classes():
                    if ch != '\n' and cs.contains(ch):
                        return False
    return True
