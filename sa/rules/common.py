'''
Helpers shared by rule modules: idiom tables (truthiness, case normalisers),
association role model derived from MetaModel.define_association, ...
'''
import ast

from ..src import AnalysisError, loc, src, norm, dotted, call_attr, param_names, bind_call
from .. import pm

CASE_NORMALISERS = ('upper', 'lower', 'casefold')


def truthy_patterns(x):
    '''source patterns meaning "collection x is non-empty" / "is empty"'''
    t = [x, 'len(%s) > 0' % x, 'len(%s) != 0' % x, 'len(%s) >= 1' % x, 'bool(%s)' % x,
         'len(%s)' % x, '0 < len(%s)' % x, '0 != len(%s)' % x]
    f = ['len(%s) == 0' % x, 'len(%s) < 1' % x, '0 == len(%s)' % x, 'len(%s) <= 0' % x]
    return t, f


def is_case_normalised(node):
    '''X.upper() / X.lower() / X.casefold()'''
    return (isinstance(node, ast.Call) and isinstance(node.func, ast.Attribute)
            and node.func.attr in CASE_NORMALISERS and not node.args)


def strip_normaliser(node):
    if is_case_normalised(node):
        return node.func.value, node.func.attr
    return node, None


def assigned_value(fn, name):
    '''all values assigned to simple name inside fn (local, not nested)'''
    out = []
    for n in ast.walk(fn):
        if isinstance(n, ast.Assign):
            for t in n.targets:
                if isinstance(t, ast.Name) and t.id == name:
                    out.append(n.value)
        elif isinstance(n, ast.AugAssign) and isinstance(n.target, ast.Name) and n.target.id == name:
            out.append(n)
    return out


def exception_class_name(raise_node):
    '''Raise -> name of the raised class ("RelateException") or None'''
    exc = raise_node.exc if isinstance(raise_node, ast.Raise) else raise_node
    if exc is None:
        return None
    if isinstance(exc, ast.Call):
        exc = exc.func
    d = dotted(exc)
    if d is None:
        return None
    return d.split('.')[-1]


def declared_spelling(expr):
    """recognises the resolver that maps a list of attribute names onto the spelling the class declares,
           [ {n.upper(): n for n in <mc>.attribute_names}.get(k.upper(), k)  for k in <KEYS> ]        (dict(...) of pairs likewise)
    and returns (<KEYS>, <mc>); the result names the same attributes in the same order, so for role questions it IS <KEYS>.
    Anything else -> None."""
    if not (isinstance(expr, ast.ListComp) and len(expr.generators) == 1 and not expr.generators[0].ifs and isinstance(expr.generators[0].target, ast.Name)):
        return None
    k = expr.generators[0].target.id
    e = expr.elt
    if not (isinstance(e, ast.Call) and isinstance(e.func, ast.Attribute) and e.func.attr == 'get' and len(e.args) == 2 and not e.keywords):
        return None
    a0, a1 = e.args
    if not (isinstance(a1, ast.Name) and a1.id == k and is_case_normalised(a0) and isinstance(a0.func.value, ast.Name) and a0.func.value.id == k):
        return None
    norm_ = a0.func.attr
    d = e.func.value
    comp = None
    if isinstance(d, ast.DictComp) and len(d.generators) == 1:
        comp, key_e, val_e = d.generators[0], d.key, d.value
    elif isinstance(d, ast.Call) and dotted(d.func) == 'dict' and len(d.args) == 1 and isinstance(d.args[0], (ast.GeneratorExp, ast.ListComp)) and \
            len(d.args[0].generators) == 1 and isinstance(d.args[0].elt, ast.Tuple) and len(d.args[0].elt.elts) == 2:
        comp, key_e, val_e = d.args[0].generators[0], d.args[0].elt.elts[0], d.args[0].elt.elts[1]
    if comp is None or comp.ifs or not isinstance(comp.target, ast.Name):
        return None
    n = comp.target.id
    if not (isinstance(val_e, ast.Name) and val_e.id == n and is_case_normalised(key_e) and key_e.func.attr == norm_ and
            isinstance(key_e.func.value, ast.Name) and key_e.func.value.id == n):
        return None
    it = comp.iter
    if not (isinstance(it, ast.Attribute) and it.attr == 'attribute_names'):
        return None
    return expr.generators[0].iter, it.value


def strip_declared(expr):
    d = declared_spelling(expr)
    return d[0] if d else expr


def resolve_locals(fn, expr, pure_only=True):
    '''expr with once-assigned pure locals of fn replaced by their values, in expression normal form: for rules that only ask
    WHICH values reach a place (not when they are computed)'''
    from .. import normal
    single, stores = {}, {}
    for n in ast.walk(fn):
        if isinstance(n, ast.Name) and isinstance(n.ctx, ast.Store):
            stores[n.id] = stores.get(n.id, 0) + 1
        if isinstance(n, ast.Assign) and len(n.targets) == 1 and isinstance(n.targets[0], ast.Name) and (normal.is_pure(n.value) or not pure_only):
            single.setdefault(n.targets[0].id, []).append(n.value)
        if isinstance(n, ast.Assign) and len(n.targets) == 1 and isinstance(n.targets[0], ast.Tuple) and isinstance(n.value, ast.Tuple) and \
                len(n.targets[0].elts) == len(n.value.elts):
            for t_, v_ in zip(n.targets[0].elts, n.value.elts):
                if isinstance(t_, ast.Name) and (normal.is_pure(v_) or not pure_only):
                    single.setdefault(t_.id, []).append(v_)
    mapping = {k: v[0] for k, v in single.items() if len(v) == 1 and stores.get(k) == 1}
    cur = expr
    for _ in range(6):
        if not any(isinstance(x, ast.Name) and x.id in mapping for x in ast.walk(cur)):
            break
        cur = normal._Subst(mapping).visit(normal.clone(cur))
    new = normal._Expr().visit(normal.clone(cur))
    new = normal._Expr().visit(new)
    for n in ast.walk(new):
        if not hasattr(n, 'lineno') and isinstance(n, (ast.expr, ast.stmt)):
            ast.copy_location(n, expr)
    return new


class AssocModel(object):
    '''
    The platform model of an association, derived from the source of
    MetaModel.define_association, MetaClass.add_link, Link.__init__ and
    Association.__init__:

      attr 'source_link' / 'target_link' of Association  ->
          {'from': 'SRC'|'TGT', 'to': ..., 'many': <define_association param>,
           'conditional': <param>, 'phrase': <param>, 'var': local variable}
      key_map of each link: (keys-param, values-param)
    '''

    def __init__(self, repo):
        self.repo = repo
        fn = repo.func('xtuml.meta:MetaModel.define_association')
        self.fn = fn
        add_link = repo.func('xtuml.meta:MetaClass.add_link')
        link_init = repo.func('xtuml.meta:Link.__init__')
        assoc_init = repo.func('xtuml.meta:Association.__init__')
        params = param_names(fn)
        # roles of metaclass variables
        role = {}
        for node, env in pm.find('_V = self.find_metaclass(_K)', fn):
            k = env['_K']
            if isinstance(k, ast.Name) and k.id in ('source_kind', 'target_kind'):
                role[env['_V'].id] = 'SRC' if k.id == 'source_kind' else 'TGT'
        if set(role.values()) != {'SRC', 'TGT'}:
            raise AnalysisError('%s: cannot identify the source/target metaclass variables of '
                                'define_association' % loc(fn))
        # add_link passes its parameters to Link(...)
        link_call = None
        for node, env in pm.find('Link(__, __, __, __, __, __)', add_link):
            link_call = node
        if link_call is None:
            for node in ast.walk(add_link):
                if isinstance(node, ast.Call) and dotted(node.func) == 'Link':
                    link_call = node
        if link_call is None:
            raise AnalysisError('%s: add_link does not construct a Link' % loc(add_link))
        lb = bind_call(link_call, link_init)
        # Link.__init__ param -> add_link expr ; we need add_link param -> Link field
        add_params = param_names(add_link)
        field_of_link_param = {}
        for node, env in pm.find('self._F = _P', link_init):
            if isinstance(env['_P'], ast.Name):
                field_of_link_param[env['_P'].id] = env['_F']
        self.add_link_field = {}   # add_link param -> Link field name
        for lp, expr in lb.items():
            if isinstance(expr, ast.Name) and expr.id in add_params and lp in field_of_link_param:
                self.add_link_field[expr.id] = field_of_link_param[lp]
            elif isinstance(expr, ast.Name) and expr.id == 'self':
                self.add_link_field['self'] = field_of_link_param.get(lp)
        if self.add_link_field.get('self') != 'from_metaclass' or \
                self.add_link_field.get('metaclass') != 'to_metaclass':
            raise AnalysisError('%s: add_link(self, metaclass, ...) no longer builds Link(from=self, to=metaclass)'
                                % loc(add_link))
        # links created in define_association
        links = {}
        for node in ast.walk(fn):
            if isinstance(node, ast.Assign) and isinstance(node.value, ast.Call) \
                    and call_attr(node.value) == 'add_link' and isinstance(node.value.func, ast.Attribute) \
                    and isinstance(node.targets[0], ast.Name):
                recv = node.value.func.value
                if not (isinstance(recv, ast.Name) and recv.id in role):
                    raise AnalysisError('%s: add_link receiver is not a metaclass variable' % loc(node))
                b = bind_call(node.value, add_link)
                to = b.get('metaclass')
                if not (isinstance(to, ast.Name) and to.id in role):
                    raise AnalysisError('%s: add_link target is not a metaclass variable' % loc(node))
                info = {'from': role[recv.id], 'to': role[to.id], 'node': node, 'var': node.targets[0].id}
                for p in ('many', 'conditional', 'phrase', 'rel_id'):
                    e = b.get(p)
                    info[self.add_link_field.get(p, p)] = e.id if isinstance(e, ast.Name) else (src(e) if e is not None else None)
                links[node.targets[0].id] = info
        if len(links) != 2:
            raise AnalysisError('%s: expected two add_link calls in define_association, found %d'
                                % (loc(fn), len(links)))
        # Association(...) call: which variable becomes .source_link / .target_link
        ass_call = None
        for node in ast.walk(fn):
            if isinstance(node, ast.Call) and dotted(node.func) == 'Association':
                ass_call = node
        if ass_call is None:
            raise AnalysisError('%s: define_association does not construct an Association' % loc(fn))
        ab = bind_call(ass_call, assoc_init)
        field_of_assoc_param = {}
        for node, env in pm.find('self._F = _P', assoc_init):
            if isinstance(env['_P'], ast.Name):
                field_of_assoc_param[env['_P'].id] = env['_F']
        self.links = {}
        self.keys = {}
        self.assoc_call = ass_call
        for ap, expr in ab.items():
            field = field_of_assoc_param.get(ap)
            if field in ('source_link', 'target_link'):
                if not (isinstance(expr, ast.Name) and expr.id in links):
                    raise AnalysisError('%s: Association.%s is not one of the created links' % (loc(ass_call), field))
                self.links[field] = links[expr.id]
            elif field in ('source_keys', 'target_keys', 'rel_id'):
                expr = strip_declared(resolve_locals(fn, expr)) if not isinstance(expr, ast.Name) or expr.id not in param_names(fn) else expr
                self.keys[field] = expr.id if isinstance(expr, ast.Name) else src(expr)
        if set(self.links) != {'source_link', 'target_link'}:
            raise AnalysisError('%s: Association(...) does not receive both links' % loc(ass_call))
        # key maps
        self.key_maps = {}
        nfn = repo.nfunc('xtuml.meta:MetaModel.define_association')     # normal form: one spelling of the dict building
        for node, env in pm.find('_L.key_map = _V', nfn):
            v = resolve_locals(nfn, env['_V'])
            m2 = pm.match('dict(zip(_A, _B))', v) or pm.match('dict(zip(_A, _B, strict=_S))', v)   # strictness does not change the pairs
            if m2 is None:
                continue
            env = dict(env, **m2)
            lv = env['_L']
            if isinstance(lv, ast.Name):
                for field, info in self.links.items():
                    if info['var'] == lv.id:
                        self.key_maps[field] = (src(strip_declared(env['_A'])), src(strip_declared(env['_B'])))

    def link_role(self, field, end):
        return self.links[field][end]

    def other(self, field):
        return 'target_link' if field == 'source_link' else 'source_link'


def link_op_call(node):
    '''<X>.source_link.connect(a, b, ...) -> (X_src, 'source_link', 'connect', call) or None'''
    if not isinstance(node, ast.Call) or not isinstance(node.func, ast.Attribute):
        return None
    if node.func.attr not in ('connect', 'disconnect'):
        return None
    recv = node.func.value
    if isinstance(recv, ast.Attribute) and recv.attr in ('source_link', 'target_link'):
        return (src(recv.value), recv.attr, node.func.attr, node)
    return None


# ---------------------------------------------------------------------------
# type-name dispatch: atoms that let absint.Interp decide comparisons of a (case-normalised) type-name parameter with
# string literals, whatever the spelling (== chains, `in` tuples / dict tables, a local holding the normalised name)
def type_name_atoms(P):
    '''state: 'type' (the canonical upper-case name given) and 'declared_case' (False: the caller spelled it lower-case)'''
    def cmp_lit(e, s, tr):
        a, b = e['_A'], e['_B']
        lit, other = (a, b) if isinstance(a, ast.Constant) else (b, a)
        if not (isinstance(lit, ast.Constant) and isinstance(lit.value, str)):
            return None
        if is_case_normalised(other) and isinstance(other.func.value, ast.Name) and other.func.value.id == P:
            n = other.func.attr
        elif isinstance(other, ast.Name) and other.id == P:
            n = None
        else:
            return None
        spelled = s['type'] if s.get('declared_case', True) else s['type'].lower()
        if n is None:
            return spelled == lit.value
        return getattr(spelled, n)() == lit.value

    def ne_lit(e, s, tr):
        r = cmp_lit(e, s, tr)
        return None if r is None else (not r)

    def in_lits(e, s, tr):
        lits = e['_L']
        if isinstance(lits, ast.Dict) and all(k is not None for k in lits.keys):
            elts = lits.keys
        elif isinstance(lits, (ast.Tuple, ast.List, ast.Set)):
            elts = lits.elts
        else:
            return None
        for x in elts:
            r_ = cmp_lit({'_A': e['_A'], '_B': x}, s, tr)
            if r_ is None:
                return None
            if r_:
                return True
        return False

    def not_in_lits(e, s, tr):
        r = in_lits(e, s, tr)
        return None if r is None else (not r)

    return [('_A == _B', cmp_lit), ('_A != _B', ne_lit), ('_A in _L', in_lits), ('_A not in _L', not_in_lits)], cmp_lit
