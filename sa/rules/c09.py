'''
C09 - Queries and navigations return exactly the matching instances in model order (thin structural clauses).

  C09-PIPE      apply_query_operators: every operator kind is applied to the running result and re-bound
  C09-FILTER    WhereEqual yields an instance iff every named value is equal (abstract table)
  C09-SIBLINGS  select_one / select_many / NavChain() / NavOneChain() apply the same pipeline; MetaModel delegates
  C09-ORDER     OrderBy is a stable sort on the attribute list, reversed exactly for reverse_order_by
  C09-NAV       navigate (direct and through an association class), chain stepping, subtype navigation, QuerySet.first/last
'''
import ast
import itertools

from ..src import AnalysisError, loc, src, dotted, call_attr, param_names, body_without_doc, walk_local
from .. import pm, absint
from .common import exception_class_name

M = 'xtuml.meta:'


def run(ctx):
    ctx.guard(pipe, ctx)
    ctx.guard(where_filter, ctx)
    ctx.guard(siblings, ctx)
    ctx.guard(order, ctx)
    ctx.guard(nav, ctx)
    from . import linkedset
    ctx.guard(linkedset.check, ctx, 'C09-SETS')
    from . import c10 as _c10
    ctx.shared(_c10.access, ctx)            # where-clauses and navigation read attributes through Class.__getattr__
    from . import c02 as _c02, c03 as _c03
    from .common import AssocModel as _AM
    ctx.shared(_c02.atomic, ctx, _AM(ctx.repo))    # a rejected relate / unrelate leaves both directions as they were: navigation stays the composition of the links
    ctx.shared(_c03.shared, ctx)            # filters on a shared referential attribute read it through the getter chain formalize installs
    ctx.assume('equality of a result with the relational evaluation of a concrete model state is a runtime quantity and is not decided')
    ctx.assume('OrderedSet behaves as an insertion-ordered set (C17, not claimed)')
    return ('Abstract tables of apply_query_operators (operator kind -> stage) and WhereEqual (per-component match flags -> yield); '
            'sibling comparison of the four query entry points; slot rules for OrderBy and the navigation helpers.')


def pipe(ctx):
    repo = ctx.repo
    r = ctx.rule('C09-PIPE', 'every query operator is applied to the running result', floor=5, oracle='property statement')
    fn = repo.func(M + 'apply_query_operators')
    it_p, ops_p = param_names(fn, skip_self=False)[:2]
    lp = [n for n in walk_local(fn) if isinstance(n, ast.For)]
    if len(lp) != 1 or src(lp[0].iter) != ops_p:
        raise AnalysisError('%s: operator loop not found' % loc(fn))
    def isinst(e, s, tr):
        x = e['_X']
        if not (isinstance(x, ast.Name) and x.id in ('OP1', 'OP2')):
            return None
        kind = s['kinds'][x.id]
        ts = e['_T'].elts if isinstance(e['_T'], ast.Tuple) else [e['_T']]
        if kind == 'callable':
            return False
        return any(src(t) == kind for t in ts)

    atoms = [('isinstance(_X, _T)', isinst)]
    it = absint.Interp(fn, atoms, iters=[(ops_p, lambda e, s, tr: [absint.Sym(ast.Name(id='OP1', ctx=ast.Load())),
                                                                    absint.Sym(ast.Name(id='OP2', ctx=ast.Load()))][:s['n']])])
    it.pure_calls = {'OP1', 'OP2', 'WhereEqual', 'filter'}
    it.skip = lambda st: isinstance(st, ast.Expr)
    loop_bound = set(x.id for x in ast.walk(lp[0].target) if isinstance(x, ast.Name)) | \
        set(t.id for n in ast.walk(lp[0]) if isinstance(n, ast.Assign) for t in n.targets if isinstance(t, ast.Name))
    for n in ast.walk(lp[0]):
        if isinstance(n, (ast.GeneratorExp, ast.Lambda)):
            used = set(x.id for x in ast.walk(n) if isinstance(x, ast.Name) and isinstance(x.ctx, ast.Load)) & (loop_bound - {it_p})
            r.check(not used, 'no lazily evaluated expression captures the loop variable', n, construct=M + 'apply_query_operators', key='late-binding',
                    msg='`%s` is evaluated lazily but refers to %s, which the operator loop rebinds: when the pipeline is finally consumed every stage '
                        'sees the LAST operator (late binding), so all but one filter are ignored' % (src(n)[:70], sorted(used)))

    def stage(kind, op, inner):
        return {'WhereEqual': '%s(%s)', 'OrderBy': '%s(%s)', 'dict': 'WhereEqual(%s)(%s)', 'callable': 'filter(%s, %s)'}[kind] % (op, inner)
    kinds = ['WhereEqual', 'OrderBy', 'dict', 'callable']
    _run = it.run

    def run0(state):
        o, t = _run(state)
        if o.kind == 'return' and o.value is not None:
            o = absint.Outcome('return', o.node, absint.strip0(o.value))
        return o, t
    it.run = run0
    out, tr = it.run({'n': 0, 'kinds': {}})
    r.check(out.kind == 'return' and out.value is not None and src(out.value) == it_p, 'no operator: the source is returned', fn,
            construct=M + 'apply_query_operators', key='return', msg='apply_query_operators without operators ends with %r' % out)
    for k1 in kinds:
        out, tr = it.run({'n': 1, 'kinds': {'OP1': k1}})
        w = stage(k1, 'OP1', it_p)
        r.check(out.kind == 'return' and out.value is not None and pm.match(w, out.value) is not None,
                'one operator of kind %s -> %s' % (k1, w), fn, construct=M + 'apply_query_operators', key='stage ' + k1,
                msg='a %s operator is applied as %s; expected the running result `%s`' % (k1, src(out.value) if out.value is not None else out, w))
        for k2 in kinds:
            out, tr = it.run({'n': 2, 'kinds': {'OP1': k1, 'OP2': k2}})
            w2 = stage(k2, 'OP2', stage(k1, 'OP1', it_p))
            r.check(out.kind == 'return' and out.value is not None and pm.match(w2, out.value) is not None,
                    'operators %s then %s -> %s' % (k1, k2, w2), fn, construct=M + 'apply_query_operators', key='chain',
                    msg='operators %s then %s give %s; every operator must be applied to the running result in argument order: `%s`'
                        % (k1, k2, src(out.value) if out.value is not None else out, w2))


def where_filter(ctx):
    repo = ctx.repo
    r = ctx.rule('C09-FILTER', 'WhereEqual yields exactly the instances whose named values all compare equal', floor=7, oracle='property statement')
    fn = repo.func(M + 'WhereEqual.__call__')
    Q = M + 'WhereEqual.__call__'
    outer = [n for n in fn.body if isinstance(n, ast.For)]
    if len(outer) != 1:
        raise AnalysisError('%s: instance loop not found' % loc(fn))
    o = outer[0]
    r.check(src(o.iter) in ('iter(s)', 's'), 'all instances of the source are visited in order', o, construct=Q, key='outer', msg='WhereEqual iterates %s' % src(o.iter))
    iv = o.target.id
    inn = o

    def mismatch(e, s, tr):
        return not s['env']['name'][0]

    # a raw copy of the value may sit in the instance dictionary (a referential attribute loaded from text); what counts is what getattr reads
    def raw_present(e, s, tr):
        return s.get('raw_present', False)

    def raw_cmp(neg_):
        def f(e, s, tr):
            tr.append('raw-read')
            m_ = s.get('raw_match', False)
            return (not m_) if neg_ else m_
        return f
    it = absint.Interp(fn, [('getattr(%s, name) != value' % iv, mismatch), ('getattr(%s, name) == value' % iv, lambda e, s, tr: s['env']['name'][0]),
                            ('name in %s.__dict__' % iv, raw_present), ('name not in %s.__dict__' % iv, lambda e, s, tr: not raw_present(e, s, tr)),
                            ('%s.__dict__[name] != value' % iv, raw_cmp(True)), ('%s.__dict__[name] == value' % iv, raw_cmp(False)),
                            ('%s.__dict__.get(name) != value' % iv, raw_cmp(True)), ('%s.__dict__.get(name) == value' % iv, raw_cmp(False))],
                       [('yield %s' % iv, lambda e, s, tr: tr.append('yield'))],
                       iters=[('iter(items)', lambda e, s, tr: [(m, i) for i, m in enumerate(s['matches'])]),
                              ('items', lambda e, s, tr: [(m, i) for i, m in enumerate(s['matches'])]),
                              ('self.items()', lambda e, s, tr: [(m, i) for i, m in enumerate(s['matches'])])])

    def bind(target, element, state):
        env = state.setdefault('env', {})
        env['name'] = element
        env['value'] = element
    it.bind = bind
    for matches in [m_ for n_ in (0, 1, 2) for m_ in itertools.product([True, False], repeat=n_)]:
        tr = []
        try:
            it.block(o.body, {'matches': list(matches)}, tr)
        except (absint._Continue, absint._Break):
            pass
        want = ['yield'] if all(matches) else []
        tr = [t_ for t_ in tr if t_ != 'raw-read']
        r.check(tr == want, 'components %s -> %s' % (list(matches), 'yield' if want else 'skip'), inn, construct=Q, key='where %s' % (matches,),
                msg='WhereEqual with component matches %s %s the instance' % (list(matches), 'drops' if want else 'yields'))
    for matches in ([True], [False], [True, True]):
        tr = []
        try:
            it.block(o.body, {'matches': list(matches), 'raw_present': True, 'raw_match': not all(matches)}, tr)
        except (absint._Continue, absint._Break):
            pass
        want = ['yield'] if all(matches) else []
        got_ = [t_ for t_ in tr if t_ != 'raw-read']
        r.check(got_ == want, 'a stale copy in the instance dictionary does not change the filter (components %s)' % list(matches), inn, construct=Q,
                key='where-raw %s' % (matches,),
                msg='WhereEqual compares the raw value stored in the instance dictionary instead of what the attribute reads as: with a stale stored '
                    'copy and component matches %s the instance is %s' % (list(matches), 'dropped' if want else 'yielded'))
    we = repo.func(M + 'where_eq')
    wcls = repo.cls(M + 'WhereEqual')
    plain_dict = [dotted(b) for b in wcls.bases] == ['dict'] and '__init__' not in repo.methods(wcls) and '__new__' not in repo.methods(wcls)
    spellings = ['return WhereEqual(kwargs)'] + (['return WhereEqual(**kwargs)', 'return WhereEqual(dict(kwargs))', 'return WhereEqual(kwargs.items())']
                                                if plain_dict else [])      # a dict subclass without a constructor of its own: all the same dictionary
    r.check(any(pm.contains(sp_, we) for sp_ in spellings), 'where_eq wraps its keywords', we, construct=M + 'where_eq', key='where_eq',
            msg='where_eq does not return WhereEqual(kwargs)')
    q = repo.func(M + 'MetaClass.query')
    r.check(pm.contains('return WhereEqual(_D)(self.storage)', q), 'MetaClass.query filters the pool in creation order', q, construct=M + 'MetaClass.query',
            key='query', msg='MetaClass.query is not WhereEqual(values)(self.storage)')


def siblings(ctx):
    repo = ctx.repo
    r = ctx.rule('C09-SIBLINGS', 'the query entry points share one pipeline', floor=8, oracle='sibling agreement')
    so = repo.func(M + 'MetaClass.select_one')
    sm = repo.func(M + 'MetaClass.select_many')
    # abstract execution: what is returned, in terms of the pipeline result
    PIPE = 'apply_query_operators(self.storage, args)'
    oi = absint.Interp(so, [])
    oi.pure_calls = {'apply_query_operators'}
    o1, _ = oi.run({})
    r.check(o1.kind == 'return' and o1.value is not None and pm.match('next(iter(%s), None)' % PIPE, o1.value) is not None,
            'select_one: pipeline over the pool, first element or None', so, construct=M + 'MetaClass.select_one', key='select_one',
            msg='select_one is not `next(iter(apply_query_operators(self.storage, args)), None)`')
    ok = True
    try:
        for is_qs in (True, False):
            mi = absint.Interp(sm, [('isinstance(_X, QuerySet)', lambda e, s, tr: s['qs'] if pm.match(PIPE, e['_X']) is not None else None)])
            mi.pure_calls = {'apply_query_operators', 'QuerySet'}
            o2, _ = mi.run({'qs': is_qs})
            want = PIPE if is_qs else 'QuerySet(%s)' % PIPE
            ok = ok and o2.kind == 'return' and o2.value is not None and pm.match(want, o2.value) is not None
    except AnalysisError:
        # a test the table does not know: decide on the returned values alone - whatever the path, select_many hands back the WHOLE
        # result of the pipeline over the pool (as it is, or wrapped in a QuerySet)
        once = {}
        for n_ in ast.walk(sm):
            if isinstance(n_, ast.Assign) and len(n_.targets) == 1 and isinstance(n_.targets[0], ast.Name):
                once.setdefault(n_.targets[0].id, []).append(n_.value)
        rets = [n_ for n_ in ast.walk(sm) if isinstance(n_, ast.Return)]
        if not rets:
            raise
        for rt in rets:
            v = rt.value
            if isinstance(v, ast.Call) and dotted(v.func) == 'QuerySet' and len(v.args) == 1 and not v.keywords:
                v = v.args[0]
            if isinstance(v, ast.Name) and len(once.get(v.id, [])) == 1:
                v = once[v.id][0]
            whole = v is not None and pm.match(PIPE, v) is not None
            r.check(whole, 'select_many returns the whole pipeline result', rt, construct=M + 'MetaClass.select_many', key='select_many-return',
                    msg='select_many has a path that returns `%s`, which is not the whole result of apply_query_operators(self.storage, args): '
                        'instances that satisfy all filters are left out (or others let in) on that path' % src(rt.value)[:100])
    r.check(ok,
            'select_many: same pipeline, wrapped in a QuerySet', sm, construct=M + 'MetaClass.select_many', key='select_many',
            msg='select_many is not `QuerySet(apply_query_operators(self.storage, args))`')
    nc = repo.func(M + 'NavChain.__call__')
    no = repo.func(M + 'NavOneChain.__call__')
    head = ['_H = self.handle or list()', '_H = apply_query_operators(_H, args)']
    r.check(pm.match_canon(head + ['if isinstance(_H, QuerySet):\n    return _H\nelse:\n    return QuerySet(_H)'], body_without_doc(nc)) is not None,
            'NavChain(): pipeline over the navigated handle, QuerySet', nc, construct=M + 'NavChain.__call__', key='navchain',
            msg='NavChain.__call__ does not apply the query pipeline to the navigated handle and wrap it in a QuerySet')
    r.check(pm.match_canon(head + ['return next(iter(_H), None)'], body_without_doc(no)) is not None,
            'NavOneChain(): same pipeline, first element or None', no, construct=M + 'NavOneChain.__call__', key='navonechain',
            msg='NavOneChain.__call__ does not apply the same pipeline and take the first element')
    for name in ('select_many', 'select_one'):
        fn = repo.func(M + 'MetaModel.' + name)
        r.check(pm.match_canon(['_M = self.find_metaclass(kind)', 'return _M.%s(*args)' % name], body_without_doc(fn)) is not None,
                'MetaModel.%s delegates unchanged' % name, fn, construct=M + 'MetaModel.' + name, key='delegate',
                msg='MetaModel.%s does not delegate to find_metaclass(kind).%s(*args)' % (name, name))
    mm = repo.cls(M + 'MetaModel')
    a = repo.assigns_in_class(mm)
    r.check('select_any' in a and src(a['select_any']) == 'select_one', 'select_any is select_one', mm, construct=M + 'MetaModel', key='alias',
            msg='MetaModel.select_any is no longer an alias of select_one')
    for fname, cls in (('navigate_any', 'NavOneChain'), ('navigate_many', 'NavChain')):
        fn = repo.func(M + fname)
        r.check(pm.contains('return %s(_X)' % cls, fn), '%s starts a %s' % (fname, cls), fn, construct=M + fname, key='start',
                msg='%s does not return %s(...)' % (fname, cls))
    fn = repo.func(M + 'navigate_one')
    r.check(pm.contains('return navigate_any(instance)', fn) or pm.contains('return NavOneChain(instance)', fn), 'navigate_one = navigate_any', fn,
            construct=M + 'navigate_one', key='start',
            msg='navigate_one does not delegate to navigate_any')


def order(ctx):
    repo = ctx.repo
    r = ctx.rule('C09-ORDER', 'ordering is a stable sort on the named attributes, reversed only on request', floor=5, oracle='property statement')
    fn = repo.func(M + 'OrderBy.__call__')
    ok = pm.match(['_K = lambda el: [getattr(el, name) for name in self]', 'return sorted(s, key=_K, reverse=self.reverse)'],
                  body_without_doc(fn)) is not None
    r.check(ok, 'sorted(source, key=[attribute values in the given order], reverse=self.reverse)', fn, construct=M + 'OrderBy.__call__', key='sort',
            msg='OrderBy.__call__ is not a `sorted` over the list of named attribute values with reverse=self.reverse')
    init = repo.func(M + 'OrderBy.__init__')
    r.check(pm.contains('list.__init__(self, attrs)', init) and pm.contains('self.reverse = reverse', init), 'OrderBy keeps the attribute list and the direction',
            init, construct=M + 'OrderBy.__init__', key='init', msg='OrderBy.__init__ does not store attrs / reverse')
    for fname, rev in (('order_by', 'False'), ('reverse_order_by', 'True')):
        f2 = repo.func(M + fname)
        r.check(pm.contains('return OrderBy(attrs, reverse=%s)' % rev, f2), '%s -> OrderBy(attrs, reverse=%s)' % (fname, rev), f2, construct=M + fname,
                key='direction', msg='%s does not construct OrderBy(attrs, reverse=%s)' % (fname, rev))
    ob = repo.cls(M + 'OrderBy')
    a = repo.assigns_in_class(ob)
    r.check('reverse' in a and src(a['reverse']) == 'False', 'ascending by default', ob, construct=M + 'OrderBy', key='default', msg='OrderBy.reverse default is not False')


def nav(ctx):
    repo = ctx.repo
    r = ctx.rule('C09-NAV', 'navigation: direct link or two hops through an association class, in encounter order without duplicates', floor=12,
                 oracle='property statement')
    fn = repo.func(M + 'MetaClass.navigate')
    Q = M + 'MetaClass.navigate'
    INST, KIND, REL, PHR = param_names(fn)[:4]
    KEY = '(%s.upper(), %s, %s)' % (KIND, REL, PHR)

    def direct(e, s, tr):
        return s['direct'] if pm.match(KEY, e['_K']) is not None else None

    def assoc_elems(e, s, tr):
        if pm.match('self._find_assoc_links(%s, %s, %s)[0]' % (KIND, REL, PHR), e['_L']) is not None and src(e['_I']) == INST:
            return [absint.Sym(ast.Name(id='A1', ctx=ast.Load())), absint.Sym(ast.Name(id='A2', ctx=ast.Load()))]
        return None

    def new_set(e, s, tr):
        s['acc'] = e['_S'].id
        return True

    def union(e, s, tr):
        if isinstance(e['_S'], ast.Name) and e['_S'].id == s.get('acc'):
            tr.append(('union', src(e['_V'])))
            return True
        if isinstance(e['_S'], ast.Name):
            # grown in place although it is not a set this function created (e.g. the live partner set of a link)
            tr.append(('alias-union', src(e['_S']), src(e['_V'])))
            return True
        return False

    def none_test(e, s, tr):
        x = absint.strip0(e['_X'])
        if isinstance(x, ast.Constant) and x.value is None:
            return True
        if isinstance(x, ast.Call):
            return False          # the result of a navigation is a collection, never None
        return None
    def add_one(e, s, tr):
        if isinstance(e['_S'], ast.Name) and e['_S'].id == s.get('acc'):
            tr.append(('add', src(e['_V'])))       # a single element (possibly None) instead of the union of the step's results
            return True
        return False
    it = absint.Interp(fn, [('_K in self.links', direct), ('_K not in self.links', lambda e, s, tr: (None if direct(e, s, tr) is None else not direct(e, s, tr))),
                            ('_X is None', none_test), ('_X is not None', lambda e, s, tr: (None if none_test(e, s, tr) is None else not none_test(e, s, tr)))],
                       [('_S = xtuml.OrderedSet()', new_set), ('_S = OrderedSet()', new_set), ('_S |= _V', union), ('_S.update(_V)', union),
                        ('_S.add(_V)', add_one)],
                       iters=[('_L.navigate(_I)', assoc_elems)])
    it.pure_calls = {'_find_assoc_links', 'navigate'}
    out, tr = it.run({'direct': True})
    ok1 = out.kind == 'return' and out.value is not None and pm.match('self.links[%s].navigate(%s)' % (KEY, INST), out.value) is not None
    st2 = {'direct': False}
    out2, tr2 = it.run(st2)
    hop2 = 'self._find_assoc_links(%s, %s, %s)[1].navigate(%%s)' % (KIND, REL, PHR)
    ok2 = out2.kind == 'return' and isinstance(out2.value, ast.Name) and out2.value.id == st2.get('acc') and \
        [t[1] for t in tr2 if t[0] == 'union'] == [src(ast.parse(hop2 % 'A1').body[0].value), src(ast.parse(hop2 % 'A2').body[0].value)]
    r.check(ok1 and ok2, 'direct link result, else ordered duplicate-free union over the association class instances', fn, construct=Q, key='navigate',
            msg='MetaClass.navigate is no longer: key lookup in self.links -> link.navigate(inst) (got %r); otherwise union (OrderedSet |=) of '
                'link2.navigate over link1.navigate(inst) (got %s, result %r)' % (out, tr2, out2))
    fa = repo.func(M + 'MetaClass._find_assoc_links')
    skip_tests = [n for n in ast.walk(fa) if isinstance(n, ast.If) and len(n.body) == 1 and isinstance(n.body[0], ast.Continue)]
    conds = set()
    for n in skip_tests:
        vals = n.test.values if isinstance(n.test, ast.BoolOp) and isinstance(n.test.op, ast.Or) else [n.test]
        conds |= set(src(v) for v in vals)
    ok = conds == {'link.rel_id != rel_id', 'link.phrase != phrase'} and \
        (pm.contains('return (link, metaclass.links[key])', fa) or pm.contains('return link, metaclass.links[key]', fa))
    r.check(bool(ok), 'the association class is found by association number and phrase, the second hop by the requested kind', fa,
            construct=M + 'MetaClass._find_assoc_links', key='assoc-links', msg='_find_assoc_links no longer matches rel_id and phrase and returns (link, second link)')
    raises = [n for n in ast.walk(fa) if isinstance(n, ast.Raise)]
    r.check(raises and all(exception_class_name(x) == 'UnknownLinkException' for x in raises), 'an unknown link is reported as UnknownLinkException', fa,
            construct=M + 'MetaClass._find_assoc_links', key='raise', msg='_find_assoc_links does not raise UnknownLinkException')
    nv = repo.func(M + 'NavChain._nav')
    H, K2, R2, P2 = param_names(nv, skip_self=False)[-4:]

    def handle_elems(e, s, tr):
        return [absint.Sym(ast.Name(id='I1', ctx=ast.Load())), absint.Sym(ast.Name(id='I2', ctx=ast.Load()))]

    def nav_elems(e, s, tr):
        tr.append(('nav', src(e['_M']), src(e['_I']), src(e['_K']), src(absint.strip0(e['_R'])), src(e['_P'])))
        return [absint.Sym(ast.Name(id='RES_' + src(e['_I']), ctx=ast.Load()))]
    # nothing may be filtered out of a step: a conditional inside the instance / result loops is a deviation in itself
    for lp_ in [n for n in ast.walk(nv) if isinstance(n, ast.For)]:
        for g_ in [n for n in ast.walk(lp_) if isinstance(n, (ast.If, ast.Break, ast.Continue))]:
            if isinstance(g_, ast.If):
                r.violation('NavChain._nav yields the results of a step only under `%s`: a step must hand on every result of every instance '
                            '(duplicates are removed by the consumer, by identity of the result)' % src(g_.test), g_, construct=M + 'NavChain._nav',
                            key='filtered-step')
    for isint in (True, False):
        it = absint.Interp(nv, [('isinstance(%s, int)' % R2, lambda e, s, tr: s['int'])],
                           [('yield _X', lambda e, s, tr: tr.append(('yield', src(e['_X']))))],
                           iters=[(H, handle_elems), ('iter(%s)' % H, handle_elems),
                                  ('_M.navigate(_I, _K, _R, _P)', nav_elems), ('_M.navigate(_I, _K, _R, phrase=_P)', nav_elems)])
        it.pure_calls = {'get_metaclass'}
        out, tr = it.run({'int': isint})
        rid = "'R%%d' %% %s" % R2 if isint else R2
        want = []
        for i in ('I1', 'I2'):
            want += [('nav', 'get_metaclass(%s)' % i, i, K2, rid, P2), ('yield', 'RES_' + i)]
        r.check(tr == want, 'a step yields the navigation results of every handle instance in order (%s association number)' % ('integer' if isint else 'named'),
                nv, construct=M + 'NavChain._nav', key='step' if not isint else 'relid',
                msg="NavChain._nav must yield get_metaclass(inst).navigate(inst, kind, <'R<n>' for an int rel_id>, phrase) for every instance of the handle "
                    'in order; it does %s' % tr)
    gi = repo.func(M + 'NavChain.__getitem__')
    ok = pm.match(["if not isinstance(args, tuple):\n    args = (args, '')", 'relid, phrase = args', 'return self.nav(self._kind, relid, phrase)'],
                  body_without_doc(gi)) is not None
    r.check(ok, 'chain[R] / chain[R, phrase] steps to the kind named before', gi, construct=M + 'NavChain.__getitem__', key='getitem',
            msg='NavChain.__getitem__ does not unpack (relid, phrase) and step with self._kind')
    ni = repo.func(M + 'NavChain.__init__')
    it = absint.Interp(ni, [('handle is None', lambda e, s, tr: s['h'] == 'none'), ('isinstance(handle, Class)', lambda e, s, tr: s['h'] == 'instance'),
                            ('isinstance(handle, collections.abc.Iterable)', lambda e, s, tr: s['h'] in ('set',))],
                       [('self.handle = _V', lambda e, s, tr: tr.append(('store', src(absint.strip0(e['_V']))))),
                        ('self._kind = None', lambda e, s, tr: True)])
    for h, want in (('none', ['[]', 'list()']), ('instance', ['[handle]']), ('set', ['handle'])):
        out, tr = it.run({'h': h})
        stored = [t[1] for t in tr if isinstance(t, tuple) and t[0] == 'store']
        ended = out.kind == 'falloff' or (out.kind == 'return' and (out.value is None or (isinstance(out.value, ast.Constant) and out.value.value is None)))
        r.check(len(stored) == 1 and stored[0] in want and ended, 'NavChain(%s) starts from %s' % (h, want[0]), ni,
                construct=M + 'NavChain.__init__', key='init ' + h, msg='NavChain(%s) stores %s, ends %r; expected %s' % (h, stored, out, want[0]))
    out, tr = it.run({'h': 'other'})
    r.check(out.kind == 'raise' and exception_class_name(out.node) == 'MetaException', 'a non-iterable handle is rejected with MetaException', ni,
            construct=M + 'NavChain.__init__', key='init other', msg='NavChain(<non iterable>) ends with %r' % out)
    ns = repo.func(M + 'navigate_subtype')
    SUP, RID = param_names(ns, skip_self=False)[:2]

    def links_of(e, s, tr):
        if pm.match('get_metaclass(%s).links' % SUP, e['_X']) is None:
            return None
        mk = lambda k, r_: absint.Sym((ast.Name(id=k, ctx=ast.Load()), ast.Name(id=r_, ctx=ast.Load()), ast.Name(id='_any', ctx=ast.Load())))
        return [mk('K1', 'OTHER'), mk('K2', 'SAME'), mk('K3', 'SAME')]

    def same_rel(e, s, tr):
        a_, b_ = src(e['_A']), src(e['_B'])
        other = b_ if a_ in (RID, s.get('rid', RID)) else (a_ if b_ in (RID, s.get('rid', RID)) else None)
        if other in ('OTHER', 'SAME'):
            return other == 'SAME'
        return None

    def nav_call(e, s, tr):
        k = src(e['_K'])
        tr.append(('nav', k, src(e['_R'])))
        return s['related'].get(k, False)
    ni = absint.Interp(ns, [('_A == _B', same_rel), ('_A != _B', lambda e, s, tr: (None if same_rel(e, s, tr) is None else not same_rel(e, s, tr))),
                            ('isinstance(%s, int)' % RID, lambda e, s, tr: False), ('not %s' % SUP, lambda e, s, tr: False), (SUP, lambda e, s, tr: True),
                            ('%s is None' % SUP, lambda e, s, tr: False),
                            ('navigate_one(%s).nav(_K, _R)()' % SUP, nav_call)],
                       iters=[('_X', links_of)])
    ni.pure_calls = {'get_metaclass'}
    ok = True
    try:
        for related, want_navs, want_ret in (({'K2': True, 'K3': True}, ['K2'], 'K2'), ({'K3': True}, ['K2', 'K3'], 'K3'), ({}, ['K2', 'K3'], None)):
            st_ = {'related': related}
            out, tr = ni.run(st_)
            navs = [t[1] for t in tr if t[0] == 'nav']
            if navs != want_navs or any(t[2] != RID for t in tr if t[0] == 'nav'):
                ok = False
            returned = out.kind == 'return' and out.value is not None and not (isinstance(out.value, ast.Constant) and out.value.value is None)
            if returned != (want_ret is not None):
                ok = False
    except AnalysisError:
        # shape fallback on the normal form
        nsn = repo.nfunc(M + 'navigate_subtype')
        ok = any(isinstance(n, ast.For) and pm.match('get_metaclass(%s).links' % SUP, n.iter) is not None for n in ast.walk(nsn)) and \
            pm.contains('navigate_one(%s).nav(_K, %s)()' % (SUP, RID), nsn)
    r.check(ok, 'subtype navigation tries every link of the given association and returns the first related instance', ns,
            construct=M + 'navigate_subtype', key='subtype', msg='navigate_subtype no longer scans the supertype links of rel_id for a related instance')
    qs = repo.cls(M + 'QuerySet')
    ms = repo.methods(qs)
    ok = pm.match_canon(['if len(self):\n    return next(iter(self))'], body_without_doc(ms['first'])) is not None and \
        pm.match_canon(['if len(self):\n    return next(reversed(self))'], body_without_doc(ms['last'])) is not None
    r.check(ok, 'QuerySet.first / last are the ends of the iteration order', qs, construct=M + 'QuerySet', key='first-last',
            msg='QuerySet.first/last are no longer next(iter(self)) / next(reversed(self))')
    ln = repo.func(M + 'Link.navigate_one')
    lnf = repo.nfunc(M + 'Link.navigate_one')
    P1 = param_names(lnf)[0]
    it1 = absint.Interp(lnf, [('%s in self' % P1, lambda e, s, tr: s['has']), ('%s not in self' % P1, lambda e, s, tr: not s['has'])])
    it1.pure_calls = {'navigate', 'next', 'iter'}
    ok1 = True
    for has in (True, False):
        o1, _t = it1.run({'has': has})
        v1 = absint.strip0(o1.value) if o1.kind == 'return' and o1.value is not None else None
        delegating = v1 is not None and pm.match('next(iter(self.navigate(%s)), None)' % P1, v1) is not None
        direct = v1 is not None and pm.match('next(iter(self[%s]), None)' % P1, v1) is not None
        nothing = o1.kind == 'falloff' or (o1.kind == 'return' and (o1.value is None or (isinstance(v1, ast.Constant) and v1.value is None)))
        ok1 = ok1 and (delegating or (direct if has else nothing))
    r.check(ok1, 'Link.navigate_one is the first partner or None', ln,
            construct=M + 'Link.navigate_one', key='navigate_one', msg='Link.navigate_one is not next(iter(self.navigate(instance)), None)')
