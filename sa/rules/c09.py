'''
C09 - Queries and navigations return exactly the matching instances in model order (thin structural clauses).

  C09-PIPE      apply_query_operators: every operator kind is applied to the running result and re-bound
  C09-FILTER    WhereEqual yields an instance iff every named value is equal (abstract table)
  C09-SIBLINGS  select_one / select_many / NavChain() / NavOneChain() apply the same pipeline; MetaModel delegates
  C09-ORDER     OrderBy is a stable sort on the attribute list, reversed exactly for reverse_order_by
  C09-NAV       navigate (direct and through an association class), chain stepping, subtype navigation, QuerySet.first/last
'''
import ast
import itertools

from ..src import AnalysisError, loc, src, dotted, call_attr, param_names, body_without_doc, walk_local
from .. import pm, absint
from .common import exception_class_name

M = 'xtuml.meta:'


def run(ctx):
    ctx.guard(pipe, ctx)
    ctx.guard(where_filter, ctx)
    ctx.guard(siblings, ctx)
    ctx.guard(order, ctx)
    ctx.guard(nav, ctx)
    ctx.assume('equality of a result with the relational evaluation of a concrete model state is a runtime quantity and is not decided')
    ctx.assume('OrderedSet behaves as an insertion-ordered set (C17, not claimed)')
    return ('Abstract tables of apply_query_operators (operator kind -> stage) and WhereEqual (per-component match flags -> yield); '
            'sibling comparison of the four query entry points; slot rules for OrderBy and the navigation helpers.')


def pipe(ctx):
    repo = ctx.repo
    r = ctx.rule('C09-PIPE', 'every query operator is applied to the running result', floor=5, oracle='property statement')
    fn = repo.func(M + 'apply_query_operators')
    it_p, ops_p = param_names(fn, skip_self=False)[:2]
    lp = [n for n in walk_local(fn) if isinstance(n, ast.For)]
    if len(lp) != 1 or src(lp[0].iter) != ops_p:
        raise AnalysisError('%s: operator loop not found' % loc(fn))
    def isinst(e, s, tr):
        x = e['_X']
        if not (isinstance(x, ast.Name) and x.id in ('OP1', 'OP2')):
            return None
        kind = s['kinds'][x.id]
        ts = e['_T'].elts if isinstance(e['_T'], ast.Tuple) else [e['_T']]
        if kind == 'callable':
            return False
        return any(src(t) == kind for t in ts)

    atoms = [('isinstance(_X, _T)', isinst)]
    it = absint.Interp(fn, atoms, iters=[(ops_p, lambda e, s, tr: [absint.Sym(ast.Name(id='OP1', ctx=ast.Load())),
                                                                    absint.Sym(ast.Name(id='OP2', ctx=ast.Load()))][:s['n']])])
    it.pure_calls = {'OP1', 'OP2', 'WhereEqual', 'filter'}
    it.skip = lambda st: isinstance(st, ast.Expr)
    loop_bound = set(x.id for x in ast.walk(lp[0].target) if isinstance(x, ast.Name)) | \
        set(t.id for n in ast.walk(lp[0]) if isinstance(n, ast.Assign) for t in n.targets if isinstance(t, ast.Name))
    for n in ast.walk(lp[0]):
        if isinstance(n, (ast.GeneratorExp, ast.Lambda)):
            used = set(x.id for x in ast.walk(n) if isinstance(x, ast.Name) and isinstance(x.ctx, ast.Load)) & (loop_bound - {it_p})
            r.check(not used, 'no lazily evaluated expression captures the loop variable', n, construct=M + 'apply_query_operators', key='late-binding',
                    msg='`%s` is evaluated lazily but refers to %s, which the operator loop rebinds: when the pipeline is finally consumed every stage '
                        'sees the LAST operator (late binding), so all but one filter are ignored' % (src(n)[:70], sorted(used)))

    def stage(kind, op, inner):
        return {'WhereEqual': '%s(%s)', 'OrderBy': '%s(%s)', 'dict': 'WhereEqual(%s)(%s)', 'callable': 'filter(%s, %s)'}[kind] % (op, inner)
    kinds = ['WhereEqual', 'OrderBy', 'dict', 'callable']
    out, tr = it.run({'n': 0, 'kinds': {}})
    r.check(out.kind == 'return' and out.value is not None and src(out.value) == it_p, 'no operator: the source is returned', fn,
            construct=M + 'apply_query_operators', key='return', msg='apply_query_operators without operators ends with %r' % out)
    for k1 in kinds:
        out, tr = it.run({'n': 1, 'kinds': {'OP1': k1}})
        w = stage(k1, 'OP1', it_p)
        r.check(out.kind == 'return' and out.value is not None and pm.match(w, out.value) is not None,
                'one operator of kind %s -> %s' % (k1, w), fn, construct=M + 'apply_query_operators', key='stage ' + k1,
                msg='a %s operator is applied as %s; expected the running result `%s`' % (k1, src(out.value) if out.value is not None else out, w))
        for k2 in kinds:
            out, tr = it.run({'n': 2, 'kinds': {'OP1': k1, 'OP2': k2}})
            w2 = stage(k2, 'OP2', stage(k1, 'OP1', it_p))
            r.check(out.kind == 'return' and out.value is not None and pm.match(w2, out.value) is not None,
                    'operators %s then %s -> %s' % (k1, k2, w2), fn, construct=M + 'apply_query_operators', key='chain',
                    msg='operators %s then %s give %s; every operator must be applied to the running result in argument order: `%s`'
                        % (k1, k2, src(out.value) if out.value is not None else out, w2))


def where_filter(ctx):
    repo = ctx.repo
    r = ctx.rule('C09-FILTER', 'WhereEqual yields exactly the instances whose named values all compare equal', floor=4, oracle='property statement')
    fn = repo.func(M + 'WhereEqual.__call__')
    Q = M + 'WhereEqual.__call__'
    outer = [n for n in fn.body if isinstance(n, ast.For)]
    if len(outer) != 1:
        raise AnalysisError('%s: instance loop not found' % loc(fn))
    o = outer[0]
    r.check(src(o.iter) in ('iter(s)', 's'), 'all instances of the source are visited in order', o, construct=Q, key='outer', msg='WhereEqual iterates %s' % src(o.iter))
    iv = o.target.id
    inner = [n for n in o.body if isinstance(n, ast.For)]
    if len(inner) != 1:
        raise AnalysisError('%s: item loop not found' % loc(fn))
    inn = inner[0]

    def mismatch(e, s, tr):
        return not s['env']['name'][0]

    it = absint.Interp(fn, [('getattr(%s, name) != value' % iv, mismatch), ('getattr(%s, name) == value' % iv, lambda e, s, tr: s['env']['name'][0])],
                       [('yield %s' % iv, lambda e, s, tr: tr.append('yield'))],
                       iters=[('iter(items)', lambda e, s, tr: [(m, i) for i, m in enumerate(s['matches'])]),
                              ('items', lambda e, s, tr: [(m, i) for i, m in enumerate(s['matches'])]),
                              ('self.items()', lambda e, s, tr: [(m, i) for i, m in enumerate(s['matches'])])])

    def bind(target, element, state):
        env = state.setdefault('env', {})
        env['name'] = element
        env['value'] = element
    it.bind = bind
    for matches in itertools.product([True, False], repeat=2):
        tr = []
        try:
            it.block([inn], {'matches': list(matches)}, tr)
        except (absint._Continue, absint._Break):
            pass
        want = ['yield'] if all(matches) else []
        r.check(tr == want, 'components %s -> %s' % (list(matches), 'yield' if want else 'skip'), inn, construct=Q, key='where %s' % (matches,),
                msg='WhereEqual with component matches %s %s the instance' % (list(matches), 'drops' if want else 'yields'))
    we = repo.func(M + 'where_eq')
    r.check(pm.contains('return WhereEqual(kwargs)', we), 'where_eq wraps its keywords', we, construct=M + 'where_eq', key='where_eq',
            msg='where_eq does not return WhereEqual(kwargs)')
    q = repo.func(M + 'MetaClass.query')
    r.check(pm.contains('return WhereEqual(_D)(self.storage)', q), 'MetaClass.query filters the pool in creation order', q, construct=M + 'MetaClass.query',
            key='query', msg='MetaClass.query is not WhereEqual(values)(self.storage)')


def siblings(ctx):
    repo = ctx.repo
    r = ctx.rule('C09-SIBLINGS', 'the query entry points share one pipeline', floor=8, oracle='sibling agreement')
    so = repo.func(M + 'MetaClass.select_one')
    sm = repo.func(M + 'MetaClass.select_many')
    r.check(pm.match_canon(['_S = apply_query_operators(self.storage, args)', 'return next(iter(_S), None)'], body_without_doc(so)) is not None,
            'select_one: pipeline over the pool, first element or None', so, construct=M + 'MetaClass.select_one', key='select_one',
            msg='select_one is not `next(iter(apply_query_operators(self.storage, args)), None)`')
    r.check(pm.match_canon(['_S = apply_query_operators(self.storage, args)',
                      'if isinstance(_S, QuerySet):\n    return _S\nelse:\n    return QuerySet(_S)'], body_without_doc(sm)) is not None,
            'select_many: same pipeline, wrapped in a QuerySet', sm, construct=M + 'MetaClass.select_many', key='select_many',
            msg='select_many is not `QuerySet(apply_query_operators(self.storage, args))`')
    nc = repo.func(M + 'NavChain.__call__')
    no = repo.func(M + 'NavOneChain.__call__')
    head = ['_H = self.handle or list()', '_H = apply_query_operators(_H, args)']
    r.check(pm.match_canon(head + ['if isinstance(_H, QuerySet):\n    return _H\nelse:\n    return QuerySet(_H)'], body_without_doc(nc)) is not None,
            'NavChain(): pipeline over the navigated handle, QuerySet', nc, construct=M + 'NavChain.__call__', key='navchain',
            msg='NavChain.__call__ does not apply the query pipeline to the navigated handle and wrap it in a QuerySet')
    r.check(pm.match_canon(head + ['return next(iter(_H), None)'], body_without_doc(no)) is not None,
            'NavOneChain(): same pipeline, first element or None', no, construct=M + 'NavOneChain.__call__', key='navonechain',
            msg='NavOneChain.__call__ does not apply the same pipeline and take the first element')
    for name in ('select_many', 'select_one'):
        fn = repo.func(M + 'MetaModel.' + name)
        r.check(pm.match_canon(['_M = self.find_metaclass(kind)', 'return _M.%s(*args)' % name], body_without_doc(fn)) is not None,
                'MetaModel.%s delegates unchanged' % name, fn, construct=M + 'MetaModel.' + name, key='delegate',
                msg='MetaModel.%s does not delegate to find_metaclass(kind).%s(*args)' % (name, name))
    mm = repo.cls(M + 'MetaModel')
    a = repo.assigns_in_class(mm)
    r.check('select_any' in a and src(a['select_any']) == 'select_one', 'select_any is select_one', mm, construct=M + 'MetaModel', key='alias',
            msg='MetaModel.select_any is no longer an alias of select_one')
    for fname, cls in (('navigate_any', 'NavOneChain'), ('navigate_many', 'NavChain')):
        fn = repo.func(M + fname)
        r.check(pm.contains('return %s(_X)' % cls, fn), '%s starts a %s' % (fname, cls), fn, construct=M + fname, key='start',
                msg='%s does not return %s(...)' % (fname, cls))
    fn = repo.func(M + 'navigate_one')
    r.check(pm.contains('return navigate_any(instance)', fn), 'navigate_one = navigate_any', fn, construct=M + 'navigate_one', key='start',
            msg='navigate_one does not delegate to navigate_any')


def order(ctx):
    repo = ctx.repo
    r = ctx.rule('C09-ORDER', 'ordering is a stable sort on the named attributes, reversed only on request', floor=5, oracle='property statement')
    fn = repo.func(M + 'OrderBy.__call__')
    ok = pm.match(['_K = lambda el: [getattr(el, name) for name in self]', 'return sorted(s, key=_K, reverse=self.reverse)'],
                  body_without_doc(fn)) is not None
    r.check(ok, 'sorted(source, key=[attribute values in the given order], reverse=self.reverse)', fn, construct=M + 'OrderBy.__call__', key='sort',
            msg='OrderBy.__call__ is not a `sorted` over the list of named attribute values with reverse=self.reverse')
    init = repo.func(M + 'OrderBy.__init__')
    r.check(pm.contains('list.__init__(self, attrs)', init) and pm.contains('self.reverse = reverse', init), 'OrderBy keeps the attribute list and the direction',
            init, construct=M + 'OrderBy.__init__', key='init', msg='OrderBy.__init__ does not store attrs / reverse')
    for fname, rev in (('order_by', 'False'), ('reverse_order_by', 'True')):
        f2 = repo.func(M + fname)
        r.check(pm.contains('return OrderBy(attrs, reverse=%s)' % rev, f2), '%s -> OrderBy(attrs, reverse=%s)' % (fname, rev), f2, construct=M + fname,
                key='direction', msg='%s does not construct OrderBy(attrs, reverse=%s)' % (fname, rev))
    ob = repo.cls(M + 'OrderBy')
    a = repo.assigns_in_class(ob)
    r.check('reverse' in a and src(a['reverse']) == 'False', 'ascending by default', ob, construct=M + 'OrderBy', key='default', msg='OrderBy.reverse default is not False')


def nav(ctx):
    repo = ctx.repo
    r = ctx.rule('C09-NAV', 'navigation: direct link or two hops through an association class, in encounter order without duplicates', floor=12,
                 oracle='property statement')
    fn = repo.func(M + 'MetaClass.navigate')
    Q = M + 'MetaClass.navigate'
    body = body_without_doc(fn)
    ok = pm.match(['_K = (kind.upper(), rel_id, phrase)',
                   'if _K in self.links:\n    _L = self.links[_K]\n    return _L.navigate(inst)',
                   '_L1, _L2 = self._find_assoc_links(kind, rel_id, phrase)',
                   '_S = xtuml.OrderedSet()',
                   'for inst in _L1.navigate(inst):\n    _S |= _L2.navigate(inst)',
                   'return _S'], body) is not None
    r.check(ok, 'direct link result, else ordered duplicate-free union over the association class instances', fn, construct=Q, key='navigate',
            msg='MetaClass.navigate is no longer: key lookup in self.links -> link.navigate(inst); otherwise union (OrderedSet |=) of '
                'link2.navigate over link1.navigate(inst)')
    fa = repo.func(M + 'MetaClass._find_assoc_links')
    skip_tests = [n for n in ast.walk(fa) if isinstance(n, ast.If) and len(n.body) == 1 and isinstance(n.body[0], ast.Continue)]
    conds = set()
    for n in skip_tests:
        vals = n.test.values if isinstance(n.test, ast.BoolOp) and isinstance(n.test.op, ast.Or) else [n.test]
        conds |= set(src(v) for v in vals)
    ok = conds == {'link.rel_id != rel_id', 'link.phrase != phrase'} and \
        (pm.contains('return (link, metaclass.links[key])', fa) or pm.contains('return link, metaclass.links[key]', fa))
    r.check(bool(ok), 'the association class is found by association number and phrase, the second hop by the requested kind', fa,
            construct=M + 'MetaClass._find_assoc_links', key='assoc-links', msg='_find_assoc_links no longer matches rel_id and phrase and returns (link, second link)')
    raises = [n for n in ast.walk(fa) if isinstance(n, ast.Raise)]
    r.check(raises and all(exception_class_name(x) == 'UnknownLinkException' for x in raises), 'an unknown link is reported as UnknownLinkException', fa,
            construct=M + 'MetaClass._find_assoc_links', key='raise', msg='_find_assoc_links does not raise UnknownLinkException')
    nv = repo.func(M + 'NavChain._nav')
    ok = any(isinstance(n, ast.For) and src(n.iter) in ('iter(handle)', 'handle') and
             any(isinstance(m, ast.For) and src(m.iter) == 'metaclass.navigate(inst, kind, rel_id, phrase)' and
                 pm.match(['yield %s' % m.target.id], m.body) is not None for m in n.body) for n in ast.walk(nv))
    r.check(ok, 'a step yields the navigation results of every handle instance in order', nv, construct=M + 'NavChain._nav', key='step',
            msg='NavChain._nav does not yield metaclass.navigate(inst, kind, rel_id, phrase) for every instance of the handle in order')
    r.check(pm.contains("if isinstance(rel_id, int):\n    rel_id = 'R%d' % rel_id", nv), 'integer association numbers are normalised', nv,
            construct=M + 'NavChain._nav', key='relid', msg="NavChain._nav does not normalise an int rel_id to 'R<n>'")
    gi = repo.func(M + 'NavChain.__getitem__')
    ok = pm.match(["if not isinstance(args, tuple):\n    args = (args, '')", 'relid, phrase = args', 'return self.nav(self._kind, relid, phrase)'],
                  body_without_doc(gi)) is not None
    r.check(ok, 'chain[R] / chain[R, phrase] steps to the kind named before', gi, construct=M + 'NavChain.__getitem__', key='getitem',
            msg='NavChain.__getitem__ does not unpack (relid, phrase) and step with self._kind')
    ni = repo.func(M + 'NavChain.__init__')
    it = absint.Interp(ni, [('handle is None', lambda e, s, tr: s['h'] == 'none'), ('isinstance(handle, Class)', lambda e, s, tr: s['h'] == 'instance'),
                            ('isinstance(handle, collections.abc.Iterable)', lambda e, s, tr: s['h'] in ('set',))],
                       [('handle = _V', lambda e, s, tr: tr.append(src(e['_V']))), ('self.handle = handle', lambda e, s, tr: tr.append('store')),
                        ('self._kind = None', lambda e, s, tr: True)])
    for h, want in (('none', ['[]', 'store']), ('instance', ['[handle]', 'store']), ('set', ['store'])):
        out, tr = it.run({'h': h})
        r.check(tr == want and out.kind == 'falloff', 'NavChain(%s) starts from %s' % (h, want[0] if len(want) > 1 else 'the given collection'), ni,
                construct=M + 'NavChain.__init__', key='init ' + h, msg='NavChain(%s): %s, ends %r' % (h, tr, out))
    out, tr = it.run({'h': 'other'})
    r.check(out.kind == 'raise' and exception_class_name(out.node) == 'MetaException', 'a non-iterable handle is rejected with MetaException', ni,
            construct=M + 'NavChain.__init__', key='init other', msg='NavChain(<non iterable>) ends with %r' % out)
    ns = repo.func(M + 'navigate_subtype')
    ok = any(isinstance(n, ast.For) and src(n.iter) == 'metaclass.links' for n in ast.walk(ns)) and \
        pm.contains('_S = navigate_one(supertype).nav(kind, rel_id)()', ns) and \
        any(isinstance(n, ast.If) and src(n.test) == 'rel_id != rel_id_candidate' for n in ast.walk(ns))
    r.check(ok, 'subtype navigation tries every link of the given association and returns the first related instance', ns,
            construct=M + 'navigate_subtype', key='subtype', msg='navigate_subtype no longer scans the supertype links of rel_id for a related instance')
    qs = repo.cls(M + 'QuerySet')
    ms = repo.methods(qs)
    ok = pm.match_canon(['if len(self):\n    return next(iter(self))'], body_without_doc(ms['first'])) is not None and \
        pm.match_canon(['if len(self):\n    return next(reversed(self))'], body_without_doc(ms['last'])) is not None
    r.check(ok, 'QuerySet.first / last are the ends of the iteration order', qs, construct=M + 'QuerySet', key='first-last',
            msg='QuerySet.first/last are no longer next(iter(self)) / next(reversed(self))')
    ln = repo.func(M + 'Link.navigate_one')
    r.check(pm.contains('return next(iter(self.navigate(instance)), None)', ln), 'Link.navigate_one is the first partner or None', ln,
            construct=M + 'Link.navigate_one', key='navigate_one', msg='Link.navigate_one is not next(iter(self.navigate(instance)), None)')
