'''
C13 - OAL parsing is total and its source positions are exact.

  C13-TIME    no OAL token regex is exponentially ambiguous
  C13-TOTAL   p_error raises ParseException on every path, t_error skips >= 1 character and never raises,
              every explicit raise in oal.py is ParseException
  C13-ENDPOS  every returning token rule sets endlexpos = lexpos + len(value)
  C13-LINENO  every token rule whose regex can match a newline counts its newlines
  C13-TRACK   every production that constructs a Node is decorated with track_production; slot table of
              set_positional_info / find_column / track_production; parse() enables position tracking
'''
import ast

from ..src import AnalysisError, loc, src, dotted, call_attr, param_names, walk_local, body_without_doc
from .. import pm, cfg as cfgmod
from .common import exception_class_name
from . import lexrules

CLS = 'bridgepoint.oal:OALParser'


# ply.yacc.LRParser.parse(self, input=None, lexer=None, debug=False, tracking=False, tokenfunc=None)
PLY_PARSE_PARAMS = ('input', 'lexer', 'debug', 'tracking', 'tokenfunc')


def run(ctx):
    ctx.guard(lexrules.time_rule, ctx, 'C13-TIME', CLS, floor=30)
    ctx.guard(total, ctx)
    ctx.guard(fresh_lexer, ctx)
    ctx.guard(lexrules.endpos_rule, ctx, 'C13-ENDPOS', CLS, floor=30)
    ctx.guard(lexrules.lineno_rule, ctx, 'C13-LINENO', CLS, floor=30)
    ctx.guard(track, ctx)
    ctx.guard(converters, ctx)
    from . import c07 as _c07
    ctx.shared(_c07.node_ctors, ctx, lexrules.grammar_of(ctx.repo, CLS))   # nodes of different parses share nothing (positions, children)
    ctx.assume('ply.yacc (LALR, linear time) and ply.lex (one master regex per input position) behave as documented; '
               'yacc tracking=1 propagates lexpos/endlexpos/lineno of the first/last symbol to non-terminals')
    ctx.assume('positions of nodes built by empty productions are not decided')
    return ('Exact exponential-ambiguity analysis of all %d OAL token regexes on their automata; all-paths analysis of '
            'p_error/t_error and of every token rule (endlexpos, newline counting decided from whether the regex '
            'automaton can consume a newline); decorator coverage of every Node-constructing production; slot table of '
            'the position bookkeeping.' % len(lexrules.grammar_of(ctx.repo, CLS).token_rules))


def fresh_lexer(ctx):
    """positions are counted by the lexer object (lineno, lexpos); every parse starts counting at line 1 because it gets a lexer of its own -
    or, if a lexer is kept, because its line counter is reset BEFORE the text is parsed (a reset after the parse is skipped when the
    parse raises)"""
    repo = ctx.repo
    r = ctx.rule('C13-FRESHLEX', 'every parse starts with a lexer whose line counter is 1', floor=1, oracle='ply: a lexer object carries lineno across inputs')
    fn = repo.func(CLS + '.text_input')
    calls = [n for n in ast.walk(fn) if isinstance(n, ast.Call) and isinstance(n.func, ast.Attribute) and n.func.attr == 'parse']
    if not calls:
        raise AnalysisError('%s: text_input no longer calls <parser>.parse' % loc(fn))
    for c in calls:
        lx = None
        for k in c.keywords:
            if k.arg == 'lexer':
                lx = k.value
        if lx is None and len(c.args) >= 2:
            lx = c.args[1]
        if lx is None:
            r.violation('text_input parses without handing a lexer of its own to the parser (ply then uses the last lexer built anywhere, with '
                        'whatever line count it has reached)', c, construct=CLS + '.text_input', key='no-lexer')
            continue
        made_here = isinstance(lx, ast.Call) and dotted(lx.func) in ('lex.lex', 'ply.lex.lex') or (
            isinstance(lx, ast.Name) and any(isinstance(a, ast.Assign) and any(isinstance(t, ast.Name) and t.id == lx.id for t in a.targets) and
                                             isinstance(a.value, ast.Call) and dotted(a.value.func) in ('lex.lex', 'ply.lex.lex') and a.lineno < c.lineno
                                             for a in ast.walk(fn)))
        cloned = isinstance(lx, ast.Call) and isinstance(lx.func, ast.Attribute) and lx.func.attr == 'clone' or (
            isinstance(lx, ast.Name) and any(isinstance(a, ast.Assign) and any(isinstance(t, ast.Name) and t.id == lx.id for t in a.targets) and
                                             isinstance(a.value, ast.Call) and isinstance(a.value.func, ast.Attribute) and a.value.func.attr == 'clone'
                                             for a in ast.walk(fn)))
        reset_before = any(isinstance(a, ast.Assign) and any(src(t) == src(lx) + '.lineno' for t in a.targets) and isinstance(a.value, ast.Constant) and
                           a.value.value == 1 and a.lineno < c.lineno for a in fn.body)
        r.check(made_here or reset_before, 'text_input parses with a lexer built for this call (or reset to line 1 before parsing)', c,
                construct=CLS + '.text_input', key='lexer-state',
                msg='text_input parses with the lexer `%s`, which outlives the call%s, and does not set its line counter to 1 before parsing: after a text '
                    'that was rejected (the parse raised) or that simply had several lines, the positions of the next text are shifted'
                    % (src(lx), ' (a clone keeps the line count of its origin)' if cloned else ''))


def total(ctx):
    repo = ctx.repo
    r = ctx.rule('C13-TOTAL', 'parse errors surface as ParseException only; illegal characters are skipped', floor=4,
                 oracle='property statement')
    g = lexrules.grammar_of(repo, CLS)
    if g.p_error is None or g.t_error is None:
        raise AnalysisError('OALParser.p_error / t_error missing')
    c = cfgmod.build(g.p_error)
    paths = c.paths(follow_exc=False)
    ok = paths and all(p[-1][0].kind == 'raise' for p in paths)
    r.check(ok, 'p_error raises on every path (%d paths)' % len(paths), g.p_error, construct=CLS + '.p_error',
            key='p_error-raises', msg='p_error can return normally: ply would resynchronise and return a tree for malformed text')
    _none_guard(r, g.p_error, CLS + '.p_error')
    for n in ast.walk(g.p_error):
        if isinstance(n, ast.Raise):
            r.check(exception_class_name(n) == 'ParseException', 'p_error raises ParseException', n,
                    construct=CLS + '.p_error', key='p_error-class',
                    msg='p_error raises %s, not ParseException' % exception_class_name(n))
    # t_error: skip(k) with k>=1 on every path, no raise
    tp = param_names(g.t_error)[0]
    c = cfgmod.build(g.t_error)
    paths = c.paths(follow_exc=False)
    ok = bool(paths)
    for p in paths:
        if p[-1][0].kind == 'raise':
            ok = False
        skipped = False
        for n, _ in p:
            if n.kind == 'stmt':
                m = pm.match('%s.lexer.skip(_K)' % tp, n.ast)
                if m and isinstance(m['_K'], ast.Constant) and isinstance(m['_K'].value, int) and m['_K'].value >= 1:
                    skipped = True
        ok = ok and skipped
    r.check(ok, 't_error skips at least one character on every path and never raises', g.t_error, construct=CLS + '.t_error',
            key='t_error-skip', msg='t_error does not advance the lexer by >= 1 on every path (non-termination) or raises '
                                    'something other than the parse exception')
    mod = repo.module('bridgepoint.oal')
    for n in ast.walk(mod.tree):
        if isinstance(n, ast.Raise):
            name = exception_class_name(n)
            r.check(name == 'ParseException', 'explicit raise of ParseException', n, construct='bridgepoint.oal', key='raise ' + str(name),
                    msg='bridgepoint/oal.py raises %s; the only documented parse failure is ParseException' % name)
    pe = repo.cls('bridgepoint.oal:ParseException')
    r.check([dotted(b) for b in pe.bases] == ['Exception'], 'ParseException derives from Exception', pe,
            construct='bridgepoint.oal:ParseException', key='base', msg='ParseException no longer derives from Exception')
    # parse() goes through text_input with tracking enabled
    ti = repo.func(CLS + '.text_input')
    ok = False
    for n in ast.walk(ti):
        if isinstance(n, ast.Call) and call_attr(n) == 'parse':
            kw = {k.arg: k.value for k in n.keywords}
            kw.update(dict(zip(PLY_PARSE_PARAMS, n.args)))
            if 'tracking' in kw and isinstance(kw['tracking'], ast.Constant) and kw['tracking'].value:
                ok = True
    r.check(ok, 'text_input parses with tracking enabled', ti, construct=CLS + '.text_input', key='tracking',
            msg='text_input no longer passes tracking=1 to the parser: non-terminal spans are not propagated')
    # text_input feeds the parser the text it was given (value flow of the input= argument)
    from .common import resolve_locals
    tin = repo.nfunc(CLS + '.text_input')
    tpar = param_names(tin)[0]
    fed = []
    for n in ast.walk(tin):
        if isinstance(n, ast.Call) and call_attr(n) in ('parse', 'input'):
            for k in n.keywords:
                if k.arg == 'input':
                    fed.append(resolve_locals(tin, k.value, pure_only=False))
            if n.args and not isinstance(n.args[0], ast.Starred):       # ply: LRParser.parse(input, lexer, ...) / Lexer.input(s)
                fed.append(resolve_locals(tin, n.args[0], pure_only=False))
    r.check(bool(fed) and all(isinstance(x, ast.Name) and x.id == tpar for x in fed), 'text_input hands its text to the parser unmodified', tin,
            construct=CLS + '.text_input', key='input-unmodified',
            msg='text_input feeds the parser `%s` instead of the text it was given: offsets and the recorded source substring then refer to a '
                'rewritten copy of the input' % (src(fed[0])[:60] if fed else 'nothing'))
    pf = repo.func('bridgepoint.oal:parse')
    tp_ = param_names(pf, skip_self=False)[0]
    rebound = [n for n in ast.walk(pf) if isinstance(n, (ast.Assign, ast.AugAssign)) and
               any(isinstance(t, ast.Name) and t.id == tp_ for t in (n.targets if isinstance(n, ast.Assign) else [n.target]))]
    fwd = [n for n in ast.walk(pf) if isinstance(n, ast.Call) and call_attr(n) == 'text_input' and n.args and
           src(n.args[0]) in (tp_, "%s + '\\n'" % tp_)]
    r.check(not rebound and bool(fwd), 'parse() hands the given text to the lexer unmodified (only a final newline is appended)', pf,
            construct='bridgepoint.oal:parse', key='text-unmodified',
            msg='parse() rewrites its text before lexing (%s): offsets, columns and the recorded source substring then refer to a different text '
                'than the one given' % (src(rebound[0])[:60] if rebound else 'argument of text_input is not the parameter'))
    r.check(any(isinstance(n, ast.Call) and call_attr(n) == 'text_input' for n in ast.walk(pf)),
            'parse() delegates to OALParser.text_input', pf, construct='bridgepoint.oal:parse', key='delegate',
            msg='parse() no longer calls text_input')


PARTIAL_CONVERTERS = {'int', 'float', 'complex', 'chr', 'ord', 'eval', 'uuid.UUID', 'UUID', 'ast.literal_eval', 'literal_eval', 'json.loads',
                      'datetime.strptime', 'datetime.datetime.strptime', 'Decimal', 'decimal.Decimal', 'Fraction', 'fractions.Fraction'}
PARTIAL_METHODS = {'index', 'rindex'}


def _partial_calls(fn):
    '''calls in fn (nested defs included) that can raise a built-in error for some text and are not inside a try that catches it'''
    out = []
    for n in ast.walk(fn):
        if not isinstance(n, ast.Call):
            continue
        d = dotted(n.func)
        hit = None
        if d in PARTIAL_CONVERTERS and n.args and not all(isinstance(a, ast.Constant) for a in n.args):
            hit = d
        elif isinstance(n.func, ast.Attribute) and n.func.attr in PARTIAL_METHODS and n.args and \
                not isinstance(n.func.value, ast.Constant):
            hit = '.' + n.func.attr
        if hit is None:
            continue
        cur, guarded = n, False
        while getattr(cur, '_parent', None) is not None and cur is not fn:
            par = cur._parent
            if isinstance(par, ast.Try) and cur in par.body and par.handlers:
                guarded = True
            cur = par
        if not guarded:
            out.append((n, hit))
    return out


def converters(ctx):
    '''totality: nothing that runs while a text is parsed (token functions, grammar actions, the position wrapper, Node constructors and what
    they call inside oal.py) applies a partial converter to lexeme text outside a try: the token regexes admit spellings (1.5f, 2.L) the
    converters of Python reject, and the built-in error would escape instead of the parse exception'''
    repo = ctx.repo
    r = ctx.rule('C13-CONVERT', 'no partial converter (int, float, ...) is applied to token text while parsing', floor=150,
                 oracle='property statement: parsing returns a tree or raises the parse exception')
    mod = repo.module('bridgepoint.oal')
    classes = {c.name: c for c in repo.classes('bridgepoint.oal')}
    funcs = {n.name: n for n in mod.tree.body if isinstance(n, ast.FunctionDef)}
    parser = repo.cls(CLS)
    work = []
    for m in parser.body:
        if isinstance(m, ast.FunctionDef) and (m.name.startswith(('p_', 't_')) or m.name in ('text_input', '__init__')):
            work.append((CLS + '.' + m.name, m, parser))
    for name in ('parse', 'track_production'):
        if name in funcs:
            work.append(('bridgepoint.oal:' + name, funcs[name], None))
    seen = set()

    def init_of(c):
        cur = c
        hops = 0
        while cur is not None and hops < 8:
            for m in cur.body:
                if isinstance(m, ast.FunctionDef) and m.name == '__init__':
                    return cur, m
            nxt = None
            for b in cur.bases:
                if dotted(b) in classes:
                    nxt = classes[dotted(b)]
                    break
            cur = nxt
            hops += 1
        return None, None
    n_fn = 0
    while work:
        q, fn, cls = work.pop()
        if q in seen:
            continue
        seen.add(q)
        n_fn += 1
        bad = _partial_calls(fn)
        r.check(not bad, '%s applies no unguarded partial converter' % q.split(':')[-1], bad[0][0] if bad else fn, construct=q, key='convert',
                msg='%s applies %s to `%s` while the text is being parsed: for lexemes the token regex accepts but the converter rejects (e.g. a real '
                    'literal with an f/L suffix) a built-in ValueError escapes instead of ParseException'
                    % (q, bad[0][1] if bad else '', src(bad[0][0].args[0])[:40] if bad and bad[0][0].args else ''))
        for c in ast.walk(fn):
            if not isinstance(c, ast.Call):
                continue
            d = dotted(c.func)
            if d in classes:
                oc, init = init_of(classes[d])
                if init is not None:
                    work.append(('bridgepoint.oal:%s.__init__' % oc.name, init, oc))
            elif d in funcs:
                work.append(('bridgepoint.oal:' + d, funcs[d], None))
            elif isinstance(c.func, ast.Attribute) and isinstance(c.func.value, ast.Name) and c.func.value.id == 'self' and cls is not None:
                for m in cls.body:
                    if isinstance(m, ast.FunctionDef) and m.name == c.func.attr:
                        work.append(('bridgepoint.oal:%s.%s' % (cls.name, m.name), m, cls))
            elif isinstance(c.func, ast.Attribute) and c.func.attr == '__init__' and dotted(c.func.value) in classes:
                oc, init = init_of(classes[dotted(c.func.value)])
                if init is not None:
                    work.append(('bridgepoint.oal:%s.__init__' % oc.name, init, oc))
    # the detector must recognise the form it forbids (the expected count on the tree is zero)
    probe = ast.parse('def __init__(self, value):\n    self.value = str(float(value))\n').body[0]
    for x in ast.walk(probe):
        for ch in ast.iter_child_nodes(x):
            ch._parent = x
    r.check(len(_partial_calls(probe)) == 1, 'detector self-test: float(<text>) in a constructor is recognised', fn, construct='C13-CONVERT:probe',
            key='probe', msg='the converter detector no longer recognises its positive example')


def _none_guard(r, fn, qual):
    '''ply calls p_error(None) at end of input: every dereference of the parameter must sit inside `if p:`'''
    p = param_names(fn)[0]
    bad = []
    for n in ast.walk(fn):
        if isinstance(n, ast.Attribute) and isinstance(n.value, ast.Name) and n.value.id == p:
            cur = n
            guarded = False
            while cur is not fn:
                par = cur._parent
                if isinstance(par, ast.If) and cur in par.body and src(par.test) in (p, '%s is not None' % p):
                    guarded = True
                if isinstance(par, ast.If) and cur in par.orelse and src(par.test) in ('not %s' % p, '%s is None' % p):
                    guarded = True
                cur = par
            if not guarded:
                bad.append(n)
    r.check(not bad, '%s dereferences its token only where it is known not to be None' % qual.split('.')[-1], bad[0] if bad else fn, construct=qual,
            key='none-deref', msg='%s: `%s` is evaluated outside `if %s:`; ply passes None at end of input (truncated text), so an '
                                  'AttributeError escapes instead of the parse exception' % (qual, src(bad[0]) if bad else '', p))


def _node_classes(repo):
    mod = repo.module('bridgepoint.oal')
    names = set()
    changed = True
    classes = {c.name: c for c in repo.classes('bridgepoint.oal')}
    names.add('Node')
    while changed:
        changed = False
        for c in classes.values():
            if c.name in names:
                continue
            if any(dotted(b) in names for b in c.bases):
                names.add(c.name)
                changed = True
    return names


def track(ctx):
    repo = ctx.repo
    r = ctx.rule('C13-TRACK', 'Node-constructing productions are position-tracked; slot table of the position bookkeeping',
                 floor=80, oracle='property statement + ply lexspan/linespan contract')
    g = lexrules.grammar_of(repo, CLS)
    nodes = _node_classes(repo)
    seen = set()
    for p in g.productions:
        fn = p.fn
        if fn.name in seen:
            continue
        seen.add(fn.name)
        constructs = []
        for n in ast.walk(fn):
            if isinstance(n, ast.Assign) and pm.match('p[0]', n.targets[0]) is not None and isinstance(n.value, ast.Call) \
                    and dotted(n.value.func) in nodes:
                constructs.append(dotted(n.value.func))
        if not constructs:
            continue
        decorated = any(dotted(d) == 'track_production' for d in fn.decorator_list)
        r.check(decorated, '%s constructs %s and is position-tracked' % (fn.name, '/'.join(sorted(set(constructs)))), fn,
                construct=CLS + '.' + fn.name, key='undecorated',
                msg='%s constructs %s but is not decorated with @track_production: the node has no position / source text'
                    % (fn.name, '/'.join(sorted(set(constructs)))))
    # slot table of set_positional_info
    spi = repo.func('bridgepoint.oal:set_positional_info')
    NP, PP = param_names(spi, skip_self=False)[:2]
    Q = 'bridgepoint.oal:set_positional_info'
    # abstract execution with a symbolic Position object: what each field finally holds, in terms of the production `p`
    from .. import absint, normal

    def is_pos(x, s):
        return (isinstance(x, ast.Name) and s.get('env', {}).get(x.id) == 'POS') or src(x) == '%s.position' % NP

    def resolve(v, s):
        class R(ast.NodeTransformer):
            def visit_Attribute(s2, n):
                if is_pos(n.value, s) and isinstance(n.ctx, ast.Load) and n.attr in s['fields']:
                    return normal.clone(s['fields'][n.attr])
                return s2.generic_visit(n)
        return R().visit(normal.clone(v))

    def new_pos(e, s, tr):
        t = e['_X']
        if isinstance(t, ast.Name):
            s.setdefault('env', {})[t.id] = 'POS'
            s['created'] = s.get('created', 0) + 1
            return True
        if src(t) == '%s.position' % NP:
            s['created'] = s.get('created', 0) + 1
            s['attached'] = True
            return True
        return False

    def attach(e, s, tr):
        if isinstance(e['_X'], ast.Name) and s.get('env', {}).get(e['_X'].id) == 'POS':
            s['attached'] = True
            return True
        return False

    def set_field(e, s, tr):
        if not is_pos(e['_T'], s):
            return False
        f = e['_F']
        s['fields'][f] = resolve(e['_V'], s)
        s['order'].append(f)
        return True

    def set_field_unpacked(e, s, tr):
        tt = e['_TT']
        if not isinstance(tt, (ast.Tuple, ast.List)):
            return False
        todo = []
        for k, t in enumerate(tt.elts):
            if isinstance(t, ast.Name) and t.id == '_':
                continue
            if isinstance(t, ast.Attribute) and is_pos(t.value, s):
                todo.append((k, t.attr))
            else:
                return False
        for k, f in todo:
            v = ast.Subscript(value=e['_V'], slice=ast.Constant(value=k), ctx=ast.Load())
            s['fields'][f] = resolve(ast.copy_location(v, e['_V']), s)
            s['order'].append(f)
        return True

    def set_text(e, s, tr):
        s['fields']['character_stream'] = resolve(e['_V'], s)
        s['order'].append('character_stream')
        return True
    si = absint.Interp(spi, [], [('_X = Position()', new_pos), ('%s.position = _X' % NP, attach), ('_TT = _V', set_field_unpacked),
                                 ('%s.character_stream = _V' % NP, set_text), ('_T._F = _V', set_field)])
    si.pure_calls = {'lexpos', 'lineno', 'lexspan', 'linespan', 'find_column'}
    st_ = {'fields': {}, 'order': []}
    out, tr = si.run(st_)
    LAST = 'len(%s) - 1' % PP
    END = '%s.lexspan(%s)[1]' % (PP, LAST)
    want = [
        ('start offset = lexpos of the first symbol', 'start_stream', '%s.lexpos(1)' % PP),
        ('start line = lineno of the first symbol', 'start_line', '%s.lineno(1)' % PP),
        ('start column = column of the start offset', 'start_column', 'find_column(%s.lexer.lexdata, %s.lexpos(1))' % (PP, PP)),
        ('end offset = end of the last symbol', 'end_stream', END),
        ('end line = last line of the last symbol', 'end_line', '%s.linespan(%s)[1]' % (PP, LAST)),
        ('end column = column of the end offset - 1', 'end_column', 'find_column(%s.lexer.lexdata, %s) - 1' % (PP, END)),
        ('source text = lexdata[start offset:end offset]', 'character_stream', '%s.lexer.lexdata[%s.lexpos(1):%s]' % (PP, PP, END)),
    ]
    for what, field, expr in want:
        got = st_['fields'].get(field)
        ok = got is not None and src(got) == src(ast.parse(expr).body[0].value)
        r.check(ok, 'set_positional_info: ' + what, spi, construct=Q, key=what,
                msg='set_positional_info no longer computes: %s (the field finally holds `%s`)' % (what, src(got) if got is not None else None))
    r.check(st_.get('created') == 1 and st_.get('attached'), 'set_positional_info: a fresh Position object per node', spi, construct=Q,
            key='a fresh Position object per node', msg='set_positional_info no longer computes: a fresh Position object per node')
    dup = sorted(set(f for f in st_['order'] if st_['order'].count(f) > 1))
    r.check(not dup, 'each position field is assigned once', spi, construct=Q, key='single-assignment',
            msg='set_positional_info assigns %s more than once' % dup)
    fc = repo.func('bridgepoint.oal:find_column')
    a, b = param_names(fc, skip_self=False)[:2]
    rets = [n for n in ast.walk(fc) if isinstance(n, ast.Return)]
    ok = len(rets) == 1 and (pm.match("%s - %s.rfind('\\n', 0, %s)" % (b, a, b), rets[0].value) is not None)
    r.check(ok, "find_column = offset - offset of the preceding newline (1-based column)", fc,
            construct='bridgepoint.oal:find_column', key='find_column',
            msg="find_column is no longer `lexpos - lexdata.rfind('\\n', 0, lexpos)`")
    # the decorator
    tpf = repo.func('bridgepoint.oal:track_production')
    wrappers = [n for n in tpf.body if isinstance(n, ast.FunctionDef)]
    if len(wrappers) != 1:
        raise AnalysisError('%s: track_production has no single wrapper' % loc(tpf))
    w = wrappers[0]
    ws, wp = param_names(w, skip_self=False)[:2]
    fparam = param_names(tpf, skip_self=False)[0]
    # abstract execution of the wrapper: (result is a Node?, production non-empty?) -> what happens, in which order
    from .. import absint
    import itertools as _it

    def act(e, s, tr):
        tr.append('action')
        s.setdefault('env', {})[e['_R'].id] = 'action-result'
        return True

    def act_atom(e, s, tr):
        tr.append('action')
        return True

    def is_node(e, s, tr):
        return s['node'] if src(e['_X']) == '%s[0]' % wp else None

    def positioned(e, s, tr):
        tr.append(('position', src(e['_N']), src(e['_P'])))
        return True
    wi = absint.Interp(w, [('isinstance(_X, Node)', is_node), ('len(%s) > 1' % wp, lambda e, s, tr: s['nonempty']),
                           ('len(%s) >= 2' % wp, lambda e, s, tr: s['nonempty']), ('len(%s) <= 1' % wp, lambda e, s, tr: not s['nonempty']),
                           ('len(%s) < 2' % wp, lambda e, s, tr: not s['nonempty']), ('len(%s) == 1' % wp, lambda e, s, tr: not s['nonempty']),
                           ('%s(%s, %s)' % (fparam, ws, wp), act_atom)],
                       [('_R = %s(%s, %s)' % (fparam, ws, wp), act), ('set_positional_info(_N, _P)', positioned)])
    calls_f = sets = order_ok = True
    for node_, nonempty in _it.product([True, False], repeat=2):
        st_ = {'node': node_, 'nonempty': nonempty}
        out, tr = wi.run(st_)
        want = ['action'] + ([('position', '%s[0]' % wp, wp)] if (node_ and nonempty) else [])
        if tr[:1] != ['action']:
            calls_f = order_ok = False
        if tr != want:
            sets = False
        if not (out.kind == 'return' and (out.value is None or (isinstance(out.value, ast.Name) and st_.get('env', {}).get(out.value.id) == 'action-result')
                                          or pm.match('%s(%s, %s)' % (fparam, ws, wp), out.value) is not None)):
            sets = False
    r.check(calls_f and sets and order_ok, 'track_production runs the action, then positions p[0] when it is a Node', tpf,
            construct='bridgepoint.oal:track_production', key='wrapper',
            msg='track_production no longer (1) calls the action, then (2) calls set_positional_info(p[0], p) for every '
                'Node result of a non-empty production')
    r.check(any(isinstance(st, ast.Return) and pm.match(w.name, st.value) is not None for st in tpf.body),
            'track_production returns the wrapper', tpf, construct='bridgepoint.oal:track_production', key='returns-wrapper',
            msg='track_production does not return its wrapper')
    r.check(any(dotted(d.func if isinstance(d, ast.Call) else d) == 'wraps' for d in w.decorator_list),
            'wrapper keeps the production docstring (functools.wraps) so that ply still sees the grammar rule', w,
            construct='bridgepoint.oal:track_production', key='wraps',
            msg='the wrapper is not decorated with functools.wraps(f): ply would not find the production docstring')
