'''
Facts about the OAL syntax tree derived from the grammar actions of oal.py: which Node classes the parser can
construct, which constructor field receives which grammar position, which fields may be None.
'''
import ast

from ..src import AnalysisError, loc, src, dotted, body_without_doc, param_names
from .. import pm
from . import lexrules

CLS = 'bridgepoint.oal:OALParser'
_cache = {}


def node_class_names(repo):
    names = {'Node'}
    changed = True
    while changed:
        changed = False
        for c in repo.classes('bridgepoint.oal'):
            if c.name not in names and any(dotted(b) in names for b in c.bases):
                names.add(c.name)
                changed = True
    return names


class NodeFacts(object):
    def __init__(self, repo):
        self.repo = repo
        self.g = lexrules.grammar_of(repo, CLS)
        self.names = node_class_names(repo)
        self.constructible = {}      # class -> [production]
        self.field_pos = {}          # (class, field) -> [(production, position or None, value ast)]
        self.nullable = {}           # (class, field) -> [production]   (field explicitly None in some production)
        self.reclass = {}            # class -> [production]  via p[i].__class__ = X
        for p in self.g.productions:
            for st in body_without_doc(p.fn):
                if isinstance(st, ast.Assign) and pm.match('p[0]', st.targets[0]) is not None and isinstance(st.value, ast.Call):
                    cls = dotted(st.value.func)
                    if cls not in self.names:
                        continue
                    self.constructible.setdefault(cls, [])
                    if p not in self.constructible[cls]:
                        self.constructible[cls].append(p)
                    init = repo.func('bridgepoint.oal:%s.__init__' % cls, required=False)
                    params = param_names(init) if init is not None else []
                    bound = {}
                    for i, a in enumerate(st.value.args):
                        if i < len(params):
                            bound[params[i]] = a
                    for kw in st.value.keywords:
                        bound[kw.arg] = kw.value
                    for field, v in bound.items():
                        m = pm.match('p[_I]', v)
                        pos = m['_I'].value if m and isinstance(m['_I'], ast.Constant) else None
                        self.field_pos.setdefault((cls, field), []).append((p, pos, v))
                        if isinstance(v, ast.Constant) and v.value is None:
                            self.nullable.setdefault((cls, field), []).append(p)
                        if pos is not None and pos - 1 < len(p.syms):
                            # the value comes from a nonterminal that may itself yield None
                            pass
                m = pm.match('p[_I].__class__ = _C', st)
                if m and isinstance(m['_C'], ast.Name) and m['_C'].id in self.names:
                    self.reclass.setdefault(m['_C'].id, []).append(p)
                    self.constructible.setdefault(m['_C'].id, [])
                    if p not in self.constructible[m['_C'].id]:
                        self.constructible[m['_C'].id].append(p)
        # what a grammar symbol may yield (Node classes), and what list nodes contain
        self.yields = {}
        self.list_elems = {}
        for _ in range(8):
            changed = False
            for p in self.g.productions:
                out = self.yields.setdefault(p.head, set())
                before = len(out)
                for st in [x for b in body_without_doc(p.fn) for x in ast.walk(b) if isinstance(x, ast.stmt)]:
                    if isinstance(st, ast.Assign) and pm.match('p[0]', st.targets[0]) is not None:
                        v = st.value
                        if isinstance(v, ast.Call) and dotted(v.func) in self.names:
                            out.add(dotted(v.func))
                        m = pm.match('p[_I]', v)
                        if m and isinstance(m['_I'], ast.Constant) and 0 < m['_I'].value <= len(p.syms):
                            sym = p.syms[m['_I'].value - 1]
                            i = m['_I'].value
                            # a re-classed operand
                            re_cls = [pm.match('p[%d].__class__ = _C' % i, s2) for s2 in body_without_doc(p.fn)]
                            re_cls = [x['_C'].id for x in re_cls if x]
                            if re_cls:
                                out.update(re_cls)
                            else:
                                out |= self.yields.get(sym, set())
                    for pat in ('p[0].children.insert(0, p[_I])', 'p[0].children.append(p[_I])'):
                        m = pm.match(pat, st)
                        if m and isinstance(m['_I'], ast.Constant) and 0 < m['_I'].value <= len(p.syms):
                            for lc in list(out):
                                le = self.list_elems.setdefault(lc, set())
                                n0 = len(le)
                                le.add(p.syms[m['_I'].value - 1])
                                changed = changed or len(le) != n0
                changed = changed or len(out) != before
            if not changed:
                break
        # nonterminals that may yield None (production sets p[0] = None or passes)
        self.none_syms = set()
        for p in self.g.productions:
            body = body_without_doc(p.fn)
            if any(pm.match('p[0] = None', st) is not None for st in body) or \
                    (len(body) == 1 and isinstance(body[0], ast.Pass)):
                # only if this alternative belongs to the function (functions with one production per alt)
                self.none_syms.add(p.head)
        for (cls, field), lst in list(self.field_pos.items()):
            for p, pos, v in lst:
                if pos is not None and pos - 1 < len(p.syms) and p.syms[pos - 1] in self.none_syms:
                    self.nullable.setdefault((cls, field), []).append(p)


def field_classes(f, cls, field):
    '''Node classes that may be stored in <cls>.<field> according to the grammar actions'''
    out = set()
    for p, pos, v in f.field_pos.get((cls, field), []):
        if pos is not None and 0 < pos <= len(p.syms):
            # re-classed operand in this production?
            re_cls = [pm.match('p[%d].__class__ = _C' % pos, s2) for s2 in body_without_doc(p.fn)]
            re_cls = [x['_C'].id for x in re_cls if x]
            if re_cls:
                out.update(re_cls)
            else:
                out |= f.yields.get(p.syms[pos - 1], set())
    return out


def child_classes(f, cls):
    out = set()
    for sym in f.list_elems.get(cls, set()):
        out |= f.yields.get(sym, set())
    return out


def facts(repo):
    if id(repo) not in _cache:
        _cache[id(repo)] = NodeFacts(repo)
    return _cache[id(repo)]


def handlers_of(repo, class_qual):
    '''accept_<X> methods visible on a walker class through its in-module MRO'''
    cls = repo.cls(class_qual)
    out = {}
    for name, fn in repo.all_methods(cls).items():
        if name.startswith('accept_'):
            out[name[7:]] = fn
    return out
