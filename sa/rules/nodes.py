'''
Facts about the OAL syntax tree derived from the grammar actions of oal.py: which Node classes the parser can
construct, which constructor field receives which grammar position, which fields may be None.
'''
import ast

from ..src import AnalysisError, loc, src, dotted, body_without_doc, param_names
from .. import pm
from . import lexrules

CLS = 'bridgepoint.oal:OALParser'
_cache = {}


def node_class_names(repo):
    names = {'Node'}
    changed = True
    while changed:
        changed = False
        for c in repo.classes('bridgepoint.oal'):
            if c.name not in names and any(dotted(b) in names for b in c.bases):
                names.add(c.name)
                changed = True
    return names


class NodeFacts(object):
    def __init__(self, repo):
        self.repo = repo
        self.g = lexrules.grammar_of(repo, CLS)
        self.names = node_class_names(repo)
        self.constructible = {}      # class -> [production]
        self.field_pos = {}          # (class, field) -> [(production, position or None, value ast)]
        self.nullable = {}           # (class, field) -> [production]   (field explicitly None in some production)
        self.reclass = {}            # class -> [production]  via p[i].__class__ = X
        for p in self.g.productions:
            for st in body_without_doc(p.fn):
                if isinstance(st, ast.Assign) and pm.match('p[0]', st.targets[0]) is not None and isinstance(st.value, ast.Call):
                    cls = dotted(st.value.func)
                    if cls not in self.names:
                        continue
                    self.constructible.setdefault(cls, [])
                    if p not in self.constructible[cls]:
                        self.constructible[cls].append(p)
                    init = repo.func('bridgepoint.oal:%s.__init__' % cls, required=False)
                    params = param_names(init) if init is not None else []
                    bound = {}
                    for i, a in enumerate(st.value.args):
                        if i < len(params):
                            bound[params[i]] = a
                    for kw in st.value.keywords:
                        bound[kw.arg] = kw.value
                    for field, v in bound.items():
                        m = pm.match('p[_I]', v)
                        pos = m['_I'].value if m and isinstance(m['_I'], ast.Constant) else None
                        self.field_pos.setdefault((cls, field), []).append((p, pos, v))
                        if isinstance(v, ast.Constant) and v.value is None:
                            self.nullable.setdefault((cls, field), []).append(p)
                        if pos is not None and pos - 1 < len(p.syms):
                            # the value comes from a nonterminal that may itself yield None
                            pass
                m = pm.match('p[_I].__class__ = _C', st)
                if m and isinstance(m['_C'], ast.Name) and m['_C'].id in self.names:
                    self.reclass.setdefault(m['_C'].id, []).append(p)
                    self.constructible.setdefault(m['_C'].id, [])
                    if p not in self.constructible[m['_C'].id]:
                        self.constructible[m['_C'].id].append(p)
        # nonterminals that may yield None (production sets p[0] = None or passes)
        self.none_syms = set()
        for p in self.g.productions:
            body = body_without_doc(p.fn)
            if any(pm.match('p[0] = None', st) is not None for st in body) or \
                    (len(body) == 1 and isinstance(body[0], ast.Pass)):
                # only if this alternative belongs to the function (functions with one production per alt)
                self.none_syms.add(p.head)
        for (cls, field), lst in list(self.field_pos.items()):
            for p, pos, v in lst:
                if pos is not None and pos - 1 < len(p.syms) and p.syms[pos - 1] in self.none_syms:
                    self.nullable.setdefault((cls, field), []).append(p)


def facts(repo):
    if id(repo) not in _cache:
        _cache[id(repo)] = NodeFacts(repo)
    return _cache[id(repo)]


def handlers_of(repo, class_qual):
    '''accept_<X> methods visible on a walker class through its in-module MRO'''
    cls = repo.cls(class_qual)
    out = {}
    for name, fn in repo.all_methods(cls).items():
        if name.startswith('accept_'):
            out[name[7:]] = fn
    return out
