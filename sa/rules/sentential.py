'''
C05-SENTENTIAL (thorough tier): every text a generator of sourcegen.py can emit derives from the grammar symbol of
its construct.

Each accept_<K> of ActionTextGenWalker is interpreted abstractly, variant by variant, into a sequence of
   * literal text            (arguments of buf / buf_linebreak),
   * dynamic text            (an attribute whose token class is known; represented by sample lexemes),
   * placeholders            (self.accept(<navigation>) of a recursive category: value, block, statement, chain, parameter list).
Adjacent text is concatenated and tokenised with the OAL token regexes extracted from oal.py (in ply order), the
placeholders become grammar nonterminals, and an Earley recogniser for sentential forms must derive the sequence from the
target symbol of K (statement / expression / block / navigation_chain / parameter_list).  Which optional navigations are
present is taken from the creation profiles of K in prebuild.py (relate = always, xtuml.relate / conditional = optional).
'''
import ast
import itertools
import re

from ..src import AnalysisError, loc, src, dotted, call_attr, param_names, body_without_doc
from .. import pm
from ..kinds import chain_of, rel_of
from ..schema import schema as get_schema
from ..earley import Earley
from . import nodes, kindrules, lexrules
from .c04 import TOKEN_LEXEME

SG = 'bridgepoint.sourcegen'
TG = SG + ':ActionTextGenWalker'
PB = 'bridgepoint.prebuild'
OALP = 'bridgepoint.oal:OALParser'

ROOT_TARGET = {'V_VAL': ['expression'], 'ACT_BLK': ['block'], 'ACT_SMT': ['statement', 'SEMICOLON'], 'ACT_LNK': ['navigation_chain'],
               'V_PAR': ['parameter_list']}
NOT_ANALYSED = {
    'ACT_BLK': 'root category (statement loop) - checked by a dedicated obligation',
    'ACT_SMT': 'root category - every R603 subtype is checked instead',
    'V_VAL': 'root category - every R801 subtype is checked instead',
    'ACT_ACT': 'delegates to its block',
    'E_ESS': 'event statements are outside the supported statement set of C05',
    'E_GPR': 'event statements are outside the supported statement set of C05',
    'ACT_SGN': 'port signals are resolved through several optional look-ups (outside the supported set of C05)',
    'ACT_IOP': 'port operations are resolved through several optional look-ups (outside the supported set of C05)',
    'V_MSV': 'port message values are resolved through several optional look-ups (outside the supported set of C05)', 'S_BRG': 'action home, delegates', 'O_TFR': 'action home, delegates', 'S_SYNC': 'action home, delegates',
    'O_DBATTR': 'action home, delegates', 'SM_ACT': 'action home, delegates', 'SPR_PO': 'action home, delegates', 'SPR_PS': 'action home, delegates',
    'SPR_RO': 'action home, delegates', 'SPR_RS': 'action home, delegates',
}
ID_ATTRS = {'Name', 'Key_Lett', 'Drv_Lbl', 'InformalGroupName', 'name', 'key_lett', 'localClassName'}


class Lexer(object):
    '''tokenises generated text with the token regexes extracted from oal.py, in ply order'''

    def __init__(self, g):
        self.rules = [(t.name, re.compile(t.regex, lexrules.PLY_FLAGS), t.returns_token) for t in g.token_rules]
        self.ignore = g.t_ignore
        self.keywords = set(g.keywords)

    def tokens(self, text):
        out = []
        i = 0
        while i < len(text):
            if text[i] in self.ignore:
                i += 1
                continue
            for name, rx, ret in self.rules:
                m = rx.match(text, i)
                if m and m.end() > i:
                    if ret:
                        ty = name
                        if name == 'ID' and m.group(0).upper() in self.keywords:
                            ty = m.group(0).upper()
                        out.append(ty)
                    i = m.end()
                    break
            else:
                out.append('<illegal %r>' % text[i])
                i += 1
        return out


class Profiles(object):
    '''creation profiles of instance kinds in prebuild.py: per creation site the associations related to the new instance'''

    def __init__(self, repo):
        self.sites = {}
        for cls in repo.classes(PB):
            for fn in [m for m in cls.body if isinstance(m, ast.FunctionDef)]:
                if repo.absorbed('%s:%s.%s' % (PB, cls.name, fn.name)):
                    continue      # a new helper, already inlined into the methods that use it
                created = []
                for n in ast.walk(fn):
                    if isinstance(n, ast.Assign) and isinstance(n.value, ast.Call) and call_attr(n.value) == 'new' and n.value.args \
                            and isinstance(n.value.args[0], ast.Constant) and isinstance(n.targets[0], ast.Name):
                        created.append((n.targets[0].id, n.value.args[0].value, n))
                for var, kind, node in created:
                    mand, opt = set(), set()
                    cblock = node._parent
                    for n in ast.walk(fn):
                        if isinstance(n, ast.Call) and dotted(n.func) in ('relate', 'xtuml.relate') and len(n.args) >= 3:
                            rr = rel_of(n.args[2])
                            if not rr or var not in (src(n.args[0]), src(n.args[1])):
                                continue
                            st = n
                            while not isinstance(st, ast.stmt):
                                st = st._parent
                            same_block = st._parent is cblock
                            if dotted(n.func) == 'relate' and same_block:
                                mand.add(rr[0])
                            else:
                                opt.add(rr[0])
                    self.sites.setdefault(kind, []).append((frozenset(mand), frozenset(opt - mand), '%s.%s' % (cls.name, fn.name)))

    def variants(self, kind, rels_used):
        '''list of (present set) for the associations the generator of `kind` navigates'''
        out = []
        if kind not in self.sites:
            return None
        for mand, opt, where in self.sites[kind]:
            opt_used = sorted((set(opt) | (set(rels_used) - set(mand) - set(opt) - self.always_absent(kind, rels_used))) & set(rels_used))
            if len(opt_used) > 5:
                opt_used = opt_used[:5]
            for k in range(len(opt_used) + 1):
                for sub in itertools.combinations(opt_used, k):
                    out.append((frozenset(mand) | frozenset(sub)) & frozenset(rels_used) | (frozenset(mand) & frozenset(rels_used)))
        uniq = []
        for p in out:
            if p not in uniq:
                uniq.append(p)
        return uniq

    def site_index(self, kind, rels_used):
        out = {}
        for i, (mand, opt, where) in enumerate(self.sites.get(kind, [])):
            opt_used = sorted((set(opt) | (set(rels_used) - set(mand) - set(opt) - self.always_absent(kind, rels_used))) & set(rels_used))[:5]
            for k in range(len(opt_used) + 1):
                for sub in itertools.combinations(opt_used, k):
                    pv = (frozenset(mand) | frozenset(sub)) & frozenset(rels_used) | (frozenset(mand) & frozenset(rels_used))
                    out.setdefault(pv, i)
        return out

    def always_absent(self, kind, rels_used):
        '''associations that another site of the same kind relates but this kind's remaining sites never do are decided per site'''
        union = set()
        for mand, opt, where in self.sites.get(kind, []):
            union |= set(mand) | set(opt)
        # rels that are creation-time relations of this kind at SOME site: at a site that lacks them they are absent
        return set(r for r in rels_used if r in union)


class Seq(object):
    '''one abstract emission: items plus the choices that must ALL work (ukey); choices about the presence of optional
    navigations and about alternative role symbols are existential and are not recorded'''
    __slots__ = ('items', 'ukey')

    def __init__(self, items=None, ukey=None):
        self.items = list(items or [])
        self.ukey = list(ukey or [])

    def copy(self):
        return Seq(self.items, self.ukey)

    def plus(self, items, key=None):
        n = Seq(self.items + list(items), self.ukey + ([key] if key is not None else []))
        return n


class Generator(object):
    def __init__(self, repo):
        self.repo = repo
        self.g = lexrules.grammar_of(repo, OALP)
        self.earley = Earley(self.g)
        self.lexer = Lexer(self.g)
        self.sc = get_schema(repo)
        self.ki = kindrules.infer(repo, SG, lambda ki, f, a, e, c: ki.expr_kinds(a, e, c), None, True)
        self.handlers = nodes.handlers_of(repo, TG)
        self.cls = repo.cls(TG)
        self.profiles = Profiles(repo)
        self.binops = sorted(set(TOKEN_LEXEME[p.syms[1]] for p in self.g.productions if p.head == 'expression' and len(p.syms) == 3
                                 and p.syms[0] == p.syms[2] == 'expression'))
        self.unops = sorted(set(TOKEN_LEXEME[p.syms[0]] for p in self.g.productions if p.head == 'unary_operator'))
        self.roles = self._role_symbols()
        self.notes = []

    # ---- role symbols: (kind, rel) -> grammar symbols of the node field that feeds the association ---------------------
    def _role_symbols(self):
        f = nodes.facts(self.repo)
        out = {}
        ap = self.repo.cls(PB + ':ActionPrebuilder')
        methods = self.repo.methods(ap)
        # helper call sites: helper name -> [(caller node class, {param: node field})]
        helper_calls = {}
        for name, fn in methods.items():
            if not name.startswith('accept_'):
                continue
            local = {}
            for st in ast.walk(fn):
                if isinstance(st, ast.Assign) and len(st.targets) == 1 and isinstance(st.targets[0], ast.Name) and isinstance(st.value, ast.Call) \
                        and src(st.value.func) == 'self.accept' and st.value.args:
                    a = st.value.args[0]
                    if isinstance(a, ast.Attribute) and isinstance(a.value, ast.Name) and a.value.id == 'node':
                        local[st.targets[0].id] = a.attr
            for c in ast.walk(fn):
                if isinstance(c, ast.Call) and isinstance(c.func, ast.Attribute) and isinstance(c.func.value, ast.Name) and c.func.value.id == 'self' \
                        and c.func.attr in methods and not c.func.attr.startswith('accept'):
                    h = methods[c.func.attr]
                    ps = param_names(h)
                    bound = {}
                    for i, a in enumerate(c.args):
                        if i < len(ps) and isinstance(a, ast.Name) and a.id in local:
                            bound[ps[i]] = local[a.id]
                    helper_calls.setdefault(c.func.attr, []).append((name[7:], bound))
        for name, fn in methods.items():
            ncls = name[7:] if name.startswith('accept_') else None
            prov = {}
            caller_classes = [c for c, b in helper_calls.get(name, [])]
            for c, b in helper_calls.get(name, []):
                for p_, fld in b.items():
                    prov.setdefault(p_, fld)
            for st in ast.walk(fn):
                if isinstance(st, ast.Assign) and len(st.targets) == 1 and isinstance(st.targets[0], ast.Name) and isinstance(st.value, ast.Call) \
                        and src(st.value.func) == 'self.accept' and st.value.args:
                    a = st.value.args[0]
                    if isinstance(a, ast.Attribute) and isinstance(a.value, ast.Name) and a.value.id == 'node':
                        prov[st.targets[0].id] = a.attr
            created = {}
            for st in ast.walk(fn):
                if isinstance(st, ast.Assign) and isinstance(st.value, ast.Call) and call_attr(st.value) == 'new' and st.value.args \
                        and isinstance(st.value.args[0], ast.Constant) and isinstance(st.targets[0], ast.Name):
                    created[st.targets[0].id] = st.value.args[0].value
            for n in ast.walk(fn):
                if isinstance(n, ast.Call) and dotted(n.func) in ('relate', 'xtuml.relate') and len(n.args) >= 3:
                    rr = rel_of(n.args[2])
                    a, b = src(n.args[0]), src(n.args[1])
                    for x, y in ((a, b), (b, a)):
                        if rr and x in created and y in prov:
                            syms = set()
                            classes = [ncls] if ncls else (caller_classes or [c for (c, fld) in f.field_pos if fld == prov[y]])
                            for c in classes:
                                for p, pos, v in f.field_pos.get((c, prov[y]), []):
                                    if pos is not None and 0 < pos <= len(p.syms):
                                        syms.add(p.syms[pos - 1])
                            if syms:
                                out.setdefault((created[x], rr[0]), set()).update(syms)
        return out

    # ---- samples ---------------------------------------------------------------------------------------------------------
    def samples(self, kind, attr):
        if attr in ID_ATTRS:
            return ['Xn1']
        if attr == 'Numb':
            return ['7']
        if attr == 'cardinality':
            return ['any', 'many'] + (['one'] if kind == 'ACT_SEL' else [])
        if attr == 'Operator':
            return self.binops if kind == 'V_BIN' else self.unops
        if attr in ('relationship_phrase', 'Rel_Phrase'):
            return ["'ph'"]
        if attr == 'Mning':
            return ['meaning']
        if attr == 'Value':
            return {'V_LIN': ['7'], 'V_LRL': ['1.5'], 'V_LST': ['str'], 'V_LBO': ['TRUE']}.get(kind, ['7'])
        raise AnalysisError('sourcegen emits attribute %s.%s whose token class is unknown to the sentential analysis' % (kind, attr))

    # ---- abstract interpretation -------------------------------------------------------------------------------------------
    def emit(self, kind, present=None, depth=0):
        '''all abstract emissions of accept_<kind>: list of item lists; item = ("t", text) | ("n", [symbols])'''
        if depth > 6:
            raise AnalysisError('generator recursion through %s is too deep to inline' % kind)
        fn = self.handlers[kind]
        inst = param_names(fn)[0]
        env = self.ki.func_env(fn, self.cls)
        rels_used = set()
        for n in ast.walk(fn):
            ch = chain_of(n) if isinstance(n, (ast.Call, ast.Subscript)) else None
            if ch and src(ch[1]) == inst:
                rels_used.add(ch[2][0].rel)
        if present is None:
            variants = self.profiles.variants(kind, rels_used)
            if variants is None:
                variants = [None]       # not created by prebuild (pre-existing model element): presence by schema / both
        else:
            variants = [present]
        results = []
        site_of = self.profiles.site_index(kind, rels_used) if variants != [None] and present is None else {}
        for pv in variants:
            st = {'vars': {}, 'kind': kind, 'inst': inst, 'present': pv, 'env': env, 'depth': depth}
            start = Seq()
            if pv is not None and present is None:
                start.ukey.append(('site', site_of.get(pv, 0)))
            for seq in self._block(body_without_doc(fn), [start], st):
                results.append(seq)
        return results

    def _presence(self, st, rel, kind_of_inst):
        '''True / False / None (unknown -> both)'''
        if st['present'] is None:
            return None
        known = self.profiles.always_absent(kind_of_inst, [rel])
        if rel in st['present']:
            return True
        if rel in known:
            return False
        return None

    def _nav_info(self, e, st):
        '''expression that navigates from inst (directly or via a bound variable) -> (first rel, result kinds, steps) or None'''
        if isinstance(e, ast.Name) and e.id in st['vars']:
            return st['vars'][e.id]
        ch = chain_of(e) if isinstance(e, (ast.Call, ast.Subscript)) else None
        if ch is None:
            return None
        root = ch[1]
        kinds = frozenset([self.sc.kind(ch[2][-1].kind) or ch[2][-1].kind])
        if src(root) == st['inst']:
            return {'rel': ch[2][0].rel, 'kinds': kinds, 'steps': len(ch[2]), 'from_inst': True, 'root_kind': st['kind']}
        if isinstance(root, ast.Name) and root.id in st['vars']:
            base = st['vars'][root.id]
            return {'rel': base['rel'] if base.get('from_inst') else None, 'kinds': kinds, 'steps': base['steps'] + len(ch[2]),
                    'from_inst': base.get('from_inst'), 'root_kind': st['kind']}
        return {'rel': None, 'kinds': kinds, 'steps': len(ch[2]), 'from_inst': False, 'root_kind': None}

    def _text_items(self, arg, st):
        '''abstract value of one buf argument: list of alternatives, each a string'''
        if isinstance(arg, ast.Constant) and isinstance(arg.value, str):
            return [arg.value]
        if isinstance(arg, ast.BinOp) and isinstance(arg.op, ast.Mod) and isinstance(arg.left, ast.Constant) and arg.left.value.count('%s') == 1:
            return [arg.left.value.replace('%s', s) for s in self._text_items(arg.right, st)]
        e = arg
        if isinstance(e, ast.Call) and dotted(e.func) == 'str' and e.args:
            e = e.args[0]
        if isinstance(e, ast.Call) and isinstance(e.func, ast.Attribute) and e.func.attr in ('lower', 'upper') and not e.args:
            return [getattr(s, e.func.attr)() for s in self._text_items(e.func.value, st)]
        if isinstance(e, ast.Attribute) and isinstance(e.value, ast.Name):
            owner = e.value.id
            if owner == st['inst']:
                k = st['kind']
            elif owner in st['vars']:
                ks = st['vars'][owner]['kinds']
                k = sorted(ks)[0]
            else:
                raise AnalysisError('%s: text `%s` of unknown origin in accept_%s' % (loc(arg), src(arg), st['kind']))
            return self.samples(k, e.attr)
        raise AnalysisError('%s: buf argument `%s` in accept_%s is outside the idioms the sentential analysis knows' % (loc(arg), src(arg), st['kind']))

    def _accept(self, e, seqs, st):
        '''self.accept(e): extend every partial sequence'''
        if isinstance(e, ast.Call) and dotted(e.func) in ('subtype',):
            raise AnalysisError('subtype dispatch inside accept_%s is only expected in the root handlers' % st['kind'])
        info = self._nav_info(e, st)
        if info is None:
            raise AnalysisError('%s: accept(%s) in accept_%s not understood' % (loc(e), src(e), st['kind']))
        pres = None
        if info.get('from_inst') and info['rel'] is not None and info['steps'] >= 1:
            pres = self._presence(st, info['rel'], st['kind'])
            if pres is None and st['present'] is None:
                # pre-existing element: a to-one unconditional end is always there
                pres = None
        out = []
        opts = [True, False] if pres is None else [pres]
        for present in opts:
            if not present:
                out.extend([s.copy() for s in seqs])
                continue
            alts = []
            for k in sorted(info['kinds']):
                if k == 'V_PAR':
                    # first parameter of a list (found with the first-filter) or the successor of a parameter
                    alts.append([('n', ['COMMA', 'parameter_list'] if st['kind'] == 'V_PAR' else ['parameter_list'])])
                elif k in ROOT_TARGET:
                    syms = ROOT_TARGET[k]
                    role = self.roles.get((st['kind'], info['rel'])) if k == 'V_VAL' else None
                    if role:
                        alts.append([('alt', sorted(role))])
                    else:
                        alts.append([('n', list(syms))])
                elif k in self.handlers:
                    for sub in self.emit(k, None, st['depth'] + 1):
                        alts.append(sub.items)
                else:
                    self.notes.append('accept_%s dispatches on %s, which has no generator' % (st['kind'], k))
                    alts.append([])
            for s in seqs:
                for a in alts:
                    out.append(s.plus(a))
        if len(out) > 4000:
            raise AnalysisError('too many emission variants in accept_%s' % st['kind'])
        return out

    def _cond(self, test, st):
        '''True / False / None for an if-test that depends on the presence of a navigation'''
        neg = False
        t = test
        if isinstance(t, ast.UnaryOp) and isinstance(t.op, ast.Not):
            neg, t = True, t.operand
        if isinstance(t, ast.Compare) and len(t.ops) == 1 and isinstance(t.comparators[0], ast.Constant) and t.comparators[0].value is None:
            if isinstance(t.ops[0], ast.IsNot):
                t = t.left
            elif isinstance(t.ops[0], ast.Is):
                neg, t = not neg, t.left
        info = self._nav_info(t, st) if isinstance(t, (ast.Name, ast.Call)) else None
        if info and info.get('from_inst') and info['steps'] == 1 and info['rel'] is not None and not (
                isinstance(t, ast.Call) and t.args):
            p = self._presence(st, info['rel'], st['kind'])
            if p is not None:
                return (not p) if neg else p
        return None

    def _presence_like(self, test, st):
        '''does the test only ask whether some navigation from inst yields an instance?'''
        t = test
        if isinstance(t, ast.UnaryOp) and isinstance(t.op, ast.Not):
            t = t.operand
        if isinstance(t, ast.Compare) and len(t.ops) == 1 and isinstance(t.comparators[0], ast.Constant) and t.comparators[0].value is None:
            t = t.left
        return self._nav_info(t, st) is not None if isinstance(t, (ast.Name, ast.Call)) else False

    def _block(self, stmts, seqs, st):
        for s in stmts:
            seqs = self._stmt(s, seqs, st)
        return seqs

    def _stmt(self, s, seqs, st):
        if isinstance(s, ast.Expr) and isinstance(s.value, ast.Call):
            f = src(s.value.func)
            if f in ('self.buf', 'self.buf_linebreak'):
                alts = ['']
                for a in s.value.args:
                    alts = [x + y for x in alts for y in self._text_items(a, st)]
                if f == 'self.buf_linebreak':
                    alts = [x + '\n' for x in alts]
                if len(alts) == 1:
                    return [q.plus([('t', alts[0])]) for q in seqs]
                return [q.plus([('t', a)], ('sample', s.lineno, a)) for q in seqs for a in alts]
            if f == 'self.accept':
                return self._accept(s.value.args[0], seqs, st)
            raise AnalysisError('%s: call `%s` in accept_%s not understood' % (loc(s), src(s)[:50], st['kind']))
        if isinstance(s, ast.Assign) and len(s.targets) == 1 and isinstance(s.targets[0], ast.Name):
            if isinstance(s.value, ast.Lambda):
                return seqs
            info = self._nav_info(s.value, st)
            if info is not None:
                st['vars'][s.targets[0].id] = info
                return seqs
            raise AnalysisError('%s: assignment `%s` in accept_%s not understood' % (loc(s), src(s)[:50], st['kind']))
        if isinstance(s, ast.AugAssign) and src(s.target) == 'self._lvl':
            return seqs
        if isinstance(s, ast.If):
            c = self._cond(s.test, st)
            out = []
            universal = c is None and not self._presence_like(s.test, st)
            if c is not False:
                out.extend(self._block(s.body, [q.plus([], ('if', s.lineno, True) if universal else None) for q in seqs], st))
            if c is not True:
                out.extend(self._block(s.orelse, [q.plus([], ('if', s.lineno, False) if universal else None) for q in seqs], st))
            return out
        if isinstance(s, ast.For):
            info = None
            it = s.iter
            if isinstance(it, ast.Call) and dotted(it.func) == 'sorted' and it.args:
                it = it.args[0]
            info = self._nav_info(it, st)
            if info is None or not isinstance(s.target, ast.Name):
                raise AnalysisError('%s: loop in accept_%s not understood' % (loc(s), st['kind']))
            st['vars'][s.target.id] = dict(info, from_inst=False, rel=None)
            out = [q.plus([], ('loop', s.lineno, 0)) for q in seqs]
            once = self._block(s.body, [q.plus([], ('loop', s.lineno, 1)) for q in seqs], st)
            twice = self._block(s.body, [q.copy() for q in once], st)
            twice = [Seq(q.items, [k if k != ('loop', s.lineno, 1) else ('loop', s.lineno, 2) for k in q.ukey]) for q in twice]
            return out + once + twice
        if isinstance(s, ast.Pass):
            return seqs
        raise AnalysisError('%s: statement `%s` in accept_%s is outside the idioms the sentential analysis knows'
                            % (loc(s), src(s).split('\n')[0][:50], st['kind']))

    # ---- to symbols -----------------------------------------------------------------------------------------------------------
    def symbol_alternatives(self, seq):
        '''expand alternative role symbols: list of symbol tuples'''
        outs = [[]]
        text = ''
        for kind, v in seq.items:
            if kind == 't':
                text += v
                continue
            if text:
                toks = self.lexer.tokens(text)
                outs = [o + toks for o in outs]
                text = ''
            if kind == 'n':
                outs = [o + list(v) for o in outs]
            else:
                outs = [o + [sy] for o in outs for sy in v]
        if text:
            toks = self.lexer.tokens(text)
            outs = [o + toks for o in outs]
        return [tuple(o) for o in outs]

    def symbols(self, seq):
        out = []
        text = ''
        for kind, v in seq:
            if kind == 't':
                text += v
            else:
                if text:
                    out.extend(self.lexer.tokens(text))
                    text = ''
                out.extend(v)
        if text:
            out.extend(self.lexer.tokens(text))
        return out


def rule(ctx):
    repo = ctx.repo
    sc = get_schema(repo)
    r = ctx.rule('C05-SENTENTIAL', 'every text a generator can emit derives from the grammar symbol of its construct', floor=40,
                 oracle='OAL grammar extracted from oal.py (Earley recogniser on sentential forms); creation profiles from prebuild.py')
    gen = Generator(repo)
    created = set(gen.profiles.sites)
    targets = {}
    for k in sc.subkinds('ACT_SMT', 603):
        targets[k] = ['statement']
    for k in sc.subkinds('V_VAL', 801):
        targets[k] = ['expression']
    targets['ACT_LNK'] = ['navigation_chain']
    for k in ('ACT_E', 'ACT_EL'):
        targets.pop(k, None)      # emitted inside the if statement; the statement loop filters them out (checked below)
    analysed = 0
    skipped = []
    for kind in sorted(gen.handlers):
        if kind in NOT_ANALYSED:
            skipped.append((kind, NOT_ANALYSED[kind]))
            continue
        if kind not in targets and kind != 'V_PAR':
            continue          # inlined into the handlers that dispatch on it
        if kind not in created and kind not in ('V_PAR',):
            skipped.append((kind, 'prebuild never creates %s' % kind))
            continue
        fn = gen.handlers[kind]
        q = TG + '.accept_' + kind
        try:
            seqs = gen.emit(kind)
        except AnalysisError as e:
            skipped.append((kind, 'not analysed: %s' % e))
            continue
        analysed += 1
        bad = []
        n_forms = 0
        groups = {}
        for seq in seqs:
            groups.setdefault(tuple(seq.ukey), []).append(seq)
        cache = {}
        for key, members in groups.items():
            ok_group = False
            first_fail = None
            for seq in members:
                for syms in gen.symbol_alternatives(seq):
                    n_forms += 1
                    if kind == 'V_PAR':
                        has_pred = bool(syms) and syms[0] == 'COMMA'
                        tgt = ('COMMA', 'parameter_list') if has_pred else ('parameter_list',)
                    else:
                        tgt = tuple(targets[kind])
                    if (tgt, syms) not in cache:
                        cache[(tgt, syms)] = gen.earley.derives(list(tgt), list(syms))
                    if cache[(tgt, syms)]:
                        ok_group = True
                    elif first_fail is None:
                        first_fail = syms
            if not ok_group:
                bad.append(first_fail or ())
        r.check(not bad, 'accept_%s: all %d sentential forms derive from %s' % (kind, n_forms, ' '.join(targets.get(kind, ['parameter_list']))), fn,
                construct=q, key='underivable ' + (' '.join(bad[0]) if bad else ''),
                msg='accept_%s can emit `%s`, which does not derive from `%s` in the OAL grammar: the regenerated text does not parse (or parses '
                    'as a different construct); %d of %d forms fail' % (kind, ' '.join(bad[0]) if bad else '', ' '.join(targets.get(kind, ['parameter_list'])),
                                                                      len(bad), n_forms))
    # statement list / block
    e = gen.earley
    for form, what in (([], 'an empty block'), (['statement', 'SEMICOLON'], 'one statement'), (['statement', 'SEMICOLON', 'statement', 'SEMICOLON'], 'two statements')):
        r.check(e.derives(['block'], form), 'a block generated as %s derives from block' % what, gen.handlers['ACT_BLK'], construct=TG + '.accept_ACT_BLK',
                key='block ' + what, msg='the text of %s does not derive from `block`' % what)
    blk = gen.handlers['ACT_BLK']
    lam = [n for n in ast.walk(blk) if isinstance(n, ast.Lambda)]
    r.check(any('ACT_EL[603]' in src(l) and 'ACT_E[603]' in src(l) for l in lam), 'elif / else statements are not emitted by the statement loop', blk,
            construct=TG + '.accept_ACT_BLK', key='block-filter', msg='the first-statement filter of accept_ACT_BLK no longer excludes ACT_EL / ACT_E statements')
    r.check(any(isinstance(n, ast.While) and pm.match(['self.accept(act_smt)', '_S = one(act_smt).ACT_SMT[661, _P]()'], n.body) is not None
                for n in ast.walk(blk)), 'a block is the sequence of its statements', blk, construct=TG + '.accept_ACT_BLK', key='block-loop',
            msg='accept_ACT_BLK no longer emits its statements one after the other')
    for k, why in skipped:
        r.info('accept_%s: %s' % (k, why), gen.handlers.get(k))
    for nte in gen.notes[:10]:
        r.info(nte)
    ctx.extra['sentential'] = {'generators_analysed': analysed, 'not_analysed': [{'kind': k, 'reason': w} for k, w in skipped]}
    if analysed < 25:
        raise AnalysisError('only %d generators could be analysed' % analysed)
