'''
Containment predicates of bridgepoint.ooaofooa (is_contained_in, is_global), shared by C05 (visibility of elements during
prebuild), C14 (component extraction) and C20 (schema generation): decided by abstract execution over the finite
description "which of the enclosing package / component / referring packages is (transitively) the root".
'''
import ast
import itertools

from ..src import AnalysisError, loc, src, param_names
from .. import pm, absint

OOA = 'bridgepoint.ooaofooa:'


def containment(ctx, rule_id):
    repo = ctx.repo
    r = ctx.rule(rule_id, 'is_contained_in: an element is inside a root iff its package / component is the root or is inside it, '
                          'directly or through a package reference', floor=20, oracle='R8000 / R8003 / R1402 of ooaofooa')
    fn = repo.func(OOA + 'is_contained_in')
    Q = OOA + 'is_contained_in'
    PE, ROOT = param_names(fn, skip_self=False)[:2]

    def is_pkg(x):
        return pm.match('one(_P).EP_PKG[8000]()', x) is not None

    def is_cc(x):
        return pm.match('one(_P).C_C[8003]()', x) is not None

    def root_in(e, s, tr):
        L = e['_L']
        if src(e['_A']) != ROOT or not isinstance(L, (ast.Tuple, ast.List, ast.Set)):
            return None
        hit = False
        for x in L.elts:
            if is_pkg(x):
                hit = hit or s['direct'] == 'pkg'
            elif is_cc(x):
                hit = hit or s['direct'] == 'cc'
            else:
                return None
        return hit

    def root_eq(e, s, tr):
        a_, b_ = e['_A'], e['_B']
        other = b_ if src(a_) == ROOT else (a_ if src(b_) == ROOT else None)
        if other is None:
            return None
        if is_pkg(other):
            return s['direct'] == 'pkg'
        if is_cc(other):
            return s['direct'] == 'cc'
        return None

    def rec(e, s, tr):
        x = e['_X']
        if src(e['_R']) != ROOT:
            return None
        if is_pkg(x):
            tr.append(('rec', 'pkg'))
            return s['rec_pkg']
        if is_cc(x):
            tr.append(('rec', 'cc'))
            return s['rec_cc']
        if isinstance(x, ast.Name) and x.id in ('REF1', 'REF2'):
            tr.append(('rec', x.id))
            return s['refs'][0 if x.id == 'REF1' else 1]
        return None

    def refs(e, s, tr):
        if not is_pkg(e['_X']):
            return None
        tr.append(('phrase', src(e['_PH'])))
        return [absint.Sym(ast.Name(id='REF1', ctx=ast.Load())), absint.Sym(ast.Name(id='REF2', ctx=ast.Load()))]
    atoms = [('not %s' % PE, lambda e, s, tr: False), (PE, lambda e, s, tr: True), ('%s is None' % PE, lambda e, s, tr: False),
             ("type(%s).__name__ != 'PE_PE'" % PE, lambda e, s, tr: s['wrapped']), ("type(%s).__name__ == 'PE_PE'" % PE, lambda e, s, tr: not s['wrapped']),
             ('_A in _L', root_in), ('_A == _B', root_eq), ('is_contained_in(_X, _R)', rec)]
    it = absint.Interp(fn, atoms, iters=[('many(_X).EP_PKG[1402, _PH]()', refs)])
    n = 0
    for direct, rec_pkg, rec_cc, refs_, wrapped in itertools.product(['none', 'pkg', 'cc'], [False, True], [False, True], [(False, False), (False, True)], [False, True]):
        st = {'direct': direct, 'rec_pkg': rec_pkg, 'rec_cc': rec_cc, 'refs': refs_, 'wrapped': wrapped}
        out, tr = it.run(st)
        want = direct != 'none' or rec_pkg or rec_cc or any(refs_)
        got = out.value.value if (out.kind == 'return' and isinstance(out.value, ast.Constant)) else None
        desc = 'is_contained_in(root is %s, package inside root=%d, component inside root=%d, referring packages inside root=%s)' % (
            {'none': 'neither', 'pkg': 'the package', 'cc': 'the component'}[direct], rec_pkg, rec_cc, list(refs_))
        r.check(got is want, '%s -> %s' % (desc, want), fn, construct=Q, key='contained %s %d %d %s' % (direct, rec_pkg, rec_cc, any(refs_)),
                msg='%s must be %s; the code yields %r' % (desc, want, out))
        for t in tr:
            if t[0] == 'phrase':
                r.check(t[1] == "'is referenced by'", 'package references are followed from the referred package to the referring ones', fn,
                        construct=Q, key='phrase', msg='is_contained_in follows R1402 with the phrase %s: containment must go from a package to the '
                                                       'packages that refer to it (\'is referenced by\')' % t[1])
        n += 1
    return r


def globality(r, repo):
    '''is_global: an element is global iff neither it nor any enclosing package is inside a component'''
    fn = repo.func(OOA + 'is_global')
    Q = OOA + 'is_global'
    PE = param_names(fn, skip_self=False)[0]

    def is_parent(x):
        return pm.match('one(_P).EP_PKG[8000].PE_PE[8001]()', x) is not None or pm.match('one(one(_P).EP_PKG[8000]()).PE_PE[8001]()', x) is not None

    def is_cc(x):
        return pm.match('one(_P).C_C[8003]()', x) is not None

    def truth(e, s, tr):
        x = e['_X']
        if is_cc(x):
            return s['in_cc']
        if is_parent(x):
            return s['parent']
        return None

    def rec(e, s, tr):
        if not is_parent(e['_X']):
            return None
        tr.append('rec')
        return s['parent_global']
    atoms = [("type(_E).__name__ != 'PE_PE'", lambda e, s, tr: s['wrapped']), ("type(_E).__name__ == 'PE_PE'", lambda e, s, tr: not s['wrapped']),
             ('is_global(_X)', rec), ('_X is None', lambda e, s, tr: (None if truth(e, s, tr) is None else not truth(e, s, tr))),
             ('_X is not None', truth), ('_X', truth)]
    it = absint.Interp(fn, atoms)
    for in_cc, parent, parent_global, wrapped in itertools.product([False, True], [False, True], [False, True], [False, True]):
        st = {'in_cc': in_cc, 'parent': parent, 'parent_global': parent_global, 'wrapped': wrapped}
        out, tr = it.run(st)
        want = (not in_cc) and (parent_global if parent else True)
        v = out.value if out.kind == 'return' else None
        if isinstance(v, ast.Constant):
            got = v.value
        elif v is not None and pm.match('is_global(_X)', v) and is_parent(pm.match('is_global(_X)', v)['_X']):
            got = parent_global if parent else None
        else:
            got = None
        desc = 'is_global(element directly inside a component=%d, has an enclosing package=%d, that package is global=%d)' % (in_cc, parent, parent_global)
        r.check(got is want, '%s -> %s' % (desc, want), fn, construct=Q, key='global %d %d %d' % (in_cc, parent, parent_global),
                msg='%s must be %s; the code yields %r: is_global no longer rejects elements inside a C_C / recurses through EP_PKG' % (desc, want, out))


def symbols_exact(ctx, rule_id):
    '''prebuild.SymbolTable: identifiers are installed and looked up exactly as spelled (OAL identifiers are case sensitive; only
    keywords are not).  Value-flow rule on the normal form: whatever is compared with / used as a key of Scope.symbols inside
    find_symbol and install_symbol is the unmodified name parameter resp. the unmodified stored key.'''
    from .common import resolve_locals
    repo = ctx.repo
    PBQ = 'bridgepoint.prebuild:SymbolTable.'
    r = ctx.rule(rule_id, 'prebuild symbol table: names are stored and compared exactly as written in the action', floor=3,
                 oracle='OAL identifiers are case sensitive (oal.py t_ID keeps the lexeme)')
    fs = repo.nfunc(PBQ + 'find_symbol')
    ins = repo.nfunc(PBQ + 'install_symbol')
    NAME = param_names(fs)[0]
    keyvars = set()
    for lp in [n for n in ast.walk(fs) if isinstance(n, (ast.For, ast.comprehension))]:
        if not any(isinstance(x, ast.Attribute) and x.attr == 'symbols' for x in ast.walk(lp.iter)):
            continue
        t = lp.target
        items = isinstance(lp.iter, ast.Call) and isinstance(lp.iter.func, ast.Attribute) and lp.iter.func.attr == 'items'
        if items and isinstance(t, ast.Tuple) and len(t.elts) == 2 and isinstance(t.elts[0], ast.Name):
            keyvars.add(t.elts[0].id)
        elif isinstance(t, ast.Name) and not (isinstance(lp.iter, ast.Call) and isinstance(lp.iter.func, ast.Attribute) and lp.iter.func.attr == 'values'):
            keyvars.add(t.id)

    def derived(e, roots):
        return any(isinstance(x, ast.Name) and x.id in roots for x in ast.walk(e))

    def exact(e, roots):
        return isinstance(e, ast.Name) and e.id in roots
    n = 0
    for cmp_ in [x for x in ast.walk(fs) if isinstance(x, ast.Compare)]:
        sides = [resolve_locals(fs, x, pure_only=False) for x in [cmp_.left] + list(cmp_.comparators)]
        if not any(derived(x, {NAME}) for x in sides) or all(isinstance(x, ast.Constant) or exact(x, {NAME}) for x in sides):
            continue        # `name is None` and the like
        if not any(derived(x, keyvars) for x in sides):
            # name in s.symbols / name == <something else>
            for x in sides:
                if derived(x, {NAME}):
                    n += 1
                    r.check(exact(x, {NAME}), 'the requested name is used as given in `%s`' % src(cmp_), cmp_, construct=PBQ + 'find_symbol', key='lookup-exact',
                            msg='find_symbol looks `%s` up instead of the name as written: identifiers that differ only by this transformation '
                                '(e.g. letter case) resolve to the same variable' % src(x))
            continue
        for x in sides:
            if derived(x, {NAME}):
                n += 1
                r.check(exact(x, {NAME}), 'the requested name is compared as given in `%s`' % src(cmp_), cmp_, construct=PBQ + 'find_symbol',
                        key='name-exact', msg='find_symbol compares `%s` instead of the name as written: identifiers that differ only by this '
                                              'transformation (e.g. letter case) resolve to the same variable' % src(x))
            if derived(x, keyvars):
                r.check(exact(x, keyvars), 'the installed name is compared as stored in `%s`' % src(cmp_), cmp_, construct=PBQ + 'find_symbol',
                        key='key-exact', msg='find_symbol compares `%s` instead of the installed name: identifiers that differ only by this '
                                             'transformation (e.g. letter case) resolve to the same variable' % src(x))
    for sub in [x for x in ast.walk(fs) if isinstance(x, ast.Subscript) and isinstance(x.value, ast.Attribute) and x.value.attr == 'symbols'] + \
               [x for x in ast.walk(fs) if isinstance(x, ast.Call) and isinstance(x.func, ast.Attribute) and x.func.attr == 'get' and
                isinstance(x.func.value, ast.Attribute) and x.func.value.attr == 'symbols' and x.args]:
        k = resolve_locals(fs, sub.slice if isinstance(sub, ast.Subscript) else sub.args[0], pure_only=False)
        n += 1
        r.check(exact(k, {NAME}), 'the requested name is the dictionary key in `%s`' % src(sub), sub, construct=PBQ + 'find_symbol', key='lookup-exact',
                msg='find_symbol looks `%s` up instead of the name as written' % src(k))
    r.check(n >= 2, 'find_symbol compares the requested name with the installed names', fs, construct=PBQ + 'find_symbol', key='compares',
            msg='find_symbol no longer compares the requested name with the installed symbol names')
    IN = param_names(ins)[0]
    stores = [t for x in ast.walk(ins) if isinstance(x, ast.Assign) for t in x.targets
              if isinstance(t, ast.Subscript) and isinstance(t.value, ast.Attribute) and t.value.attr == 'symbols']
    stores += [ast.Subscript(value=x.func.value, slice=x.args[0], ctx=ast.Load(), lineno=x.lineno, col_offset=x.col_offset) for x in ast.walk(ins)
               if isinstance(x, ast.Call) and isinstance(x.func, ast.Attribute) and x.func.attr == 'setdefault' and
               isinstance(x.func.value, ast.Attribute) and x.func.value.attr == 'symbols' and x.args]
    r.check(len(stores) == 1, 'install_symbol stores the symbol in the innermost scope', ins, construct=PBQ + 'install_symbol', key='store',
            msg='install_symbol no longer stores into <scope>.symbols[name]')
    for t in stores:
        k = resolve_locals(ins, t.slice, pure_only=False)
        r.check(exact(k, {IN}), 'the name is installed exactly as written', ins, construct=PBQ + 'install_symbol', key='install-exact',
                msg='install_symbol stores the symbol under `%s` instead of the name as written' % src(k))
    return r
