'''
Containment predicates of bridgepoint.ooaofooa (is_contained_in, is_global), shared by C05 (visibility of elements during
prebuild), C14 (component extraction) and C20 (schema generation): decided by abstract execution over the finite
description "which of the enclosing package / component / referring packages is (transitively) the root".
'''
import ast
import itertools

from ..src import AnalysisError, loc, src, param_names
from .. import pm, absint

OOA = 'bridgepoint.ooaofooa:'


def containment(ctx, rule_id):
    repo = ctx.repo
    r = ctx.rule(rule_id, 'is_contained_in: an element is inside a root iff its package / component is the root or is inside it, '
                          'directly or through a package reference', floor=20, oracle='R8000 / R8003 / R1402 of ooaofooa')
    fn = repo.func(OOA + 'is_contained_in')
    Q = OOA + 'is_contained_in'
    PE, ROOT = param_names(fn, skip_self=False)[:2]

    def is_pkg(x):
        return pm.match('one(_P).EP_PKG[8000]()', x) is not None

    def is_cc(x):
        return pm.match('one(_P).C_C[8003]()', x) is not None

    def root_in(e, s, tr):
        L = e['_L']
        if src(e['_A']) != ROOT or not isinstance(L, (ast.Tuple, ast.List, ast.Set)):
            return None
        hit = False
        for x in L.elts:
            if is_pkg(x):
                hit = hit or s['direct'] == 'pkg'
            elif is_cc(x):
                hit = hit or s['direct'] == 'cc'
            else:
                return None
        return hit

    def root_eq(e, s, tr):
        a_, b_ = e['_A'], e['_B']
        other = b_ if src(a_) == ROOT else (a_ if src(b_) == ROOT else None)
        if other is None:
            return None
        if is_pkg(other):
            return s['direct'] == 'pkg'
        if is_cc(other):
            return s['direct'] == 'cc'
        return None

    def rec(e, s, tr):
        x = e['_X']
        if src(e['_R']) != ROOT:
            return None
        if is_pkg(x):
            tr.append(('rec', 'pkg'))
            return s['rec_pkg']
        if is_cc(x):
            tr.append(('rec', 'cc'))
            return s['rec_cc']
        if isinstance(x, ast.Name) and x.id in ('REF1', 'REF2'):
            tr.append(('rec', x.id))
            return s['refs'][0 if x.id == 'REF1' else 1]
        return None

    def refs(e, s, tr):
        if not is_pkg(e['_X']):
            return None
        tr.append(('phrase', src(e['_PH'])))
        return [absint.Sym(ast.Name(id='REF1', ctx=ast.Load())), absint.Sym(ast.Name(id='REF2', ctx=ast.Load()))]
    atoms = [('not %s' % PE, lambda e, s, tr: False), (PE, lambda e, s, tr: True), ('%s is None' % PE, lambda e, s, tr: False),
             ("type(%s).__name__ != 'PE_PE'" % PE, lambda e, s, tr: s['wrapped']), ("type(%s).__name__ == 'PE_PE'" % PE, lambda e, s, tr: not s['wrapped']),
             ('_A in _L', root_in), ('_A == _B', root_eq), ('is_contained_in(_X, _R)', rec)]
    it = absint.Interp(fn, atoms, iters=[('many(_X).EP_PKG[1402, _PH]()', refs)])
    n = 0
    for direct, rec_pkg, rec_cc, refs_, wrapped in itertools.product(['none', 'pkg', 'cc'], [False, True], [False, True], [(False, False), (False, True)], [False, True]):
        st = {'direct': direct, 'rec_pkg': rec_pkg, 'rec_cc': rec_cc, 'refs': refs_, 'wrapped': wrapped}
        out, tr = it.run(st)
        want = direct != 'none' or rec_pkg or rec_cc or any(refs_)
        got = out.value.value if (out.kind == 'return' and isinstance(out.value, ast.Constant)) else None
        desc = 'is_contained_in(root is %s, package inside root=%d, component inside root=%d, referring packages inside root=%s)' % (
            {'none': 'neither', 'pkg': 'the package', 'cc': 'the component'}[direct], rec_pkg, rec_cc, list(refs_))
        r.check(got is want, '%s -> %s' % (desc, want), fn, construct=Q, key='contained %s %d %d %s' % (direct, rec_pkg, rec_cc, any(refs_)),
                msg='%s must be %s; the code yields %r' % (desc, want, out))
        for t in tr:
            if t[0] == 'phrase':
                r.check(t[1] == "'is referenced by'", 'package references are followed from the referred package to the referring ones', fn,
                        construct=Q, key='phrase', msg='is_contained_in follows R1402 with the phrase %s: containment must go from a package to the '
                                                       'packages that refer to it (\'is referenced by\')' % t[1])
        n += 1
    return r


def globality(r, repo):
    '''is_global: an element is global iff neither it nor any enclosing package is inside a component'''
    fn = repo.func(OOA + 'is_global')
    Q = OOA + 'is_global'
    PE = param_names(fn, skip_self=False)[0]

    def is_parent(x):
        return pm.match('one(_P).EP_PKG[8000].PE_PE[8001]()', x) is not None or pm.match('one(one(_P).EP_PKG[8000]()).PE_PE[8001]()', x) is not None

    def is_cc(x):
        return pm.match('one(_P).C_C[8003]()', x) is not None

    def truth(e, s, tr):
        x = e['_X']
        if is_cc(x):
            return s['in_cc']
        if is_parent(x):
            return s['parent']
        return None

    def rec(e, s, tr):
        if not is_parent(e['_X']):
            return None
        tr.append('rec')
        return s['parent_global']
    atoms = [("type(_E).__name__ != 'PE_PE'", lambda e, s, tr: s['wrapped']), ("type(_E).__name__ == 'PE_PE'", lambda e, s, tr: not s['wrapped']),
             ('is_global(_X)', rec), ('_X is None', lambda e, s, tr: (None if truth(e, s, tr) is None else not truth(e, s, tr))),
             ('_X is not None', truth), ('_X', truth)]
    it = absint.Interp(fn, atoms)
    for in_cc, parent, parent_global, wrapped in itertools.product([False, True], [False, True], [False, True], [False, True]):
        st = {'in_cc': in_cc, 'parent': parent, 'parent_global': parent_global, 'wrapped': wrapped}
        out, tr = it.run(st)
        want = (not in_cc) and (parent_global if parent else True)
        v = out.value if out.kind == 'return' else None
        if isinstance(v, ast.Constant):
            got = v.value
        elif v is not None and pm.match('is_global(_X)', v) and is_parent(pm.match('is_global(_X)', v)['_X']):
            got = parent_global if parent else None
        else:
            got = None
        desc = 'is_global(element directly inside a component=%d, has an enclosing package=%d, that package is global=%d)' % (in_cc, parent, parent_global)
        r.check(got is want, '%s -> %s' % (desc, want), fn, construct=Q, key='global %d %d %d' % (in_cc, parent, parent_global),
                msg='%s must be %s; the code yields %r: is_global no longer rejects elements inside a C_C / recurses through EP_PKG' % (desc, want, out))
