'''
C10 - Names are case-insensitive and every spelling addresses one stored value.

  C10-ACCESS     abstract tables of Class.__getattr__/__setattr__/__delattr__:
                 a spelling that matches a declared attribute reaches exactly the
                 declared cell; the raw spelling is never used as a second cell
  C10-NORMALISE  every keyed access to MetaModel.metaclasses and every name
                 comparison in the name-resolution functions is case-normalised
                 with one and the same normaliser
  C10-KWARGS     constructor keywords are resolved to the declared spelling
                 before they are classified / stored
  C10-TYPECASE   attribute type names are normalised before being compared
                 with a literal (xtuml/meta.py)
'''
import ast
import itertools

from ..src import AnalysisError, loc, src, norm, dotted, call_attr, param_names, walk_local, qualname
from .. import pm, absint
from .common import CASE_NORMALISERS, is_case_normalised, strip_normaliser

RAW_COLLECTIONS = ('attribute_names', 'referential_attributes', 'identifying_attributes', 'attributes',
                   '__dict__', 'names')
TYPE_NAMES = ('BOOLEAN', 'INTEGER', 'REAL', 'STRING', 'UNIQUE_ID')


def run(ctx):
    ctx.guard(access, ctx)
    ctx.guard(normalise, ctx)
    ctx.guard(kwargs_rule, ctx)
    ctx.guard(cells, ctx)
    ctx.guard(key_spelling, ctx)
    ctx.guard(typecase, ctx, ['xtuml.meta'], 'C10-TYPECASE')
    from . import c03 as _c03
    from .common import AssocModel as _AM
    ctx.shared(_c03.keys, ctx, _AM(ctx.repo))   # identifying attributes are addressed by the association's spelling in the index keys
    from . import c02 as _c02
    ctx.shared(_c02.ref_rule, ctx, _AM(ctx.repo))   # referential attributes have ONE value: the stored copies are stripped, reads go through the link
    from . import c09 as _c09
    ctx.shared(_c09.nav, ctx)                   # class names given to a navigation are resolved case-insensitively on both hops
    ctx.shared(_c09.where_filter, ctx)          # equality filters read attributes the way every other reader does (getattr)
    ctx.assume('MetaClass.new sets every declared attribute; with C10-CELLS (who writes an instance dictionary) a second cell can only '
               'appear through the three dunder methods')
    return ('Abstract execution of Class.__getattr__/__setattr__/__delattr__ over every combination of '
            '(spelling matches a declared attribute?, spelling identical?, value stored?, other keys present?) '
            'recording which storage cell each path touches; normaliser agreement at every keyed access to '
            'MetaModel.metaclasses and in the name-resolution helpers; constructor keyword resolution.')


# ---------------------------------------------------------------------------
def cells(ctx):
    """who-may-write: an instance dictionary is written (a) by Class.__setattr__ / __delattr__ (decided by C10-ACCESS) and (b) by code that
    stores under the DECLARED spelling, i.e. a key bound by iterating <metaclass>.attributes.  Anything else (update() with another
    instance's dictionary, a key spelled by the caller) can create a second cell for an attribute under another spelling."""
    repo = ctx.repo
    r = ctx.rule('C10-CELLS', 'instance dictionaries are written only under the declared spelling of an attribute', floor=3,
                 oracle='Class.__getattr__ / __setattr__ resolve a name to the declared spelling first')
    n = 0
    for modname in sorted(repo.modules):
        mod = repo.modules[modname]
        for fn in [x for x in ast.walk(mod.tree) if isinstance(x, ast.FunctionDef)]:
            owner = getattr(fn, '_parent', None)
            in_class_dunder = isinstance(owner, ast.ClassDef) and owner.name == 'Class' and fn.name in ('__setattr__', '__delattr__', '__init__')
            q = '%s:%s%s' % (modname, owner.name + '.' if isinstance(owner, ast.ClassDef) else '', fn.name)

            def declared(key):
                """is `key` bound by a loop over <x>.attributes (directly, or by unpacking the loop variable)?"""
                if not isinstance(key, ast.Name):
                    return False
                loops = [l for l in ast.walk(fn) if isinstance(l, (ast.For, ast.comprehension)) and '.attributes' in src(l.iter)
                         and 'referential' not in src(l.iter)]
                for l in loops:
                    tn = set(x.id for x in ast.walk(l.target) if isinstance(x, ast.Name))
                    if key.id in tn:
                        return True
                    for a in ast.walk(fn):
                        if isinstance(a, ast.Assign) and isinstance(a.value, ast.Name) and a.value.id in tn and \
                                key.id in set(x.id for t in a.targets for x in ast.walk(t) if isinstance(x, ast.Name)):
                            return True
                return False
            for node in walk_local(fn):
                site = None
                if isinstance(node, (ast.Assign, ast.AugAssign)):
                    for t in (node.targets if isinstance(node, ast.Assign) else [node.target]):
                        if isinstance(t, ast.Subscript) and (isinstance(t.value, ast.Attribute) and t.value.attr == '__dict__' or
                                                             isinstance(t.value, ast.Call) and dotted(t.value.func) == 'vars'):
                            site = ('store', t.slice, t)
                        if isinstance(t, ast.Attribute) and t.attr == '__dict__':
                            site = ('replace', None, t)
                elif isinstance(node, ast.Call) and isinstance(node.func, ast.Attribute) and node.func.attr in ('update', 'setdefault', '__setitem__') and \
                        (isinstance(node.func.value, ast.Attribute) and node.func.value.attr == '__dict__' or
                         isinstance(node.func.value, ast.Call) and dotted(node.func.value.func) == 'vars'):
                    site = (node.func.attr, node.args[0] if node.args and node.func.attr != 'update' else None, node)
                elif isinstance(node, ast.Call) and dotted(node.func) == 'object.__setattr__':
                    site = ('object.__setattr__', node.args[1] if len(node.args) > 1 else None, node)
                if site is None:
                    continue
                obj = src(site[2]).split('.__dict__')[0]
                if obj == 'self' and not (isinstance(owner, ast.ClassDef) and owner.name == 'Class'):
                    continue            # a walker / loader / metaclass writing its own dictionary: not a model instance
                n += 1
                ok = in_class_dunder or (site[0] in ('store', 'setdefault', '__setitem__', 'object.__setattr__') and site[1] is not None and declared(site[1]))
                r.check(ok, '%s writes an instance dictionary under a declared attribute name' % q, site[2], construct=q, key='cell-write ' + site[0],
                        msg='%s writes the dictionary of an instance directly (`%s`) %s: a name spelled in another letter case than the declared attribute '
                            'gets a second storage cell, after which the spellings of one attribute can hold different values'
                            % (q, src(node)[:80], 'with keys that are not bound by iterating <metaclass>.attributes' if site[1] is not None
                               else 'wholesale (keys as the other dictionary happens to spell them)'))
    if n < 3:
        raise AnalysisError('only %d writes of instance dictionaries found (expected the loader\'s two and Class.__setattr__)' % n)


def key_spelling(ctx):
    """an association names the attributes of two existing classes; everything the association installs for them (referential property,
    referential_attributes, key maps) is keyed by those names, while the instance is created and read under the DECLARED names.  Names are
    case insensitive, so define_association maps the names it is given onto the declared spelling of the class they belong to - otherwise
    one attribute gets two cells (the stored default under the declared spelling, the link-computed value under the association's)."""
    from .common import declared_spelling, resolve_locals
    repo = ctx.repo
    r = ctx.rule('C10-KEYSPELL', 'association keys are mapped onto the declared spelling of the class they belong to', floor=2,
                 oracle='Class.__getattr__ / MetaClass.new address attributes by the declared spelling')
    Q = 'xtuml.meta:MetaModel.define_association'
    fn = repo.nfunc(Q)
    calls = [n for n in ast.walk(fn) if isinstance(n, ast.Call) and dotted(n.func) == 'Association']
    if len(calls) != 1:
        raise AnalysisError('%s: define_association does not construct exactly one Association' % loc(fn))
    init = repo.func('xtuml.meta:Association.__init__')
    from ..src import bind_call
    b = bind_call(calls[0], init)
    mc_of = {}
    for n in ast.walk(fn):
        if isinstance(n, ast.Assign) and len(n.targets) == 1 and isinstance(n.targets[0], ast.Name) and isinstance(n.value, ast.Call) and \
                call_attr(n.value) == 'find_metaclass' and n.value.args:
            mc_of[n.targets[0].id] = src(n.value.args[0])
    for field, kind_param in (('source_keys', 'source_kind'), ('target_keys', 'target_kind')):
        e = b.get(field)
        if e is None:
            raise AnalysisError('%s: Association(...) gets no %s' % (loc(calls[0]), field))
        v = resolve_locals(fn, e)
        d = declared_spelling(v)
        ok = False
        if d is not None:
            keys, mc = d
            mc_s = src(mc)
            kind_s = mc_of.get(mc_s) or (src(mc.args[0]) if isinstance(mc, ast.Call) and call_attr(mc) == 'find_metaclass' and mc.args else None)
            ok = src(keys) == field and kind_s == kind_param
        r.check(ok, '%s are mapped onto the spelling declared by %s' % (field, kind_param), calls[0], construct=Q, key='declared ' + field,
                msg='define_association hands `%s` to the Association as %s: the names stay as the caller spelled them, while instances are created and read '
                    'under the spelling the class declares; for a key spelled in another letter case the referential property and the stored attribute '
                    'are two cells with two values (b.a_id navigates, b.A_Id returns the stored default)' % (src(v)[:80], field))


class Elem(object):
    def __init__(self, match, label):
        self.match = match
        self.label = label

    def __repr__(self):
        return self.label


def _cell(node, state, param):
    '''which storage key does the expression `node` denote?'''
    if isinstance(node, ast.Name):
        env = state.get('env', {})
        if node.id in env:
            el = env[node.id]
            if isinstance(el, tuple):
                return 'other'
            return 'declared' if el.match else 'nonmatching'
        if node.id == param:
            return 'raw'
    return 'unknown:' + src(node)


def _mk_interp(fn, iter_patterns, param, extra_atoms=()):
    flags = {}

    def norm_assign(e, s, tr):
        v = e['_V']
        if is_case_normalised(v) and isinstance(v.func.value, ast.Name):
            base = v.func.value.id
            is_elem = base in s.get('env', {})
            s.setdefault('nvars', {})[e['_N'].id] = (base, v.func.attr, s['env'][base] if is_elem else None)
            return True
        return False

    def cmp_atom(negate):
        def f(e, s, tr):
            a, b = e['_A'], e['_B']
            env = s.get('env', {})
            # one side: <loopvar>.<norm>() ; other side: normalised variable of the parameter
            sides = []
            for x in (a, b):
                if is_case_normalised(x) and isinstance(x.func.value, ast.Name):
                    sides.append(('call', x.func.value.id, x.func.attr, env.get(x.func.value.id)))
                elif isinstance(x, ast.Name) and x.id in s.get('nvars', {}):
                    base, n, el = s['nvars'][x.id]
                    sides.append(('var', base, n, el))
                elif isinstance(x, ast.Name):
                    sides.append(('raw', x.id, None, env.get(x.id)))
                else:
                    return None
            elem_side = [x for x in sides if x[3] is not None]
            other_side = [x for x in sides if x[3] is None]
            if len(elem_side) != 1 or len(other_side) != 1:
                return None
            es, os_ = elem_side[0], other_side[0]
            el = es[3]
            if isinstance(el, tuple):
                return None
            if es[2] != os_[2] or es[2] is None:
                # raw comparison or different normalisers: equal only when the spelling is identical
                tr.append(('raw-compare', '%s vs %s' % (es[:3], os_[:3])))
                res = bool(getattr(el, 'match', False) and s['exact'])
            else:
                res = bool(getattr(el, 'match', False))
            return (not res) if negate else res
        return f

    def none_atom(negate):
        def f(e, s, tr):
            x = e['_X']
            if isinstance(x, ast.Name) and isinstance(s.get('env', {}).get(x.id), Elem):
                return negate        # a loop element is a declared name, never None
            return None
        return f

    atoms = [('_X is None', none_atom(False)), ('_X is not None', none_atom(True)),
             ('_A != _B', cmp_atom(True)), ('_A == _B', cmp_atom(False))] + list(extra_atoms)
    effects = [('_N = _V', norm_assign)]
    iters = [(p, f) for p, f in iter_patterns]
    it = absint.Interp(fn, atoms, effects, iters=iters)
    return it


def access(ctx):
    repo = ctx.repo
    r = ctx.rule('C10-ACCESS', 'abstract tables of Class.__getattr__/__setattr__/__delattr__: one cell per attribute',
                 floor=14, oracle='property statement (a value written under one spelling is the value read under every other)')
    cls = repo.cls('xtuml.meta:Class')
    methods = repo.methods(cls)
    for need in ('__getattr__', '__setattr__', '__delattr__'):
        if need not in methods:
            raise AnalysisError('%s: Class.%s is missing' % (loc(cls), need))

    def attr_iter(e, s, tr):
        els = [Elem(False, 'other-attr')]
        if s['declared']:
            els.append(Elem(True, 'declared-attr'))
        els.append(Elem(False, 'later-attr'))
        return els

    # ---- __setattr__
    fn = methods['__setattr__']
    P, V = param_names(fn)[:2]

    def in_dict(negate):
        def f(e, s, tr):
            c = _cell(e['_K'], s, P)
            if c == 'declared':
                res = s['stored']
            elif c == 'raw':
                res = s['stored'] and s['declared'] and s['exact']
            else:
                res = False
            return (not res) if negate else res
        return f

    def store_dict(e, s, tr):
        tr.append(('store', _cell(e['_K'], s, P), 'dict'))

    def store_obj(e, s, tr):
        tr.append(('store', _cell(e['_K'], s, P), 'object'))

    it = _mk_interp(fn, [('get_metaclass(self).attributes', attr_iter)], P,
                    extra_atoms=[('_K in self.__dict__', in_dict(False)), ('_K not in self.__dict__', in_dict(True))])
    it.effects += [('self.__dict__[_K] = %s' % V, store_dict),
                   ('object.__setattr__(self, _K, %s)' % V, store_obj),
                   ('setattr(self, _K, %s)' % V, store_obj)]
    for declared, exact, stored in itertools.product([False, True], repeat=3):
        if exact and not declared:
            continue
        st = dict(declared=declared, exact=exact, stored=stored)
        desc = '__setattr__(spelling matches declared=%d, identical=%d, value stored=%d)' % (declared, exact, stored)
        out, tr = it.run(dict(st))
        stores = [t[1] for t in tr if t[0] == 'store']
        cells = set('declared' if (c == 'raw' and exact) else c for c in stores)
        if declared:
            ok = cells == {'declared'}
            msg = ('%s: the write must reach exactly the declared cell; cells written: %s -- a second key under the raw '
                   'spelling makes later reads under the declared spelling stale' % (desc, stores))
        else:
            ok = cells == {'raw'}
            msg = '%s: an undeclared name must be stored under its own spelling; cells written: %s' % (desc, stores)
        r.check(ok, desc, fn, construct='xtuml.meta:Class.__setattr__', key='cells %s %s' % (sorted(cells), declared), msg=msg)
        if declared and not stored:
            hows = [t[2] for t in tr if t[0] == 'store']
            r.check(hows == ['object'], desc + ': a declared attribute without a stored value is written through the class (descriptor protocol)',
                    fn, construct='xtuml.meta:Class.__setattr__', key='bypass-descriptor',
                    msg='%s: the value is written straight into the instance dictionary (%s); a declared attribute that has no stored value may '
                        'be a referential attribute whose class-level property must receive (and reject) the write -- otherwise a shadow '
                        'value appears that other spellings read' % (desc, hows))
        for t in tr:
            if t[0] == 'raw-compare' and declared and not exact:
                r.violation('%s: name comparison without a common case normaliser (%s)' % (desc, t[1]), fn,
                            construct='xtuml.meta:Class.__setattr__', key='raw-compare')

    # ---- __getattr__
    fn = methods['__getattr__']
    P = param_names(fn)[0]
    it = _mk_interp(fn, [('get_metaclass(self).attributes', attr_iter)], P,
                    extra_atoms=[('_K in self.__dict__', in_dict(False)), ('_K not in self.__dict__', in_dict(True))])
    for declared, exact, stored in itertools.product([False, True], repeat=3):
        if exact and not declared:
            continue
        st = dict(declared=declared, exact=exact, stored=stored)
        desc = '__getattr__(spelling matches declared=%d, identical=%d, value stored=%d)' % (declared, exact, stored)
        out, tr = it.run(dict(st, env={}))
        # re-run keeps env in the state we passed; use a fresh state and capture env
        state = dict(st)
        out, tr = it.run(state)
        cell = None
        how = None
        if out.kind == 'return' and out.value is not None:
            m = pm.match('self.__dict__[_K]', out.value)
            if m:
                cell, how = _cell(m['_K'], state, P), 'dict'
            m = pm.match('object.__getattribute__(self, _K)', out.value) or pm.match('getattr(self, _K)', out.value)
            if m:
                cell, how = _cell(m['_K'], state, P), 'object'
        if cell == 'raw' and exact:
            cell = 'declared'
        if declared:
            ok = cell == 'declared' and (how == 'dict') == stored
            msg = '%s must read the declared cell (%s); it ends with %r reading cell %s via %s' % (
                desc, 'instance dict' if stored else 'class attribute / property', out, cell, how)
        else:
            ok = cell == 'raw' and how == 'object'
            msg = '%s must fall back to the normal lookup of the given name; it ends with %r' % (desc, out)
        r.check(ok, desc, fn, construct='xtuml.meta:Class.__getattr__', key='read %s %s %s' % (cell, how, declared), msg=msg)

    # ---- __delattr__
    fn = methods['__delattr__']
    P = param_names(fn)[0]

    def dict_iter(e, s, tr):
        els = []
        if s['others']:
            els.append(Elem(False, 'other-key'))
        if s['stored']:
            els.append(Elem(True, 'matching-key'))
        if s['others']:
            els.append(Elem(False, 'later-key'))
        return els

    def del_dict(e, s, tr):
        tr.append(('del', _cell(e['_K'], s, P)))

    it = _mk_interp(fn, [('self.__dict__', dict_iter), ('list(self.__dict__)', dict_iter),
                         ('self.__dict__.keys()', dict_iter), ('list(self.__dict__.keys())', dict_iter),
                         ('get_metaclass(self).attributes', attr_iter)], P)
    it.effects += [('del self.__dict__[_K]', del_dict), ('self.__dict__.pop(_K)', del_dict), ('self.__dict__.pop(_K, _D)', del_dict),
                   ('object.__delattr__(self, _K)', del_dict)]
    for stored, others in itertools.product([False, True], repeat=2):
        st = dict(stored=stored, others=others, exact=False, declared=True)
        desc = '__delattr__(a stored key matches=%d, other keys stored=%d)' % (stored, others)
        state = dict(st)
        out, tr = it.run(state)
        dels = [t[1] for t in tr if t[0] == 'del']
        if stored:
            ok = dels == ['declared']
            msg = '%s must delete exactly the matching stored key; deleted cells: %s' % (desc, dels)
        else:
            ok = all(d == 'raw' for d in dels)
            msg = ('%s: nothing matches, yet the stored cell(s) %s are deleted -- the search loop variable is used after '
                   'the loop without a no-match exit' % (desc, dels))
        r.check(ok, desc, fn, construct='xtuml.meta:Class.__delattr__', key='delete %s stored=%d' % (sorted(set(dels)), stored), msg=msg)


# ---------------------------------------------------------------------------
def _normalised_name(fn, node, depth=0):
    '''returns the normaliser name if `node` (an expr) is case-normalised: a direct X.upper() call, or a local Name
    all of whose assignments in fn are normaliser calls (of one kind); "keys" if it ranges over the dict's own keys'''
    if is_case_normalised(node):
        return node.func.attr
    if isinstance(node, ast.Name):
        vals = []
        for n in ast.walk(fn):
            if isinstance(n, ast.Assign):
                for t in n.targets:
                    if isinstance(t, ast.Name) and t.id == node.id:
                        vals.append(n.value)
            elif isinstance(n, (ast.For, ast.comprehension)):
                t = n.target
                if isinstance(t, ast.Name) and t.id == node.id:
                    vals.append(('iter', n.iter))
        if not vals:
            return None
        kinds = set()
        for v in vals:
            if isinstance(v, tuple):
                it = v[1]
                while isinstance(it, ast.Call) and isinstance(it.func, ast.Name) and it.func.id in ('sorted', 'list', 'iter', 'reversed', 'tuple', 'set') \
                        and it.args:
                    it = it.args[0]
                if isinstance(it, ast.Call) and isinstance(it.func, ast.Attribute) and it.func.attr == 'keys' and not it.args:
                    it = it.func.value
                s = src(it)
                if s.endswith('.metaclasses'):
                    kinds.add('keys')
                else:
                    kinds.add(None)
            else:
                kinds.add(v.func.attr if is_case_normalised(v) else None)
        if len(kinds) == 1:
            return kinds.pop()
    return None


def normalise(ctx):
    repo = ctx.repo
    r = ctx.rule('C10-NORMALISE', 'keyed accesses to MetaModel.metaclasses and name comparisons use one case normaliser',
                 floor=8, oracle='sibling agreement between define_class / find_metaclass / loader / helpers')
    used = set()
    for modname, mod in sorted(repo.modules.items()):
        for node in ast.walk(mod.tree):
            key = None
            if isinstance(node, ast.Subscript) and isinstance(node.value, ast.Attribute) and node.value.attr == 'metaclasses':
                key = node.slice
            elif isinstance(node, ast.Compare) and len(node.ops) == 1 and isinstance(node.ops[0], (ast.In, ast.NotIn)) \
                    and isinstance(node.comparators[0], ast.Attribute) and node.comparators[0].attr == 'metaclasses':
                key = node.left
            if key is None:
                continue
            fn = node
            while fn is not None and not isinstance(fn, (ast.FunctionDef, ast.Lambda)):
                fn = fn._parent
            scope = fn
            while scope is not None and isinstance(scope, ast.Lambda):
                scope = scope._parent
                while scope is not None and not isinstance(scope, (ast.FunctionDef, ast.Lambda)):
                    scope = scope._parent
            n = _normalised_name(scope if scope is not None else mod.tree, key)
            q = qualname(node)
            if n is None:
                r.violation('%s: MetaModel.metaclasses is accessed with key `%s` that is not case-normalised'
                            % (q, src(key)), node, construct=q, key='raw-key ' + src(node))
            else:
                if n != 'keys':
                    used.add(n)
                r.ok('%s: metaclasses[%s] normalised by %s' % (q, src(key), n), node, construct=q + src(node))
    r.check(len(used) <= 1, 'one normaliser (%s) for all class-name keys' % sorted(used), None,
            construct='xtuml:metaclasses', key='mixed-normalisers',
            msg='class names are normalised with different functions at different sites: %s' % sorted(used))

    # name comparisons in the helpers
    for qual in ('xtuml.meta:MetaClass.attribute_type', 'xtuml.meta:_is_null',
                 'xtuml.load:ModelLoader._populate_instance_with_named_arguments'):
        fn = repo.func(qual)
        n_cmp = 0
        for node in ast.walk(fn):
            if not isinstance(node, ast.Compare) or len(node.ops) != 1:
                continue
            if not isinstance(node.ops[0], (ast.Eq, ast.NotEq, ast.In, ast.NotIn)):
                continue
            a, b = node.left, node.comparators[0]
            # only comparisons between two *names of attributes* are of interest: at least one side is normalised
            na = _side_norm(fn, a, node)
            if isinstance(node.ops[0], (ast.In, ast.NotIn)):
                if isinstance(b, ast.Name):
                    nb = _side_norm(fn, b, node)
                elif isinstance(b, ast.Attribute) and b.attr in RAW_COLLECTIONS:
                    nb = None
                else:
                    continue    # container of unknown content (metaclasses is handled above)
            else:
                nb = _side_norm(fn, b, node)
            if na is None and nb is None:
                continue
            if isinstance(a, ast.Constant) or isinstance(b, ast.Constant):
                continue   # comparison with a literal: C10-TYPECASE
            n_cmp += 1
            r.check(na == nb, '%s: `%s` compares two spellings through %s' % (qual, src(node), na), node,
                    construct=qual, key='cmp ' + src(node),
                    msg='%s: `%s` compares a case-normalised name with one that is %s' % (
                        qual, src(node), 'not normalised' if None in (na, nb) else 'normalised differently'))
        if n_cmp == 0:
            r.violation('%s contains no case-normalised name comparison any more' % qual, fn, construct=qual,
                        key='no-normalised-compare')


def _side_norm(fn, node, use=None):
    '''normaliser applied to the value of `node` at the place `use` (line-ordered approximation, adequate for
    the straight-line helpers this is applied to); None = raw spelling'''
    if is_case_normalised(node):
        return node.func.attr
    if isinstance(node, ast.Name):
        kinds = set()
        for n in ast.walk(fn):
            if isinstance(n, ast.Assign):
                if use is not None and n.lineno >= use.lineno:
                    continue
                for t in n.targets:
                    if isinstance(t, ast.Name) and t.id == node.id:
                        v = n.value
                        if is_case_normalised(v):
                            kinds.add(v.func.attr)
                        elif isinstance(v, ast.ListComp) and is_case_normalised(v.elt):
                            kinds.add(v.elt.func.attr)
                        elif isinstance(v, ast.Call) and dotted(v.func) in ('set', 'list', 'tuple') and v.args \
                                and isinstance(v.args[0], ast.Name):
                            kinds.add(_side_norm(fn, v.args[0], n))
                        else:
                            kinds.add(None)
        if len(kinds) == 1:
            return kinds.pop()
    return None


# ---------------------------------------------------------------------------
def kwargs_rule(ctx):
    repo = ctx.repo
    r = ctx.rule('C10-KWARGS', 'MetaClass.new resolves keyword names to the declared spelling before classifying them',
                 floor=1, oracle='positional route (zip with self.attributes) uses declared names; keywords must agree')
    fn = repo.func('xtuml.meta:MetaClass.new')
    loops = [n for n in walk_local(fn) if isinstance(n, ast.For) and pm.match('kwargs.items()', n.iter) is not None]
    if not loops:
        raise AnalysisError('%s: MetaClass.new has no loop over kwargs.items()' % loc(fn))
    for lp in loops:
        if not (isinstance(lp.target, ast.Tuple) and isinstance(lp.target.elts[0], ast.Name)):
            raise AnalysisError('%s: kwargs loop target not understood' % loc(lp))
        nv = lp.target.elts[0].id
        tests = [n for n in ast.walk(lp) if isinstance(n, ast.Compare) and isinstance(n.ops[0], (ast.In, ast.NotIn))
                 and pm.match('self.referential_attributes', n.comparators[0]) is not None]
        resolved = False
        for n in lp.body:
            # name = <expr containing name.<normaliser>()>
            if isinstance(n, ast.Assign) and any(isinstance(t, ast.Name) and t.id == nv for t in n.targets):
                if any(is_case_normalised(c) and isinstance(c.func.value, ast.Name) and c.func.value.id == nv
                       for c in ast.walk(n.value)):
                    resolved = True
        if not tests:
            r.info('kwargs loop has no referential-attribute test', lp)
        for t in tests:
            raw = isinstance(t.left, ast.Name) and t.left.id == nv and not resolved
            r.check(not raw, 'keyword name is resolved to its declared spelling before `%s`' % src(t), t,
                    construct='xtuml.meta:MetaClass.new', key='raw-kwarg ' + src(t),
                    msg='MetaClass.new classifies the keyword `%s` with `%s` using its raw spelling: a referential '
                        'attribute given in another letter case is treated as a plain one' % (nv, src(t)))


# ---------------------------------------------------------------------------
def typecase(ctx, modnames, rule_id):
    repo = ctx.repo
    r = ctx.rule(rule_id, 'attribute type names are case-normalised before comparison with a literal', floor=3,
                 oracle='type names are case-insensitive (serialize_class upper-cases, SQL files use both)')
    for modname in modnames:
        mod = repo.module(modname)
        for node in ast.walk(mod.tree):
            if not isinstance(node, ast.Compare) or len(node.ops) != 1:
                continue
            a, b = node.left, node.comparators[0]
            lit, other = None, None
            for x, y in ((a, b), (b, a)):
                if isinstance(x, ast.Constant) and isinstance(x.value, str) and x.value.upper() in TYPE_NAMES:
                    lit, other = x, y
            if lit is None or not isinstance(node.ops[0], (ast.Eq, ast.NotEq)):
                continue
            fn = node
            while fn is not None and not isinstance(fn, ast.FunctionDef):
                fn = fn._parent
            if fn is None:
                continue
            want = 'upper' if lit.value.isupper() else ('lower' if lit.value.islower() else None)
            got = _side_norm(fn, other, node)
            if got is None and isinstance(other, ast.Name):
                # `ty = ty.upper()` re-assignment of a parameter counts when it dominates: accept if ANY assignment
                # normalises and the parameter is never compared before it (cheap approximation: first statement use)
                got = _reassigned_norm(fn, other.id, node)
            q = qualname(node)
            r.check(got == want and want is not None, '%s: `%s` compares a %s-normalised type name' % (q, src(node), want),
                    node, construct=q, key='typecmp ' + src(node),
                    msg='%s: `%s` compares a type name with the literal %r without normalising its case first'
                        % (q, src(node), lit.value))


def _reassigned_norm(fn, name, use):
    kinds = set()
    for n in ast.walk(fn):
        if isinstance(n, ast.Assign) and any(isinstance(t, ast.Name) and t.id == name for t in n.targets):
            if is_case_normalised(n.value) and n.lineno < use.lineno:
                kinds.add(n.value.func.attr)
            else:
                kinds.add(None)
    if len(kinds) == 1:
        return kinds.pop()
    return None
