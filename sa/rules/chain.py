'''
Rule CHAIN-DIR (DESIGN.md section 3): reflexive succession associations (R661, R816, R604, R103, R56, R46, ...).

Orientation oracle = the name of the referential key in the schema: a `Previous*` / `P*_ID` key means the referring
instance is the LATER element, a `Next*` key means it is the EARLIER one.  Platform semantics (C02-SWAP):
relate(a, b, R, phi) makes `a` the referring instance iff phi is the FROM phrase of the ROP, and a navigation
x -> K[R, phi] leads from the referring to the referred instance iff phi is the FROM phrase.
'''
import ast

from ..src import AnalysisError, loc, src, dotted, call_attr, param_names, walk_local, qualname
from .. import pm
from ..schema import schema as get_schema


class NavUse(object):
    def __init__(self, node, kind, rel, phrase, root, role, fn):
        self.node = node        # the Subscript  <chain>.K[R, 'phrase']
        self.kind = kind
        self.rel = rel
        self.phrase = phrase
        self.root = root        # source text of the navigation start: one(<root>)
        self.role = role        # 'first-filter' | 'has-predecessor' | 'advance' | 'unknown'
        self.fn = fn


def _subscript_parts(sub):
    '''X.K[R] / X.K[R, 'phrase'] -> (kind, rel, phrase, base expr) or None'''
    if not isinstance(sub, ast.Subscript) or not isinstance(sub.value, ast.Attribute):
        return None
    kind = sub.value.attr
    sl = sub.slice
    rel = phrase = None
    if isinstance(sl, ast.Constant) and isinstance(sl.value, int):
        rel, phrase = sl.value, ''
    elif isinstance(sl, ast.Tuple) and len(sl.elts) == 2 and isinstance(sl.elts[0], ast.Constant) \
            and isinstance(sl.elts[1], ast.Constant):
        rel, phrase = sl.elts[0].value, sl.elts[1].value
    elif isinstance(sl, ast.Constant) and isinstance(sl.value, str) and sl.value[:1] == 'R' and sl.value[1:].isdigit():
        rel, phrase = int(sl.value[1:]), ''
    if not isinstance(rel, int):
        if isinstance(rel, str) and rel[:1] == 'R' and rel[1:].isdigit():
            rel = int(rel[1:])
        else:
            return None
    return kind, rel, phrase, sub.value.value


def nav_root(expr):
    '''one(x) / any(x) / many(x) / nav_one(x) ... at the bottom of a chain -> source of x'''
    cur = expr
    while True:
        if isinstance(cur, ast.Subscript):
            cur = cur.value
        elif isinstance(cur, ast.Attribute):
            cur = cur.value
        elif isinstance(cur, ast.Call) and isinstance(cur.func, (ast.Attribute, ast.Subscript)):
            cur = cur.func
        else:
            break
    if isinstance(cur, ast.Call) and isinstance(cur.func, ast.Name) and cur.args:
        return src(cur.args[0])
    return None


def reader_sites(fn, rel):
    '''navigation uses of succession association `rel` inside fn with their role'''
    out = []
    for n in ast.walk(fn):
        parts = _subscript_parts(n)
        if not parts or parts[1] != rel:
            continue
        kind, r, phrase, base = parts
        # only a single-step navigation from one(x)
        call = n._parent if isinstance(n._parent, ast.Call) and n._parent.func is n else None
        root = nav_root(n)
        role = 'unknown'
        if call is not None:
            par = call._parent
            if isinstance(par, ast.UnaryOp) and isinstance(par.op, ast.Not):
                role = 'first-filter'
            elif isinstance(par, ast.Compare) and len(par.ops) == 1 and isinstance(par.comparators[0], ast.Constant) \
                    and par.comparators[0].value is None:
                role = 'first-filter' if isinstance(par.ops[0], ast.Is) else 'has-predecessor'
            elif isinstance(par, ast.Assign) and len(par.targets) == 1 and src(par.targets[0]) == root:
                role = 'advance'
            elif isinstance(par, ast.Call) and call_attr(par) == 'accept' and root is not None:
                role = 'advance'
            elif isinstance(par, ast.Assign):
                role = 'advance' if _in_loop(par) else 'unknown'
        out.append(NavUse(n, kind, rel, phrase, root, role, fn))
    return out


def _in_loop(node):
    cur = node._parent
    while cur is not None and not isinstance(cur, (ast.FunctionDef, ast.Lambda)):
        if isinstance(cur, (ast.While, ast.For)):
            return True
        cur = cur._parent
    return False


def check_reader(ctx, r, use, qual):
    sc = get_schema(ctx.repo)
    s = sc.succession(use.rel)
    if s is None:
        raise AnalysisError('R%d is not a succession association in the schema' % use.rel)
    want = {'first-filter': s['to_predecessor'], 'has-predecessor': s['to_predecessor'], 'advance': s['to_successor']}
    if use.role == 'unknown':
        r.info('%s: navigation %s of R%d has no recognised role' % (qual, src(use.node), use.rel), use.node)
        return None
    ok = use.phrase == want[use.role]
    what = {'first-filter': 'selects the element that has no neighbour across the phrase, i.e. must look towards the predecessor',
            'has-predecessor': 'tests for a predecessor', 'advance': 'moves to the next element in source order'}[use.role]
    r.check(ok, '%s: R%d %s uses phrase %r' % (qual, use.rel, use.role, use.phrase), use.node, construct=qual,
            key='chain-reader R%d %s %s' % (use.rel, use.role, use.phrase),
            msg='%s: `%s` %s; with %s.%s as referential key the %s element refers to its neighbour, so the phrase must be %r, '
                'not %r' % (qual, src(use.node), what, s['kind'], s['key'], s['referring'], want[use.role], use.phrase))
    return ok


class WriterSite(object):
    def __init__(self, call, rel, phrase, a, b, loop, direction, prev_var, cur_var, fn):
        self.call, self.rel, self.phrase, self.a, self.b = call, rel, phrase, a, b
        self.loop, self.direction, self.prev_var, self.cur_var, self.fn = loop, direction, prev_var, cur_var, fn


def writer_sites(fn, rels):
    '''relate(x, y, R, phrase) calls on succession associations inside a loop that carries a `prev` variable'''
    out = []
    for n in ast.walk(fn):
        if not (isinstance(n, ast.Call) and (dotted(n.func) in ('relate', 'xtuml.relate'))):
            continue
        if len(n.args) < 3 or not isinstance(n.args[2], ast.Constant) or n.args[2].value not in rels:
            continue
        phrase = n.args[3].value if len(n.args) > 3 and isinstance(n.args[3], ast.Constant) else ''
        a, b = src(n.args[0]), src(n.args[1])
        loop = n._parent
        while loop is not None and not isinstance(loop, ast.For):
            loop = loop._parent
        if loop is None:
            out.append(WriterSite(n, n.args[2].value, phrase, a, b, None, None, None, None, fn))
            continue
        it = loop.iter
        if pm.match('reversed(_X)', it) is not None:
            direction = 'backward'
        else:
            direction = 'forward'
        # prev variable: assigned from the other operand at the end of the loop body
        prev_var = cur_var = None
        for st in loop.body:
            m = pm.match('_P = _C', st)
            if m and isinstance(m['_P'], ast.Name) and isinstance(m['_C'], ast.Name):
                if m['_P'].id in (a, b) and m['_C'].id in (a, b):
                    prev_var, cur_var = m['_P'].id, m['_C'].id
        out.append(WriterSite(n, n.args[2].value, phrase, a, b, loop, direction, prev_var, cur_var, fn))
    return out


def check_writer(ctx, r, w, qual):
    sc = get_schema(ctx.repo)
    s = sc.succession(w.rel)
    if s is None:
        raise AnalysisError('R%d is not a succession association in the schema' % w.rel)
    if w.loop is None or w.prev_var is None:
        r.info('%s: relate over R%d outside a prev-carrying loop' % (qual, w.rel), w.call)
        return None
    if w.phrase == s['from_phrase']:
        referring_operand = w.a
    elif w.phrase == s['to_phrase']:
        referring_operand = w.b
    else:
        r.violation('%s: `%s` uses phrase %r, which R%d does not have (%r / %r)' % (qual, src(w.call), w.phrase, w.rel,
                                                                                  s['from_phrase'], s['to_phrase']),
                    w.call, construct=qual, key='chain-writer R%d bad-phrase' % w.rel)
        return False
    prev_is = 'earlier' if w.direction == 'forward' else 'later'
    cur_is = 'later' if w.direction == 'forward' else 'earlier'
    referring_is = prev_is if referring_operand == w.prev_var else cur_is
    ok = referring_is == s['referring']
    r.check(ok, '%s: R%d is chained with the %s element referring (%s)' % (qual, w.rel, referring_is, s['key']), w.call, construct=qual,
            key='chain-writer R%d' % w.rel,
            msg='%s: `%s` (loop runs %s, `%s` is the %s element) makes the %s element the referring one, but the referential '
                'key %s.%s must be held by the %s element: the persisted reference designates the wrong neighbour'
                % (qual, src(w.call), w.direction, w.prev_var, prev_is, referring_is, s['kind'], s['key'], s['referring']))
    return ok
