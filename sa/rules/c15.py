'''
C15 - Callable model elements behave as their OAL bodies specify.

  C15-NULLABLE  a Node field that the grammar may leave None is never dereferenced unguarded after accept()
  C15-FRESH     every invocation evaluates in a new walker / symbol table; nothing is cached across calls
  C15-BIND      parameters are bound by name; self is the receiving instance (None for class-based operations)
  C15-RETURN    return_value is written only by the return evaluator and read only by run_*
  C15-ENUM      enumerators are numbered along the modelled succession (R56), constants by their modelled type
'''
import ast

from ..src import AnalysisError, loc, src, dotted, call_attr, param_names, body_without_doc, walk_local, bind_call
from .. import pm, cfg as cfgmod
from . import nodes
from .common import exception_class_name

INT = 'bridgepoint.interpret:'
OOA = 'bridgepoint.ooaofooa:'


def run(ctx):
    ctx.guard(nullable, ctx)
    ctx.guard(fresh, ctx)
    ctx.guard(bind, ctx)
    ctx.guard(return_rule, ctx)
    ctx.guard(enum_rule, ctx)
    from . import c04 as _c04
    ctx.shared(_c04.control, ctx)              # return / break / continue end exactly what they should (a bare return delivers nothing)
    ctx.assume('values computed by nested / recursive calls are not decided; only that each call has its own scope')
    return ('Nullable Node fields computed from the grammar actions and checked against every dereference of an accept() '
            'result in the interpreter; construction sites of walkers/symbol tables and absence of class/module level '
            'mutable state; slot flow of parameters, receiver and label from mk_* through run_* into the walkers; '
            'who-writes/who-reads return_value; succession-order traversal of enumerators.')


def _stored_raw(repo, cls, field):
    '''does Node.__init__ store the constructor argument unchanged (so that None stays None)?'''
    init = repo.func('bridgepoint.oal:%s.__init__' % cls, required=False)
    if init is None:
        return True
    for st in init.body:
        m = pm.match('self.%s = _V' % field, st)
        if m:
            return isinstance(m['_V'], ast.Name) and m['_V'].id == field
    return True


def nullable(ctx):
    repo = ctx.repo
    r = ctx.rule('C15-NULLABLE', 'fields the grammar may leave None are not dereferenced unguarded', floor=3,
                 oracle='contradiction: grammar says None is reachable; Walker.accept(None) returns None')
    f = nodes.facts(repo)
    fields = {}
    for (cls, field), prods in f.nullable.items():
        if _stored_raw(repo, cls, field):
            fields.setdefault(cls, {})[field] = prods
    if ('ReturnNode' not in fields) or ('IfNode' not in fields):
        raise AnalysisError('nullable fields of ReturnNode / IfNode no longer derivable from the grammar')
    # Walker.accept(None) -> None
    wa = repo.func('xtuml.tools:Walker.accept')
    p0 = param_names(wa)[0]
    first = body_without_doc(wa)[0]
    ok = isinstance(first, ast.If) and pm.match('%s is None' % p0, first.test) is not None and \
        len(first.body) == 1 and isinstance(first.body[0], ast.Return) and first.body[0].value is None
    r.check(ok, 'Walker.accept(None) returns None before dispatching', wa, construct='xtuml.tools:Walker.accept', key='accept-none',
            msg='Walker.accept no longer returns None for a None node')
    for walker in ('ActionWalker', 'FunctionWalker', 'OperationWalker', 'DerivedAttributeWalker'):
        cls = repo.cls(INT + walker)
        for name, fn in repo.methods(cls).items():
            if not name.startswith('accept_') or name[7:] not in fields:
                continue
            nodevar = param_names(fn)[0]
            for field, prods in fields[name[7:]].items():
                _deref_check(r, fn, nodevar, field, prods, INT + '%s.%s' % (walker, name))


def _deref_check(r, fn, nodevar, field, prods, qual):
    pat = 'self.accept(%s.%s)' % (nodevar, field)
    uses = [n for n in ast.walk(fn) if isinstance(n, ast.Call) and pm.match(pat, n) is not None]
    if not uses:
        r.info('%s does not evaluate %s.%s' % (qual, nodevar, field), fn)
        return
    for u in uses:
        parent = u._parent
        derefs = []
        if isinstance(parent, ast.Attribute) and parent.value is u:
            derefs.append(parent)
        var = None
        if isinstance(parent, ast.Assign) and parent.value is u and isinstance(parent.targets[0], ast.Name):
            var = parent.targets[0].id
            for n in ast.walk(fn):
                if isinstance(n, ast.Attribute) and isinstance(n.value, ast.Name) and n.value.id == var and n.lineno > parent.lineno:
                    derefs.append(n)
        if not derefs:
            r.ok('%s: result of accept(%s.%s) is not dereferenced' % (qual, nodevar, field), u, construct=qual + '|' + field)
            continue
        for d in derefs:
            guarded = False
            cur = d
            while cur is not fn and cur is not None:
                par = cur._parent
                if isinstance(par, ast.If) and cur in par.body:
                    t = src(par.test)
                    if var and (t == var or t == '%s is not None' % var) or t in ('%s.%s' % (nodevar, field),
                                                                                   '%s.%s is not None' % (nodevar, field)):
                        guarded = True
                if isinstance(par, ast.IfExp) and cur is par.body:
                    t = src(par.test)
                    if var and (t == var or t == '%s is not None' % var) or t in ('%s.%s' % (nodevar, field),):
                        guarded = True
                cur = par
            # early-exit guard: `if value is None: ...return/raise` before the dereference
            if not guarded and var:
                for st in fn.body:
                    if isinstance(st, ast.If) and st.lineno < d.lineno and src(st.test) in ('%s is None' % var, 'not %s' % var) \
                            and st.body and isinstance(st.body[-1], (ast.Return, ast.Raise)):
                        guarded = True
            r.check(guarded, '%s: dereference `%s` of accept(%s.%s) is guarded' % (qual, src(d), nodevar, field), d, construct=qual,
                    key='unguarded-deref ' + field,
                    msg='%s: `%s.%s` is None for the production `%s`, Walker.accept(None) returns None, and `%s` dereferences it '
                        'unconditionally (AttributeError at run time)' % (qual, nodevar, field, prods[0], src(d)))


def fresh(ctx):
    repo = ctx.repo
    r = ctx.rule('C15-FRESH', 'each invocation runs in a new walker and symbol table; derived attributes are recomputed', floor=10,
                 oracle='property statement (own variable scope per invocation)')
    for fn_name, walker in (('run_function', 'FunctionWalker'), ('run_operation', 'OperationWalker'),
                            ('run_derived_attribute', 'DerivedAttributeWalker')):
        fn = repo.func(INT + fn_name)
        Q = INT + fn_name
        from .. import absint as _ai2
        glob = [n for n in ast.walk(fn) if isinstance(n, (ast.Global, ast.Nonlocal))]
        mod_ = repo.module('bridgepoint.interpret')
        containers_ = {t.id for st in mod_.tree.body if isinstance(st, ast.Assign) for t in st.targets if isinstance(t, ast.Name) and
                       (isinstance(st.value, (ast.Dict, ast.List, ast.Set)) or
                        (isinstance(st.value, ast.Call) and (dotted(st.value.func) or '').split('.')[-1] in (
                            'dict', 'list', 'set', 'defaultdict', 'OrderedDict', 'WeakValueDictionary', 'lru_cache')))}
        locals_ = {n.id for n in ast.walk(fn) if isinstance(n, ast.Name) and isinstance(n.ctx, ast.Store)} | set(param_names(fn, skip_self=False))
        cached_ = [n for n in ast.walk(fn) if isinstance(n, ast.Name) and n.id in containers_ and n.id not in locals_]
        if fn.decorator_list:
            glob = glob or [fn.decorator_list[0]]
        if cached_ and not glob:
            glob = [cached_[0]]
        if glob:
            r.violation('%s keeps state across invocations (`%s`): every invocation must evaluate its action with a walker of its own'
                        % (fn_name, src(glob[0])), glob[0], construct=Q, key='new-walker')
            continue

        def new_walker(e, s, tr, walker=walker):
            if dotted(e['_C'].func) != walker:
                return False
            s.setdefault('env', {})[e['_W'].id] = 'walker'
            tr.append('new')
            return True

        def accept(e, s, tr):
            w = e['_W']
            if not (isinstance(w, ast.Name) and s.get('env', {}).get(w.id) == 'walker'):
                return False
            tr.append(('accept', src(e['_R'])))
            return True

        def parsed(e, s, tr):
            s.setdefault('senv', {})[e['_R'].id] = e['_V']
            return True
        ri = _ai2.Interp(fn, [], [('_W = _C', lambda e, s, tr: new_walker(e, s, tr) if isinstance(e['_C'], ast.Call) else False),
                                  ('_W.accept(_R)', accept)])
        ri.pure_calls = {'parse'}
        st_ = {}
        out, tr = ri.run(st_)
        news = [t for t in tr if t == 'new']
        r.check(len(news) == 1, '%s creates a new %s per call' % (fn_name, walker), fn, construct=Q, key='new-walker',
                msg='%s does not construct a fresh %s in its body' % (fn_name, walker))
        acc = [t[1] for t in tr if isinstance(t, tuple) and t[0] == 'accept']
        ok = acc in (['oal.parse(action, label)'], ['oal.parse(action)'], ["oal.parse(action, label=label)"])
        r.check(ok, '%s parses the action text of this element' % fn_name, fn, construct=Q, key='parses',
                msg='%s does not parse its `action` argument (it evaluates %s)' % (fn_name, acc))
        wnames = [k for k, v in st_.get('env', {}).items() if v == 'walker']
        okr = out.kind == 'return' and out.value is not None and isinstance(out.value, ast.Attribute) and out.value.attr == 'return_value' and \
            isinstance(out.value.value, ast.Name) and out.value.value.id in wnames
        r.check(okr, '%s returns the walker\'s return_value' % fn_name, fn, construct=Q, key='returns',
                msg='%s does not return %s.return_value' % (fn_name, walker))
    aw = repo.cls(INT + 'ActionWalker')
    init = repo.methods(aw)['__init__']
    r.check(pm.contains('self.symtab = SymbolTable(_D)', init), 'every walker gets its own SymbolTable', init,
            construct=INT + 'ActionWalker.__init__', key='own-symtab', msg='ActionWalker.__init__ does not create its own SymbolTable')
    st_init = repo.func(INT + 'SymbolTable.__init__')
    r.check(pm.contains('self._scopes = list()', st_init) or pm.contains('self._scopes = []', st_init),
            'every SymbolTable starts with an empty scope stack', st_init, construct=INT + 'SymbolTable.__init__', key='own-scopes',
            msg='SymbolTable.__init__ does not create a fresh scope list')
    # no mutable class-level state in the walker / symbol table classes, no mutable defaults
    for c in repo.classes('bridgepoint.interpret'):
        for name, v in repo.assigns_in_class(c).items():
            mutable = isinstance(v, (ast.List, ast.Dict, ast.Set, ast.ListComp, ast.DictComp)) or \
                (isinstance(v, ast.Call) and dotted(v.func) in ('list', 'dict', 'set'))
            r.check(not mutable, '%s.%s is not shared mutable class state' % (c.name, name), v, construct=INT + c.name, key='class-state ' + name,
                    msg='%s.%s is a mutable class-level value shared by all invocations' % (c.name, name))
        for m in c.body:
            if isinstance(m, ast.FunctionDef):
                for d in m.args.defaults + m.args.kw_defaults:
                    if d is not None and isinstance(d, (ast.List, ast.Dict, ast.Set)):
                        r.violation('%s.%s has a mutable default argument' % (c.name, m.name), d, construct=INT + c.name + '.' + m.name,
                                    key='mutable-default')
    # module level caches in interpret.py
    mod = repo.module('bridgepoint.interpret')
    for st in mod.tree.body:
        if isinstance(st, ast.Assign) and isinstance(st.value, (ast.Dict, ast.List, ast.Set)):
            r.violation('module level mutable `%s` in interpret.py (cache across invocations?)' % src(st.targets[0]), st,
                        construct='bridgepoint.interpret', key='module-state ' + src(st.targets[0]))
    # derived attributes are plain properties
    fn = repo.func(OOA + 'mk_derived_attribute')
    from .common import resolve_locals
    ok = False
    for n in ast.walk(fn):
        if isinstance(n, ast.Return) and n.value is not None:
            m0 = pm.match('property(_F)', n.value)
            if m0 is None:
                continue
            getter = resolve_locals(fn, m0['_F'], pure_only=False)
            # the getter runs the interpreter on every read: partial(run_derived_attribute, metaclass, label, action, name) or
            # the equivalent lambda over the reading instance
            if pm.match('functools.partial(interpret.run_derived_attribute, _A, _B, _C, _D)', getter) is not None or \
                    pm.match('partial(interpret.run_derived_attribute, _A, _B, _C, _D)', getter) is not None:
                ok = True
            elif isinstance(getter, ast.Lambda) and len(getter.args.args) == 1:
                ip = getter.args.args[0].arg
                ok = pm.match('interpret.run_derived_attribute(_A, _B, _C, _D, %s)' % ip, getter.body) is not None
    r.check(ok, 'a derived attribute is a property whose getter runs the action on every read', fn, construct=OOA + 'mk_derived_attribute',
            key='property', msg='mk_derived_attribute does not return property(partial(run_derived_attribute, ...)): reads may be cached')


def bind(ctx):
    repo = ctx.repo
    r = ctx.rule('C15-BIND', 'parameters by name, receiver as self, element label/action passed through unchanged', floor=14,
                 oracle='slot flow mk_* -> run_* -> walker')
    AW = INT + 'ActionWalker'
    pl = repo.func(AW + '.accept_ParameterListNode')
    want = ['_K = dict()', None]
    ok = False
    for lp in [n for n in ast.walk(pl) if isinstance(n, ast.For)]:
        if pm.match('node.children', lp.iter) is None:
            continue
        cv = lp.target.id
        if pm.match(['_V = self.accept(%s.expression).fget()' % cv, '_K[%s.name] = _V' % cv], lp.body) is not None or \
                pm.match(['_K[%s.name] = self.accept(%s.expression).fget()' % (cv, cv)], lp.body) is not None:
            ok = True
    rets = [n for n in ast.walk(pl) if isinstance(n, ast.Return)]
    r.check(ok and len(rets) == 1, 'a parameter list evaluates to {name: value}', pl, construct=AW + '.accept_ParameterListNode', key='kwargs',
            msg='accept_ParameterListNode does not build a dictionary {child.name: value of child.expression}')
    table = [
        ('accept_FunctionInvocationNode', ['_K = self.accept(node.parameter_list)', '_F = self.symtab.find_symbol(node.action_name)',
                                           '_V = _F(**_K)', 'return property(lambda: _V)']),
        ('accept_BridgeInvocationNode', ['_K = self.accept(node.parameter_list)', '_E = self.symtab.find_symbol(node.namespace)',
                                         '_F = getattr(_E, node.action_name)', '_V = _F(**_K)', 'return property(lambda: _V)']),
        ('accept_ClassInvocationNode', ['_C = self.symtab.find_symbol(node.key_letter)', '_O = getattr(_C, node.action_name)',
                                        '_K = self.accept(node.parameter_list)', '_V = _O(**_K)', 'return property(lambda: _V)']),
        ('accept_InstanceInvocationNode', ['_I = self.accept(node.handle).fget()', '_O = getattr(_I.__class__, node.action_name)',
                                           '_K = self.accept(node.parameter_list)', '_V = _O(_I, **_K)', 'return property(lambda: _V)']),
        ('accept_ImplicitInvocationNode', ['_K = self.accept(node.parameter_list)', '_E = self.symtab.find_symbol(node.namespace)',
                                           '_F = getattr(_E, node.action_name)', '_V = _F(**_K)', 'return property(lambda: _V)']),
    ]
    for h, pats in table:
        fn = repo.func(AW + '.' + h)
        r.check(pm.match_canon(pats, body_without_doc(fn)) is not None, '%s resolves the callee by name and passes the parameters as keywords' % h,
                fn, construct=AW + '.' + h, key='invoke',
                msg='%s no longer resolves its callee by the names in the node and calls it with **<evaluated parameter list>' % h)
    inv = repo.func(AW + '.accept_InvocationStatementNode')
    r.check(pm.contains('return self.accept(node.invocation)', inv) or pm.contains('self.accept(node.invocation)', inv),
            'an invocation statement evaluates its invocation', inv, construct=AW + '.accept_InvocationStatementNode', key='stmt',
            msg='accept_InvocationStatementNode does not evaluate node.invocation')
    # ParamAccess / SelfAccess
    for walker in ('FunctionWalker', 'OperationWalker'):
        fn = repo.func(INT + walker + '.accept_ParamAccessNode')
        ok = pm.match(['_V = self.kwargs[node.variable_name]', 'return property(lambda: _V)'], body_without_doc(fn)) is not None
        r.check(ok, '%s reads param.<name> from the keyword dictionary of this invocation' % walker, fn,
                construct=INT + walker + '.accept_ParamAccessNode', key='param', msg='%s.accept_ParamAccessNode does not read self.kwargs[node.variable_name]' % walker)
        init = repo.func(INT + walker + '.__init__')
        r.check(pm.contains('self.kwargs = kwargs', init), '%s stores the keyword dictionary it is given' % walker, init,
                construct=INT + walker + '.__init__', key='kwargs-store', msg='%s.__init__ does not store kwargs' % walker)
    for walker in ('OperationWalker', 'DerivedAttributeWalker'):
        fn = repo.func(INT + walker + '.accept_SelfAccessNode')
        r.check(pm.match_canon(['return property(lambda: self.instance)'], body_without_doc(fn)) is not None, '%s: self is the receiving instance' % walker,
                fn, construct=INT + walker + '.accept_SelfAccessNode', key='self', msg='%s.accept_SelfAccessNode does not yield self.instance' % walker)
        init = repo.func(INT + walker + '.__init__')
        r.check(pm.contains('self.instance = instance', init), '%s stores the receiver' % walker, init, construct=INT + walker + '.__init__',
                key='instance-store', msg='%s.__init__ does not store the receiving instance' % walker)
    # run_operation slots
    ro = repo.func(INT + 'run_operation')
    rp = param_names(ro, skip_self=False)
    ok = rp == ['metaclass', 'label', 'action', 'kwargs', 'inst'] and pm.contains('OperationWalker(metaclass.metamodel, kwargs, inst)', ro)
    r.check(ok, 'run_operation passes (domain, kwargs, receiver) to the walker', ro, construct=INT + 'run_operation', key='slots',
            msg='run_operation does not construct OperationWalker(metaclass.metamodel, kwargs, inst)')
    rf = repo.func(INT + 'run_function')
    ok = param_names(rf, skip_self=False) == ['domain', 'label', 'action', 'kwargs'] and pm.contains('FunctionWalker(domain, kwargs)', rf)
    r.check(ok, 'run_function passes (domain, kwargs) to the walker', rf, construct=INT + 'run_function', key='slots',
            msg='run_function does not construct FunctionWalker(domain, kwargs)')
    rd = repo.func(INT + 'run_derived_attribute')
    ok = param_names(rd, skip_self=False) == ['metaclass', 'label', 'action', 'attribute_name', 'inst'] and \
        pm.contains('DerivedAttributeWalker(metaclass.metamodel, attribute_name, inst)', rd)
    r.check(ok, 'run_derived_attribute passes (domain, attribute name, receiver) to the walker', rd, construct=INT + 'run_derived_attribute',
            key='slots', msg='run_derived_attribute does not construct DerivedAttributeWalker(metaclass.metamodel, attribute_name, inst)')
    # mk_operation
    mo = repo.func(OOA + 'mk_operation')
    actv = labv = runv = None
    for st in body_without_doc(mo):
        m = pm.match('_A = o_tfr.Action_Semantics_internal', st)
        if m:
            actv = m['_A'].id
        m = pm.match('_R = interpret.run_operation', st)
        if m:
            runv = m['_R'].id
    ok = False
    for n in ast.walk(mo):
        if isinstance(n, ast.If) and pm.match('o_tfr.Instance_Based', n.test) is not None:
            inst_ok = any(isinstance(x, ast.Return) and isinstance(x.value, ast.Lambda) and
                          pm.match('%s(metaclass, label, %s, kwargs, self)' % (runv, actv), x.value.body) is not None and
                          [a.arg for a in x.value.args.args] == ['self'] and x.value.args.kwarg is not None for x in n.body)
            cls_ok = False
            for x in ast.walk(ast.Module(body=n.orelse, type_ignores=[])):
                if isinstance(x, ast.Lambda) and pm.match('%s(metaclass, label, %s, kwargs, None)' % (runv, actv), x.body) is not None:
                    cls_ok = True
            cm = any(isinstance(x, ast.Return) and isinstance(x.value, ast.Call) and dotted(x.value.func) == 'classmethod' for x in n.orelse)
            ok = inst_ok and cls_ok and cm
    r.check(ok, 'instance-based operations receive the instance as self, class-based ones None (classmethod)', mo, construct=OOA + 'mk_operation',
            key='receiver', msg='mk_operation does not pass the receiving instance for instance-based operations and None for class-based ones')
    for fn_name, src_var in (('mk_function', 's_sync'), ('mk_bridge', 's_brg')):
        fn = repo.func(OOA + fn_name)
        from .common import resolve_locals as _rl
        lam = [n for n in ast.walk(fn) if isinstance(n, ast.Lambda)]
        ok = len(lam) == 1 and lam[0].args.kwarg is not None
        if ok:
            body = _rl(fn, lam[0].body)
            ok = pm.match('interpret.run_function(metamodel, %s.Name, %s.Action_Semantics_internal, %s)' % (src_var, src_var, lam[0].args.kwarg.arg),
                          body) is not None
        r.check(ok, '%s returns a keyword-only callable running the element\'s own action' % fn_name, fn, construct=OOA + fn_name, key='closure',
                msg='%s does not return `lambda **kwargs: interpret.run_function(metamodel, label, action, kwargs)` for its own action text' % fn_name)
    me = repo.func(OOA + 'mk_external_entity')
    names_src = funcs_src = None
    reorder = []
    defs = {}
    for st in body_without_doc(me):
        if isinstance(st, ast.Assign) and isinstance(st.targets[0], ast.Name):
            defs[st.targets[0].id] = st.value

    def base(e):
        e2 = e
        while isinstance(e2, ast.Call) and dotted(e2.func) in ('sorted', 'reversed', 'list', 'tuple', 'set') and e2.args:
            if dotted(e2.func) in ('sorted', 'reversed', 'set'):
                reorder.append(src(e2)[:50])
            e2 = e2.args[0]
        if isinstance(e2, ast.Name) and e2.id in defs:
            return base(defs[e2.id])
        return e2
    nt = [n for n in ast.walk(me) if isinstance(n, ast.Call) and dotted(n.func) == 'collections.namedtuple' and len(n.args) == 2]
    if len(nt) != 1:
        raise AnalysisError('%s: namedtuple construction of mk_external_entity not found' % loc(me))
    nm = base(nt[0].args[1])
    if isinstance(nm, (ast.ListComp, ast.GeneratorExp)) and src(nm.elt).endswith('.Name'):
        names_src = src(base(nm.generators[0].iter))
    for lp in [n for n in ast.walk(me) if isinstance(n, ast.For)]:
        if any(isinstance(c, ast.Call) and dotted(c.func) == 'mk_bridge' for c in ast.walk(lp)):
            funcs_src = src(base(lp.iter))
    r.check(names_src is not None and names_src == funcs_src and not reorder,
            'bridge names and bridge functions of an external entity come from one traversal in one order', me, construct=OOA + 'mk_external_entity',
            key='ee-pairing', msg='mk_external_entity takes the bridge names from `%s` and the functions from `%s`%s: names and bodies are paired '
                                  'by position, so a different order attaches a name to the wrong bridge body'
                                  % (names_src, funcs_src, (' with reordering ' + ', '.join(reorder)) if reorder else ''))
    r.check(pm.contains('return EE(*funcs)', me), 'the entity is the tuple of its bridge functions', me, construct=OOA + 'mk_external_entity', key='ee-build',
            msg='mk_external_entity does not return EE(*funcs)')
    # mk_class installs operations / derived attributes under their modelled names
    mc = repo.func(OOA + 'mk_class')
    ok = False
    for lp in [n for n in ast.walk(mc) if isinstance(n, ast.For)]:
        if pm.match('many(o_obj).O_TFR[115]()', lp.iter) is not None:
            v = lp.target.id
            ok = pm.match(['_F = mk_operation(metaclass, %s)' % v, 'setattr(metaclass.clazz, %s.Name, _F)' % v], lp.body) is not None
    r.check(ok, 'every operation of the class is installed under its modelled name', mc, construct=OOA + 'mk_class', key='install-ops',
            msg='mk_class does not install mk_operation(metaclass, o_tfr) as <class>.<o_tfr.Name> for every O_TFR across R115')
    # Domain symbols
    fs = repo.func(OOA + 'Domain.find_symbol')
    p = param_names(fs)[0]
    from .. import absint as _ai

    def find_class(e, s, tr):
        tr.append('find_class')
        if not s['cls']:
            raise _ai.Raised('UnknownClassException')
        return True
    fi = _ai.Interp(fs, [('%s in self.symbols' % p, lambda e, s, tr: s['sym']), ('%s not in self.symbols' % p, lambda e, s, tr: not s['sym'])],
                    [('self.find_class(%s)' % p, find_class), ('_V = self.find_class(%s)' % p, find_class)])
    ok = True
    for sym, cls_ in ((True, True), (True, False), (False, True), (False, False)):
        out, tr = fi.run({'sym': sym, 'cls': cls_})
        if sym:
            ok = ok and out.kind == 'return' and out.value is not None and pm.match('self.symbols[%s]' % p, out.value) is not None
        elif cls_:
            ok = ok and out.kind == 'return' and out.value is not None and (pm.match('self.find_class(%s)' % p, out.value) is not None or
                                                                            isinstance(out.value, ast.Name))
        else:
            ok = ok and out.kind == 'raise' and exception_class_name(out.node) == 'OoaOfOoaException' if out.node is not None else False
    r.check(ok, 'Domain.find_symbol: registered symbols first, then classes', fs, construct=OOA + 'Domain.find_symbol', key='lookup',
            msg='Domain.find_symbol does not look up self.symbols[name] and fall back to find_class(name)')
    ads = repo.func(OOA + 'Domain.add_symbol')
    a, b = param_names(ads)[:2]
    r.check(pm.contains('self.symbols[%s] = %s' % (a, b), ads) or pm.contains('self.symbols.update({%s: %s})' % (a, b), ads) or
            pm.contains('self.symbols.__setitem__(%s, %s)' % (a, b), ads), 'Domain.add_symbol registers the handle under its name', ads,
            construct=OOA + 'Domain.add_symbol', key='register', msg='Domain.add_symbol does not store self.symbols[name] = handle')
    di = repo.func(OOA + 'Domain.__init__')
    r.check(pm.contains('self.symbols = dict()', di) or pm.contains('self.symbols = {}', di), 'each Domain has its own symbol dictionary', di,
            construct=OOA + 'Domain.__init__', key='own-symbols', msg='Domain.__init__ does not create a fresh symbol dictionary')
    # mk_component registers functions, enums, constants, external entities under their modelled names
    comp = repo.func(OOA + 'mk_component')
    for pat, what in (('target.add_symbol(s_sync.Name, _F)', 'functions by S_SYNC.Name'), ('target.add_symbol(s_dt.Name, _E)', 'enumerations by S_DT.Name'),
                      ('target.add_symbol(cnst_syc.Name, _V)', 'constants by CNST_SYC.Name'), ('target.add_symbol(s_ee.Key_Lett, _E)', 'external entities by key letters')):
        r.check(pm.contains(pat, comp), 'mk_component registers ' + what, comp, construct=OOA + 'mk_component', key='register ' + what,
                msg='mk_component does not register ' + what)
    # sibling agreement: every element kind is selected through the component filter (only what the component contains is registered)
    from .common import resolve_locals
    cps = param_names(comp, skip_self=False)
    sels = [n for n in ast.walk(comp) if isinstance(n, ast.Call) and call_attr(n) == 'select_many' and isinstance(n.func.value, ast.Name) and n.func.value.id == cps[0]]
    for n in sels:
        kind = n.args[0].value if n.args and isinstance(n.args[0], ast.Constant) else src(n.args[0]) if n.args else '?'
        flt = resolve_locals(comp, n.args[1], pure_only=False) if len(n.args) == 2 and not n.keywords else None
        ok = isinstance(flt, ast.Lambda) and len(flt.args.args) == 1 and len(cps) > 1 and \
            any(pm.match('is_contained_in(%s, %s)' % (flt.args.args[0].arg, cps[1]), x) is not None for x in ast.walk(flt.body))
        r.check(ok, 'mk_component selects %s through the component filter' % kind, n, construct=OOA + 'mk_component', key='filtered ' + str(kind),
                msg='mk_component selects %s without the component filter (`%s`): elements of every component are registered, and equally named ones '
                    'overwrite each other in row order' % (kind, src(n)[:70]))
    r.check(len(sels) >= 6, 'mk_component selects the six element kinds', comp, construct=OOA + 'mk_component', key='select-sites',
            msg='mk_component has only %d select_many sites on the model' % len(sels))


def return_rule(ctx):
    repo = ctx.repo
    r = ctx.rule('C15-RETURN', 'return_value: written only by the return evaluator, read only by run_*', floor=4,
                 oracle='property statement (delivers the value of the return statement it executes; nothing otherwise)')
    mod = repo.module('bridgepoint.interpret')
    writers = []
    readers = []
    for n in ast.walk(mod.tree):
        if isinstance(n, ast.Attribute) and n.attr == 'return_value':
            fn = n
            while fn is not None and not isinstance(fn, ast.FunctionDef):
                fn = fn._parent
            cls = fn._parent if fn is not None else None
            q = '%s.%s' % (cls.name, fn.name) if isinstance(cls, ast.ClassDef) else (fn.name if fn else '<module>')
            if isinstance(n.ctx, ast.Store):
                writers.append((q, n))
            else:
                readers.append((q, n))
    for q, n in writers:
        r.check(q == 'ActionWalker.accept_ReturnNode', '%s writes return_value' % q, n, construct=INT + q, key='writer',
                msg='%s assigns return_value; only accept_ReturnNode may' % q)
    allowed_readers = {'run_function', 'run_operation', 'run_derived_attribute'}
    mod_int = repo.module('bridgepoint.interpret')
    for q, n in list(readers):
        if q not in allowed_readers and '.' not in q and repo.is_helper(INT + q):
            callers = set()
            for f2 in ast.walk(mod_int.tree):
                if isinstance(f2, ast.FunctionDef) and any(isinstance(c, ast.Call) and call_attr(c) == q for c in ast.walk(f2)) and f2.name != q:
                    callers.add(f2.name)
            if callers <= allowed_readers:
                readers.remove((q, n))
                r.ok('%s (helper of %s) reads return_value' % (q, sorted(callers)), n, construct=INT + q)
    for q, n in readers:
        r.check(q in allowed_readers, '%s reads return_value' % q, n, construct=INT + q, key='reader',
                msg='%s reads return_value; only the run_* entry points may' % q)
    # class default None on each walker, so that "no return executed" delivers nothing
    for walker in ('ActionWalker', 'FunctionWalker', 'OperationWalker', 'DerivedAttributeWalker'):
        a = repo.assigns_in_class(repo.cls(INT + walker))
        if 'return_value' in a:
            r.check(isinstance(a['return_value'], ast.Constant) and a['return_value'].value is None,
                    '%s.return_value defaults to None' % walker, a['return_value'], construct=INT + walker, key='default',
                    msg='%s.return_value does not default to None' % walker)
    fn = repo.func(INT + 'ActionWalker.accept_ReturnNode')
    ok = any(pm.match('self.return_value = _V.fget()', n) is not None for n in ast.walk(fn) if isinstance(n, ast.Assign))
    r.check(ok, 'the return evaluator stores the value of the returned expression', fn, construct=INT + 'ActionWalker.accept_ReturnNode',
            key='stores', msg='accept_ReturnNode does not store <value of node.expression>.fget() in return_value')
    # derived attribute: writing self.<attribute> sets the result
    da = repo.func(INT + 'DerivedAttributeWalker.accept_FieldAccessNode')
    ok = any(isinstance(n, ast.If) and 'node.name == self.attribute_name' in src(n.test) and 'self.instance' in src(n.test) and
             any("setattr, self, 'return_value'" in src(x) for x in n.body) for n in ast.walk(da))
    r.check(ok, 'assigning self.<derived attribute> sets the result of the derived attribute', da,
            construct=INT + 'DerivedAttributeWalker.accept_FieldAccessNode', key='self-assign',
            msg='DerivedAttributeWalker no longer maps writes of self.<attribute_name> to return_value')


def enum_rule(ctx):
    repo = ctx.repo
    r = ctx.rule('C15-ENUM', 'enumerators are numbered along R56; constants are converted by their modelled type', floor=5,
                 oracle='sibling: gen_xsd_schema.build_enum_type and mk_class walk the succession association')
    fn = repo.func(OOA + 'mk_enum')
    Q = OOA + 'mk_enum'
    from .chain import reader_sites, check_reader
    sites = reader_sites(fn, 56)
    direct = [n for n in ast.walk(fn) if isinstance(n, ast.For) and 'S_ENUM[27]' in src(n.iter)]
    if sites:
        for s in sites:
            check_reader(ctx, r, s, Q)
    elif pm.contains("xtuml.sort_reflexive(_S, 56, 'succeeds')", fn) or pm.contains("sort_reflexive(_S, 56, 'succeeds')", fn):
        # the SORTED sequence must be what the numbering loop walks (sort_reflexive returns a new sequence; it does not sort in place)
        from .common import resolve_locals
        nf_ = repo.nfunc(Q)
        loops_ = [n for n in ast.walk(nf_) if isinstance(n, (ast.For, ast.comprehension))]
        its_ = [resolve_locals(nf_, n.iter, pure_only=False) for n in loops_]
        sorted_ = [i_ for i_ in its_ if pm.match("xtuml.sort_reflexive(_S, 56, 'succeeds')", i_) is not None or
                   pm.match("sort_reflexive(_S, 56, 'succeeds')", i_) is not None]
        raw_ = [i_ for i_ in its_ if 'S_ENUM[27]' in src(i_) and i_ not in sorted_ and 'sort_reflexive' not in src(i_)]
        r.check(bool(sorted_) and not raw_, 'the numbering loop walks the enumerators sorted along R56', fn, construct=Q, key='unordered-enumerators',
                msg='mk_enum calls sort_reflexive but numbers the enumerators by walking `%s`: the sorted sequence is discarded (sort_reflexive does '
                    'not sort in place), so values depend on the order of rows in the model file' % (src(raw_[0]) if raw_ else '?'))
    else:
        r.violation('mk_enum numbers the enumerators in the iteration order of the unordered link R27 (`%s`); the modelled order '
                    'is the succession R56, so values depend on the order of rows in the model file'
                    % (src(direct[0].iter) if direct else '?'), direct[0] if direct else fn, construct=Q, key='unordered-enumerators')
    # value = position
    ok = pm.contains('return _E(*range(len(_L)))', fn)
    r.check(ok, 'enumerator value = its position in the traversal', fn, construct=Q, key='positions',
            msg='mk_enum does not number the enumerators 0..n-1 in traversal order')
    mc = repo.func(OOA + 'mk_constant')
    want = {'boolean': "return cnst_lsc.Value.lower() == 'true'", 'integer': 'return int(cnst_lsc.Value)',
            'real': 'return float(cnst_lsc.Value)', 'string': 'return str(cnst_lsc.Value)'}
    got = {}
    from .. import absint

    def ty_eq(e, s, tr):
        a_, b_ = e['_A'], e['_B']
        lit, other = (a_, b_) if isinstance(a_, ast.Constant) else (b_, a_)
        if isinstance(lit, ast.Constant) and isinstance(lit.value, str) and src(other) == 's_dt.Name':
            return s['ty'] == lit.value
        return None
    mi = absint.Interp(mc, [('_A == _B', ty_eq), ('_A != _B', lambda e, s, tr: (None if ty_eq(e, s, tr) is None else not ty_eq(e, s, tr)))],
                       [('s_dt = one(cnst_syc).S_DT[1500]()', lambda e, s, tr: True),
                        ('cnst_lsc = one(cnst_syc).CNST_LFSC[1502].CNST_LSC[1503]()', lambda e, s, tr: True)])
    mi.key_equals = lambda k, kn, s: (s['ty'] == kn.value) if (src(k) == 's_dt.Name' and isinstance(kn, ast.Constant)) else None
    mi.pure_calls = {'int', 'float', 'str'}
    for ty in want:
        out, tr = mi.run({'ty': ty})
        if out.kind == 'return' and out.value is not None:
            got[ty] = 'return ' + src(out.value)
    for ty, w in want.items():
        r.check(got.get(ty) == w, 'constant of type %s is converted by `%s`' % (ty, w), mc, construct=OOA + 'mk_constant', key='const ' + ty,
                msg='mk_constant converts a %s constant with `%s`; expected `%s`' % (ty, got.get(ty), w))
