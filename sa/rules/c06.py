'''
C06 - Prebuilt instances form a well-formed, correctly typed population.

  C06-KINDS    every relate / navigation / new() of prebuild.py conforms to the ooaofooa schema
  C06-CHAIN    R661 / R816 / R604 are chained so that the persisted Previous*/Next* reference designates the neighbour
  C06-SUBTYPE  every statement gets exactly one R603 subtype, every value exactly one R801 subtype, on every path
  C06-RETURN   statement handlers return the ACT_SMT, expression handlers the V_VAL, on every path
  C06-POS      line / column / label slots of ACT_SMT, V_VAL, V_LOC
  C06-TYPES    OAL typing table (comparison/boolean -> boolean, cardinality -> integer, literals) and R820 on every path
  C06-SCOPE    scopes are paired; variables belong to the innermost block
  C06-OBLIG    every created instance is related across all its unconditional associations
'''
import ast

from ..src import AnalysisError, loc, src, dotted, call_attr, param_names, body_without_doc, walk_local
from .. import pm, cfg as cfgmod
from ..kinds import rel_of
from ..schema import schema as get_schema
from . import nodes, kindrules, chain, lexrules

PB = 'bridgepoint.prebuild'
AP = PB + ':ActionPrebuilder'
SUCCESSIONS = (661, 816, 604)


def run(ctx):
    repo = ctx.repo
    ki = kindrules.infer(repo, PB, kindrules.prebuild_accept_kinds(repo), kindrules.prebuild_ctor_params(repo))
    ctx.guard(kindrules.kinds_rule, ctx, 'C06-KINDS', PB, 400, ki)
    ctx.guard(chain_rule, ctx)
    ctx.guard(subtype_rule, ctx, ki)
    ctx.guard(return_rule, ctx, ki)
    ctx.guard(pos_rule, ctx)
    ctx.guard(types_rule, ctx, ki)
    ctx.guard(scope_rule, ctx)
    from . import scope as _scope
    ctx.guard(_scope.symbols_exact, ctx, 'C06-SYMBOLS')
    ctx.guard(params_rule, ctx)
    ctx.guard(context_rule, ctx)
    ctx.guard(walker_state, ctx)
    from . import c08 as _c08, c13 as _c13, lexrules as _lex
    _g = _lex.grammar_of(ctx.repo, 'bridgepoint.oal:OALParser')
    ctx.shared(_c08.taint, ctx, _g, _c08.keyword_fields(ctx, _g))   # cardinality keywords decide V_INT / V_INS and the select subtype
    ctx.shared(_c13.track, ctx)                # node positions are what prebuild copies into the instances
    from . import c05 as _c05
    ctx.shared(_c05.chain_rule, ctx)           # prebuild's own walks along the succession associations (last step of a chain)
    from . import listnodes
    ctx.guard(listnodes.check, ctx, 'C06-NONE')
    ctx.guard(oblig_rule, ctx, ki)
    ctx.assume('uniqueness of generated ids and is_consistent() of a concrete program are not decided')
    ctx.assume('name resolution succeeds (well-formed, name-resolved programs): look-ups such as o_obj()/s_dt() return an instance')
    return ('Kind inference over prebuild.py (helper return summaries, navigation results, subtype sets from the schema) and '
            'type-check of every relate/navigation/new against the schema text; succession-direction rule on R661/R816/R604; '
            'all-paths rules for the R603/R801 subtype and R820 type relations and for handler return values; slot tables '
            'for positions and typing; obligations of unconditional associations per created instance.')


# ---------------------------------------------------------------------------
def chain_rule(ctx):
    repo = ctx.repo
    r = ctx.rule('C06-CHAIN', 'succession associations are written so that Previous*/Next* references designate the neighbour', floor=4,
                 oracle='referential key names in the schema (Previous_Statement_ID, Next_Value_ID, Next_Link_ID)')
    cls = repo.cls(AP)
    n = 0
    for name, fn in sorted(repo.methods(cls).items()):
        for w in chain.writer_sites(fn, SUCCESSIONS):
            n += 1
            chain.check_writer(ctx, r, w, AP + '.' + name)
    if n < 4:
        raise AnalysisError('only %d succession writer sites found in prebuild.py' % n)
    # the list handlers must chain every element: the relate is unconditional in the loop body
    for h, rel in (('accept_StatementListNode', 661), ('accept_ParameterListNode', 816), ('accept_EventDataListNode', 816),
                   ('accept_NavigationListNode', 604)):
        fn = repo.func(AP + '.' + h)
        ws = [w for w in chain.writer_sites(fn, (rel,)) if w.loop is not None]
        ok = len(ws) == 1 and ws[0].prev_var is not None
        if ok:
            # the relate is a statement of the loop body itself, or sits under a guard that only asks whether there is a previous
            # element (`if prev:` / `if prev is not None:`; relate() with a None argument does nothing anyway)
            holder = ws[0].call._parent._parent
            pv = ws[0].prev_var
            guard_ok = isinstance(holder, ast.If) and not holder.orelse and holder._parent is ws[0].loop and \
                src(holder.test) in (pv, '%s is not None' % pv, 'bool(%s)' % pv, 'not %s is None' % pv, '%s != None' % pv)
            ok = holder is ws[0].loop or guard_ok
        r.check(ok, '%s links every element to its neighbour over R%d' % (h, rel), fn, construct=AP + '.' + h, key='chain-every R%d' % rel,
                msg='%s does not relate every element of the list to the previously visited one over R%d' % (h, rel))
        if ws and ws[0].loop is not None:
            it = ws[0].loop.iter
            good = pm.match('node.children', it) is not None or pm.match('reversed(node.children)', it) is not None
            r.check(good, '%s walks node.children' % h, ws[0].loop, construct=AP + '.' + h, key='chain-iter R%d' % rel,
                    msg='%s iterates `%s`, not node.children' % (h, src(it)))


# ---------------------------------------------------------------------------
def _relates_on(node_ast, sc):
    '''(rel, [operand src...]) effects of one CFG statement: relate()/xtuml.relate() calls and new() with referential kwargs'''
    out = []
    for n in ast.walk(node_ast):
        if isinstance(n, ast.FunctionDef) and n is not node_ast:
            continue
        if isinstance(n, ast.Call) and dotted(n.func) in ('relate', 'xtuml.relate') and len(n.args) >= 3:
            rr = rel_of(n.args[2])
            if rr:
                out.append((rr[0], [src(a) for a in n.args[:2]], n))
        if isinstance(n, ast.Call) and call_attr(n) in ('new', 'v_val') and n.keywords:
            if call_attr(n) == 'new' and n.args and isinstance(n.args[0], ast.Constant):
                k = sc.kind(n.args[0].value)
            elif call_attr(n) == 'v_val':
                k = 'V_VAL'
            else:
                k = None
            if k:
                kw = {x.arg: x.value for x in n.keywords if x.arg}
                for rop in sc.referring_assocs(k):
                    if rop.src_keys and set(rop.src_keys) <= set(kw):
                        ops = []
                        for key in rop.src_keys:
                            v = kw[key]
                            if isinstance(v, ast.Attribute):
                                ops.append(src(v.value))
                        out.append((rop.rel, ['<new %s>' % k] + ops, n))
    return out


def _relates_per_creation(path, helper, sc, extra_param=None):
    '''walk the path in order; returns [(var, creation node or None, [relate effects that mention the var while it
    still denotes that instance])]'''
    live = {}
    out = []
    if extra_param:
        rec = (extra_param, None, [])
        live[extra_param] = rec
        out.append(rec)
    for n, _ in path:
        if n.kind != 'stmt':
            continue
        effects = _relates_on(n.ast, sc)
        for (rel, ops, call) in effects:
            for var, rec in live.items():
                if var in ops:
                    rec[2].append((rel, ops, call))
        if isinstance(n.ast, ast.Assign) and isinstance(n.ast.value, ast.Call) and isinstance(n.ast.value.func, ast.Attribute) \
                and src(n.ast.value.func) == 'self.%s' % helper and isinstance(n.ast.targets[0], ast.Name):
            rec = (n.ast.targets[0].id, n, [])
            live[rec[0]] = rec
            out.append(rec)
    return out


def _created_vars(path, helper):
    out = []
    for n, _ in path:
        if n.kind == 'stmt' and isinstance(n.ast, ast.Assign) and isinstance(n.ast.value, ast.Call) \
                and pm.match('self.%s(__)' % helper, n.ast.value) is None:
            pass
        if n.kind == 'stmt' and isinstance(n.ast, ast.Assign) and isinstance(n.ast.value, ast.Call) \
                and isinstance(n.ast.value.func, ast.Attribute) and src(n.ast.value.func) == 'self.%s' % helper \
                and isinstance(n.ast.targets[0], ast.Name):
            out.append((n.ast.targets[0].id, n))
    return out


PORT_REASON = 'port messages are resolved through several optional look-ups; an unresolvable message creates no subtype'


def subtype_rule(ctx, ki):
    repo = ctx.repo
    sc = get_schema(repo)
    r = ctx.rule('C06-SUBTYPE', 'each ACT_SMT / V_VAL created gets exactly one subtype instance over R603 / R801 on every path', floor=60,
                 oracle='schema: subtype ends of R603 (%d kinds) and R801 (%d kinds)' % (len(sc.subkinds('ACT_SMT', 603)),
                                                                                   len(sc.subkinds('V_VAL', 801))))
    sub603 = set(sc.subkinds('ACT_SMT', 603))
    sub801 = set(sc.subkinds('V_VAL', 801))
    if len(sub603) < 20 or len(sub801) < 15:
        raise AnalysisError('subtype sets of R603/R801 not derivable from the schema')
    for cls, fn in ki._functions():
        if cls is None:
            continue
        q = '%s:%s.%s' % (PB, cls.name, fn.name)
        uses_smt = any(isinstance(n, ast.Call) and src(n.func) == 'self.act_smt' for n in ast.walk(fn))
        uses_val = any(isinstance(n, ast.Call) and src(n.func) == 'self.v_val' for n in ast.walk(fn))
        has_param = 'act_smt' in param_names(fn)
        if not (uses_smt or uses_val or has_param):
            continue
        if fn.name in ('act_smt', 'v_val'):
            continue
        env = ki.func_env(fn, cls)
        g = cfgmod.build(fn)
        paths = [p for p in g.paths(follow_exc=False, limit=50000) if p[-1][0].kind == 'exit']
        delegates = any(isinstance(n, ast.Call) and call_attr(n) == 'accept' and any(k.arg == 'act_smt' for k in n.keywords)
                        for n in ast.walk(fn)) and uses_smt
        for helper, rel, subs, what in (('act_smt', 603, sub603, 'statement'), ('v_val', 801, sub801, 'value')):
            bad_paths = 0
            n_checked = 0
            example = None
            for p in paths:
                extra = None
                if helper == 'act_smt' and has_param:
                    # the statement is handed in by the caller; it counts when the path takes an `if act_smt` branch
                    # (assume it is there: a path is then infeasible only where a test of the parameter ALONE says otherwise; a compound
                    # test such as `act_smt and <more>` can go either way, and the statement still needs its subtype when it fails)
                    tests_ = [(src(n.ast), lab) for n, lab in p if n.kind == 'test']
                    absent = any((t_ == 'act_smt' and lab == 'F') or (t_ == 'not act_smt' and lab == 'T') or (t_ == 'act_smt is None' and lab == 'T') or
                                 (t_ == 'act_smt is not None' and lab == 'F') for t_, lab in tests_)
                    mentioned = any(isinstance(x, ast.Name) and x.id == 'act_smt' for n, lab in p if n.kind == 'test' for x in ast.walk(n.ast))
                    # only a callee that COMPLETES the statement (relates a subtype to it over R603 somewhere) owes it one; a callee that
                    # merely hangs something else onto the statement it was given (parameter lists) does not
                    completes = any(isinstance(c_, ast.Call) and call_attr(c_) == 'relate' and
                                    any(isinstance(a_, ast.Name) and a_.id == 'act_smt' for a_ in c_.args) and
                                    any(isinstance(a_, ast.Constant) and a_.value == 603 for a_ in c_.args) for c_ in ast.walk(fn))
                    if mentioned and not absent and completes:
                        extra = 'act_smt'
                created = _relates_per_creation(p, helper, sc, extra)
                if not created:
                    continue
                for var, cnode, effects in created:
                    mine = [x for x in effects if x[0] == rel]
                    n_checked += 1
                    want_min = 0 if (helper == 'act_smt' and delegates and cnode is not None) else 1
                    tabled = fn.name == 'accept_PortInvocationNode'
                    if tabled:
                        want_min = 0
                    kinds_ok = True
                    for (_, ops, call) in mine:
                        other = [o for o in ops if o != var]
                        for o in other:
                            if o.startswith('<new '):
                                k = frozenset([o[5:-1]])
                            else:
                                k = env.get(o)
                            if k and not (k & subs):
                                kinds_ok = False
                    if not (want_min <= len(mine) <= 1) or not kinds_ok:
                        bad_paths += 1
                        example = example or (var, len(mine), [src(x[2])[:60] for x in mine],
                                              [n.ast.lineno for n, _ in p if n.ast is not None and hasattr(n.ast, 'lineno')][:12])
            if n_checked == 0:
                continue
            r.check(bad_paths == 0, '%s: every %s created is completed by exactly one R%d subtype (%d path instances)'
                    % (q, what, rel, n_checked), fn, construct=q, key='subtype R%d' % rel,
                    msg='%s: on %d path(s) the %s `%s` gets %s subtype instance(s) over R%d (%s); exactly one of %d kinds is required '
                        '-- lines of one such path: %s' % (q, bad_paths, what, example[0] if example else '?',
                                                         example[1] if example else '?', rel, example[2] if example else '',
                                                         len(subs), example[3] if example else ''))
    # who may create the super kinds
    for kind, allowed in (('ACT_SMT', {'act_smt'}), ('V_VAL', {'v_val'}), ('V_LOC', {'v_var'}), ('V_VAR', {'v_var'})):
        for cls, fn in ki._functions():
            for n in ast.walk(fn):
                if isinstance(n, ast.Call) and call_attr(n) == 'new' and n.args and isinstance(n.args[0], ast.Constant) \
                        and n.args[0].value == kind:
                    r.check(fn.name in allowed, '%s is created by its helper %s' % (kind, fn.name), n,
                            construct='%s:%s' % (PB, fn.name), key='creator ' + kind,
                            msg='%s creates %s directly; only %s may (it attaches position and block)' % (fn.name, kind, sorted(allowed)))


# ---------------------------------------------------------------------------
RETURN_TABLED = {
    'accept_FieldAccessNode': 'falls off the end only when the member cannot be resolved (outside "name-resolved programs")',
}


def return_rule(ctx, ki):
    repo = ctx.repo
    f = nodes.facts(repo)
    r = ctx.rule('C06-RETURN', 'handlers return the instance their callers consume on every path', floor=50,
                 oracle='grammar: which Node classes are statements / expressions; callers chain and relate the returned instance')
    stmt_classes = set(f.yields.get('statement', set())) | {'ElIfNode', 'ElseNode'}
    expr_classes = set(f.yields.get('expression', set())) | set(f.yields.get('variable_access', set())) | \
        set(f.yields.get('navigation_hook', set())) | {'BridgeInvocationNode', 'ClassInvocationNode', 'PortInvocationNode'}
    expect = {}
    for c in stmt_classes:
        expect[c] = 'ACT_SMT'
    for c in expr_classes:
        expect[c] = 'V_VAL'
    expect.update({'BlockNode': 'ACT_BLK', 'NavigationStepNode': 'ACT_LNK', 'NavigationListNode': 'ACT_LNK',
                   'ParameterNode': 'V_PAR', 'EventDataItemNode': 'V_PAR'})
    for cls in repo.classes(PB):
        for name, fn in repo.methods(cls).items():
            if not name.startswith('accept_') or name[7:] not in expect:
                continue
            want = expect[name[7:]]
            q = '%s:%s.%s' % (PB, cls.name, name)
            env = ki.func_env(fn, cls)
            g = cfgmod.build(fn)
            paths = [p for p in g.paths(follow_exc=False, limit=50000) if p[-1][0].kind == 'exit']
            falloff = 0
            wrong = []
            for p in paths:
                last = p[-2][0] if len(p) >= 2 else None
                if last is None or last.kind == 'falloff':
                    falloff += 1
                    continue
                if last.kind == 'stmt' and isinstance(last.ast, ast.Return):
                    if last.ast.value is None:
                        falloff += 1
                        continue
                    k = ki.expr_kinds(last.ast.value, env, cls)
                    if k is not None and want not in k:
                        wrong.append((src(last.ast), sorted(k)))
            if falloff and name in RETURN_TABLED:
                r.info('%s: %d path(s) return nothing: %s' % (q, falloff, RETURN_TABLED[name]), fn)
                falloff = 0
            r.check(falloff == 0 and not wrong, '%s returns %s on all %d paths' % (q, want, len(paths)), fn, construct=q, key='return ' + want,
                    msg='%s must return the %s it built on every path; %d path(s) return nothing%s -- the caller chains/relates '
                        'the returned instance (a missing value silently breaks e.g. the R661 statement chain)'
                        % (q, want, falloff, ('; wrong kind: %s' % wrong[:2]) if wrong else ''))


# ---------------------------------------------------------------------------
def pos_rule(ctx):
    repo = ctx.repo
    r = ctx.rule('C06-POS', 'statements, values and variable locations carry line / start column / end column of their node', floor=5,
                 oracle='property statement')
    fn = repo.func(AP + '.act_smt')
    v = None
    for st in body_without_doc(fn):
        m = pm.match("_V = self.new('ACT_SMT')", st)
        if m:
            v = m['_V'].id
    if v is None:
        raise AnalysisError('%s: act_smt does not create an ACT_SMT' % loc(fn))
    for attr, field in (('LineNumber', 'start_line'), ('StartPosition', 'start_column'), ('EndPosition', 'end_column')):
        r.check(pm.contains('%s.%s = node.position.%s' % (v, attr, field), fn), 'ACT_SMT.%s = node.position.%s' % (attr, field), fn,
                construct=AP + '.act_smt', key='pos ' + attr, msg='act_smt does not set %s from node.position.%s' % (attr, field))
    r.check(pm.contains('%s.Label = node.character_stream' % v, fn), 'ACT_SMT.Label = source text of the statement', fn,
            construct=AP + '.act_smt', key='label', msg='act_smt does not set Label from node.character_stream')
    r.check(pm.contains('relate(_B, %s, 602)' % v, fn) and pm.contains("_B = self.symtab.find_symbol(kind='ACT_BLK')", fn),
            'the statement is related to the innermost block over R602', fn, construct=AP + '.act_smt', key='R602',
            msg='act_smt does not relate the statement to the current ACT_BLK over R602')
    for helper, kind in (('v_val', 'V_VAL'), ('v_var', 'V_LOC')):
        fn = repo.func(AP + '.' + helper)
        ok = False
        for n in ast.walk(fn):
            if isinstance(n, ast.Call) and call_attr(n) == 'new' and n.args and isinstance(n.args[0], ast.Constant) and n.args[0].value == kind:
                kw = {k.arg: src(k.value) for k in n.keywords if k.arg}
                ok = (kw.get('LineNumber') == 'node.position.start_line' and kw.get('StartPosition') == 'node.position.start_column'
                      and kw.get('EndPosition') == 'node.position.end_column')
        r.check(ok, '%s is created with (start_line, start_column, end_column) of its node' % kind, fn, construct=AP + '.' + helper,
                key='pos', msg='%s does not create %s with LineNumber/StartPosition/EndPosition = start_line/start_column/end_column' % (helper, kind))


# ---------------------------------------------------------------------------
TYPES_TABLED = {
    ('accept_VariableAccessNode', 'implicit l-value transient'): 'an implicitly declared transient is typed by the assignment that declares it',
    ('accept_IndexAccessNode', 'untyped root'): 'element of an array whose root is not yet typed (typed by the declaring assignment)',
    ('v_isr', ''): '', ('v_irf', ''): '',
}


def types_rule(ctx, ki):
    repo = ctx.repo
    sc = get_schema(repo)
    r = ctx.rule('C06-TYPES', 'OAL typing table and data-type relation R820 of every value', floor=25,
                 oracle='property statement (comparisons/boolean -> boolean, cardinality -> integer, literals -> their type)')
    g = lexrules.grammar_of(repo, 'bridgepoint.oal:OALParser')
    from .c04 import TOKEN_LEXEME
    bool_ops = set()
    for p in g.productions:
        if p.fn.name == 'p_boolean_expression':
            bool_ops.add(TOKEN_LEXEME[p.syms[1]])
    if len(bool_ops) != 8:
        raise AnalysisError('comparison/boolean operator productions not recognised (%s)' % sorted(bool_ops))
    fn = repo.func(AP + '.accept_BinaryOperationNode')
    Q = AP + '.accept_BinaryOperationNode'
    opv = None
    for st in body_without_doc(fn):
        m = pm.match('_V = node.operator.lower()', st)
        if m:
            opv = m['_V'].id
    got = None
    for n in ast.walk(fn):
        if isinstance(n, ast.If) and opv:
            m = pm.match('%s in _L' % opv, n.test)
            if m and isinstance(m['_L'], (ast.List, ast.Tuple, ast.Set)) and pm.match(["_S = self.s_dt('boolean')"], n.body) is not None:
                got = set(e.value for e in m['_L'].elts if isinstance(e, ast.Constant))
    r.check(got == bool_ops, 'operators typed boolean = comparison and boolean operators of the grammar %s' % sorted(bool_ops), fn,
            construct=Q, key='boolean-ops', msg='accept_BinaryOperationNode types %s as boolean; the grammar\'s comparison/boolean operators '
                                               'are %s' % (sorted(got) if got else None, sorted(bool_ops)))
    r.check(opv is not None and pm.contains("self.new('V_BIN', Operator=%s)" % opv, fn), 'V_BIN.Operator is the lower-cased operator', fn,
            construct=Q, key='operator-attr', msg='V_BIN.Operator is not the case-normalised operator')
    # default: left operand type
    r.check(pm.contains('_L = one(_VL).S_DT[820]()', fn), 'other binary operations take the type of the left operand', fn, construct=Q,
            key='left-type', msg='accept_BinaryOperationNode no longer derives the default result type from the left operand')
    fn = repo.func(AP + '.accept_UnaryOperationNode')
    Q = AP + '.accept_UnaryOperationNode'
    ok_b = ok_i = False
    for n in ast.walk(fn):
        if isinstance(n, ast.If):
            m = pm.match('_O in _L', n.test)
            if m and isinstance(m['_L'], (ast.List, ast.Tuple, ast.Set)) and \
                    set(e.value for e in m['_L'].elts if isinstance(e, ast.Constant)) == {'not', 'empty', 'not_empty'} and \
                    pm.match(["_S = self.s_dt('boolean')"], n.body) is not None:
                ok_b = True
            for t in [n] + [x for x in n.orelse if isinstance(x, ast.If)]:
                m = pm.match("_O == 'cardinality'", t.test)
                if m and pm.match(["_S = self.s_dt('integer')"], t.body) is not None:
                    ok_i = True
    r.check(ok_b, 'not / empty / not_empty are typed boolean', fn, construct=Q, key='unary-boolean',
            msg='accept_UnaryOperationNode does not type exactly not/empty/not_empty as boolean')
    r.check(ok_i, 'cardinality is typed integer', fn, construct=Q, key='unary-integer', msg='accept_UnaryOperationNode does not type cardinality as integer')
    r.check(pm.contains('_O = node.operator.lower()', fn), 'the unary operator is compared case-normalised', fn, construct=Q, key='unary-case',
            msg='accept_UnaryOperationNode compares the raw operator spelling')
    for h, ty, sub in (('accept_BooleanNode', 'boolean', 'V_LBO'), ('accept_IntegerNode', 'integer', 'V_LIN'),
                       ('accept_RealNode', 'real', 'V_LRL'), ('accept_StringNode', 'string', 'V_LST')):
        fn = repo.func(AP + '.' + h)
        ok = pm.contains("_S = self.s_dt('%s')" % ty, fn) and pm.contains('relate(_V, _S, 820)', fn) and \
            any(isinstance(n, ast.Call) and call_attr(n) == 'new' and n.args and getattr(n.args[0], 'value', None) == sub for n in ast.walk(fn))
        r.check(ok, '%s: literal typed %s, stored as %s' % (h, ty, sub), fn, construct=AP + '.' + h, key='literal-type',
                msg='%s does not relate its V_VAL to the core type %s / create %s' % (h, ty, sub))
    # instance handles: V_INT uses the non-set reference type, V_INS the set type
    for h, is_set in (('v_int', False), ('v_ins', True)):
        fn = repo.func(AP + '.' + h)
        lam = [n for n in ast.walk(fn) if isinstance(n, ast.Lambda)]
        def _filter_text(l):
            # a filter is only asked for its truth value: bool(x) is x there
            b = l.body
            while isinstance(b, ast.Call) and isinstance(b.func, ast.Name) and b.func.id == 'bool' and len(b.args) == 1 and not b.keywords:
                b = b.args[0]
            return src(b).replace(l.args.args[0].arg + '.', 'sel.') if l.args.args else src(b)
        ok = len(lam) == 1 and (_filter_text(lam[0]) == ('sel.isSet' if is_set else 'not sel.isSet')) and \
            any(pm.match('one(o_obj).S_IRDT[123](_F)', n_) is not None for n_ in ast.walk(fn) if isinstance(n_, ast.Call)) and pm.contains('relate(_V, _S, 848)', fn)
        r.check(ok, '%s: variable typed with the %s reference type of its class' % (h, 'set' if is_set else 'instance'), fn,
                construct=AP + '.' + h, key='irdt', msg='%s does not select the S_IRDT with isSet == %s for the variable type' % (h, is_set))
    # R820 on every path for each created V_VAL
    for cls, fn in ki._functions():
        if cls is None or fn.name == 'v_val':
            continue
        if not any(isinstance(n, ast.Call) and src(n.func) == 'self.v_val' for n in ast.walk(fn)):
            continue
        q = '%s:%s.%s' % (PB, cls.name, fn.name)
        g2 = cfgmod.build(fn)
        paths = [p for p in g2.paths(follow_exc=False, limit=50000) if p[-1][0].kind == 'exit']
        missing = 0
        checked = 0
        tabled = 0
        for p in paths:
            for var, cnode, effects in _relates_per_creation(p, 'v_val', sc):
                checked += 1
                # DT_ID passed to v_val(...) counts as R820 by referential attribute
                direct = any(k.arg == 'DT_ID' for k in cnode.ast.value.keywords)
                mine = [x for x in effects if x[0] == 820]
                if mine or direct:
                    continue
                if fn.name == 'accept_VariableAccessNode' and any(k.arg == 'isImplicit' for k in cnode.ast.value.keywords):
                    tabled += 1
                    continue
                if fn.name == 'accept_IndexAccessNode':
                    tabled += 1
                    continue
                missing += 1
        if checked:
            r.check(missing == 0, '%s: every value created is related to a data type over R820 (%d path instances, %d tabled)'
                    % (q, checked, tabled), fn, construct=q, key='R820',
                    msg='%s: on %d path(s) a V_VAL is created but never related to its S_DT over R820' % (q, missing))


    # attribute access values: a referential attribute reads with the type of the attribute it refers to, its own type otherwise
    from .common import resolve_locals
    from ..kinds import chain_of
    fq = AP + '.v_avl'
    fn = repo.nfunc(fq)
    ps = param_names(fn)
    typed = [n for n in ast.walk(fn) if isinstance(n, ast.Call) and dotted(n.func) in ('relate', 'xtuml.relate') and len(n.args) >= 3 and rel_of(n.args[2]) and
             rel_of(n.args[2])[0] == 820]
    alts = None
    if len(typed) == 1:
        for a in typed[0].args[:2]:
            e = resolve_locals(fn, a)
            vals = e.values if isinstance(e, ast.BoolOp) and isinstance(e.op, ast.Or) else [e]
            chains = [chain_of(v) for v in vals]
            if all(c is not None and c[3] is not None and not c[3].args for c in chains) and all(c[2][-1].kind == 'S_DT' for c in chains):
                alts = [[(st.kind, st.rel) for st in c[2]] for c in chains if src(c[1]) in ps]
    want = [[('O_RATTR', 106), ('O_BATTR', 113), ('O_ATTR', 106), ('S_DT', 114)], [('S_DT', 114)]]
    r.check(alts == want, 'v_avl: the value of an attribute access takes the type of the referred-to base attribute, else the attribute\'s own type', fn,
            construct=fq, key='avl-type',
            msg='v_avl types the attribute value with %s (tried in this order); a referential attribute must read with the type of the attribute '
                'it refers to (O_RATTR[106].O_BATTR[113].O_ATTR[106].S_DT[114]) before its own same_as<Base_Attribute> type' % (alts,))
    # the values accept_IndexAccessNode / the implicit variable access leave untyped (tabled above) are typed by the assignment that
    # declares the array: every value on the index chain, not only one end of it
    fq = AP + '.accept_AssignmentNode'
    fn = repo.nfunc(fq)
    walked = 0
    for lp in [n for n in ast.walk(fn) if isinstance(n, (ast.While, ast.For))]:
        for st in lp.body:
            m = pm.match('_V = one(_A).V_VAL[838]()', st)
            if m is None or not isinstance(m['_V'], ast.Name):
                continue
            walked += 1
            v = m['_V'].id
            inside = any(pm.match('relate(%s, _S, 820)' % v, c) is not None or pm.match('relate(_S, %s, 820)' % v, c) is not None
                         for x in lp.body for c in ast.walk(x) if isinstance(c, ast.Call))
            r.check(inside, 'accept_AssignmentNode types every value on the index chain of the assigned array element', lp, construct=fq, key='index-chain-types',
                    msg='accept_AssignmentNode walks the index chain (R838) but does not relate each value `%s` it visits to a data type over R820 inside '
                        'the walk: the intermediate values of a multi-dimensional array element stay untyped' % v)
    r.check(walked == 1, 'accept_AssignmentNode walks the index chain of the assigned element (R838)', fn, construct=fq, key='index-chain-walk',
            msg='accept_AssignmentNode no longer walks the array element chain over R838 (%d walks found)' % walked)


# ---------------------------------------------------------------------------
def scope_rule(ctx):
    repo = ctx.repo
    r = ctx.rule('C06-SCOPE', 'scopes are entered and left in pairs; variables belong to the innermost block', floor=6,
                 oracle='property statement (every variable belongs to the block that declares it)')
    for h in ('accept_BodyNode', 'accept_BlockNode'):
        fn = repo.func(AP + '.' + h)
        seq = []
        for st in body_without_doc(fn):
            if pm.match('self.symtab.enter_scope(_B)', st) is not None:
                seq.append('enter')
            elif pm.match('self.symtab.leave_scope()', st) is not None:
                seq.append('leave')
            elif any(isinstance(n, ast.Call) and call_attr(n) == 'accept' for n in ast.walk(st)):
                seq.append('accept')
        r.check(seq == ['enter', 'accept', 'leave'], '%s: enter_scope(block), statements, leave_scope' % h, fn, construct=AP + '.' + h,
                key='pairing', msg='%s does not evaluate its statements between enter_scope(<new ACT_BLK>) and leave_scope: %s' % (h, seq))
        ok = pm.contains("_B = self.new('ACT_BLK')", fn) and pm.contains('relate(_B, self.act_act, 601)', fn)
        r.check(ok, '%s creates a new ACT_BLK in the action (R601)' % h, fn, construct=AP + '.' + h, key='block',
                msg='%s does not create an ACT_BLK related to the action over R601' % h)
    for h in ('accept_SelectFromWhereNode', 'accept_SelectRelatedWhereNode'):
        fn = repo.func(AP + '.' + h)
        body = body_without_doc(fn)
        idx = [i for i, st in enumerate(body) if pm.match('self.symtab.enter_scope(o_obj)', st) is not None]
        ok = False
        if len(idx) == 1:
            i = idx[0]
            ok = i + 2 < len(body) and pm.match('_V = self.accept(node.where_clause)', body[i + 1]) is not None and \
                pm.match('self.symtab.leave_scope()', body[i + 2]) is not None
        r.check(ok, '%s evaluates the where clause inside a scope of the selected class' % h, fn, construct=AP + '.' + h, key='where-scope',
                msg='%s does not wrap the where clause in enter_scope(o_obj) ... leave_scope()' % h)
    fn = repo.func(AP + '.v_var')
    ok = pm.contains("_B = self.symtab.find_symbol(kind='ACT_BLK')", fn) and pm.contains('relate(_V, _B, 823)', fn)
    r.check(ok, 'a variable is related over R823 to the innermost enclosing ACT_BLK', fn, construct=AP + '.v_var', key='R823',
            msg='v_var does not relate the variable to find_symbol(kind=\'ACT_BLK\') over R823')
    fs = repo.func(PB + ':SymbolTable.find_symbol')
    ok = any(isinstance(n, ast.For) and pm.match('reversed(self.stack)', n.iter) is not None for n in ast.walk(fs))
    r.check(ok, 'symbol lookup searches the scope stack innermost first', fs, construct=PB + ':SymbolTable.find_symbol', key='innermost',
            msg='SymbolTable.find_symbol no longer searches reversed(self.stack)')
    es = repo.func(PB + ':SymbolTable.enter_scope')
    ls = repo.func(PB + ':SymbolTable.leave_scope')
    r.check(pm.contains('self.stack.append(_S)', es) and pm.contains('_S = self.stack.pop()', ls), 'scopes form a stack', es,
            construct=PB + ':SymbolTable', key='stack', msg='enter_scope/leave_scope no longer push/pop self.stack')


def context_rule(ctx):
    '''a handler that receives the statement context (a parameter with default None such as act_smt) and hands the node on to another
    handler that takes the same parameter passes it on: otherwise the callee builds its value without the statement subtype
    (ACT_TFM / ACT_BRG ...) and the ACT_SMT is left without any R603 subtype'''
    repo = ctx.repo
    r = ctx.rule('C06-CONTEXT', 'the statement context is forwarded by every dispatching handler', floor=3,
                 oracle='sibling branches of the dispatchers; every statement has exactly one subtype')
    for cls in repo.classes(PB):
        methods = repo.methods(cls)
        for name, m in sorted(methods.items()):
            a = m.args
            ps = [x.arg for x in a.posonlyargs + a.args]
            ctxp = [p_ for p_, d in zip(ps[len(ps) - len(a.defaults):], a.defaults) if isinstance(d, ast.Constant) and d.value is None]
            if not ctxp or not name.startswith('accept_'):
                continue
            for c in ast.walk(m):
                if not (isinstance(c, ast.Call) and isinstance(c.func, ast.Attribute) and isinstance(c.func.value, ast.Name) and
                        c.func.value.id == 'self' and c.func.attr.startswith('accept_') and c.func.attr in methods):
                    continue
                callee = methods[c.func.attr]
                cps = [x.arg for x in callee.args.posonlyargs + callee.args.args][1:]
                for p_ in ctxp:
                    if p_ not in cps:
                        continue
                    passed = any(k.arg == p_ and isinstance(k.value, ast.Name) and k.value.id == p_ for k in c.keywords) or \
                        (len(c.args) > cps.index(p_) and isinstance(c.args[cps.index(p_)], ast.Name) and c.args[cps.index(p_)].id == p_) or \
                        any(k.arg is None for k in c.keywords)
                    q = '%s:%s.%s' % (PB, cls.name, name)
                    r.check(passed, '%s passes `%s` on to %s' % (name, p_, c.func.attr), c, construct=q, key='context %s->%s' % (p_, c.func.attr),
                            msg='%s receives `%s` but calls %s without it: the callee then builds the invocation as a value only; used as a statement '
                                'the ACT_SMT gets no subtype across R603' % (q, p_, c.func.attr))


def params_rule(ctx):
    '''param.<name> is resolved among the parameters of the element that owns the body: every selection by the parameter name in an
    accept_ParamAccessNode is a navigation that starts at the prebuilder's own element (one(self._x)...), never a model-wide lookup'''
    from .common import resolve_locals
    repo = ctx.repo
    r = ctx.rule('C06-PARAMS', 'a parameter read is resolved among the parameters of the owning bridge / function / operation / event / message',
                 floor=8, oracle='property statement (a parameter read has the declared type of THAT parameter)')
    for cls in repo.classes(PB):
        m = repo.methods(cls).get('accept_ParamAccessNode')
        if m is None or cls.name == 'ActionPrebuilder':
            continue
        Q = '%s:%s.accept_ParamAccessNode' % (PB, cls.name)
        m = repo.nfunc(Q)          # normal form: one name per value, so that the start of every navigation can be traced back
        node_p = param_names(m)[0]
        n_sel = 0
        for c in ast.walk(m):
            if not isinstance(c, ast.Call):
                continue
            args = [resolve_locals(m, a, pure_only=False) for a in c.args]
            if not any(pm.match('where(Name=%s.variable_name)' % node_p, a) is not None for a in args):
                continue
            n_sel += 1
            root = c.func
            while isinstance(root, (ast.Subscript, ast.Attribute)):
                root = root.value
            rooted = isinstance(root, ast.Call) and dotted(root.func) in ('one', 'many', 'xtuml.navigate_one', 'xtuml.navigate_many') and \
                isinstance(c.func, ast.Subscript)
            start = resolve_locals(m, root.args[0], pure_only=False) if rooted and root.args else None
            own = start is not None and any(isinstance(x, ast.Attribute) and isinstance(x.value, ast.Name) and x.value.id == 'self' and x.attr.startswith('_')
                                            for x in ast.walk(start))
            r.check(rooted and own, '%s selects the parameter by name along a navigation from its own element' % cls.name, c, construct=Q, key='param-scope',
                    msg='%s resolves param.<name> with `%s`, which is not a navigation from the element the body belongs to: a parameter of the '
                        'same name declared by ANOTHER %s is found, and the read gets that parameter\'s type' % (
                            Q, src(c)[:80], {'OperationPrebuilder': 'operation', 'BridgePrebuilder': 'bridge', 'FunctionPrebuilder': 'function'}.get(cls.name, 'element')))
        r.check(n_sel >= 1, '%s selects by the parameter name' % cls.name, m, construct=Q, key='param-select',
                msg='%s no longer selects the parameter by where(Name=node.variable_name)' % Q)


# ---------------------------------------------------------------------------
OBLIG_TABLED = {
    ('v_val', 'V_VAL', 820): 'completed by every caller (decided per caller by C06-TYPES)',
    ('v_var', 'V_VAR', 848): 'completed by the callers v_int / v_ins / find_symbol / event handlers; a V_TRN is typed by its first assignment',
}


def oblig_rule(ctx, ki):
    repo = ctx.repo
    sc = get_schema(repo)
    r = ctx.rule('C06-OBLIG', 'every created instance is related across its unconditional associations in the creating function', floor=90,
                 oracle='schema multiplicities (TO 1 / FROM 1 ends)')
    for cls, fn in ki._functions():
        news = []
        for n in ast.walk(fn):
            if isinstance(n, ast.Assign) and isinstance(n.value, ast.Call) and call_attr(n.value) == 'new' and n.value.args \
                    and isinstance(n.value.args[0], ast.Constant) and isinstance(n.targets[0], ast.Name):
                news.append((n.targets[0].id, n.value.args[0].value, n.value))
        if not news:
            continue
        rels = {}
        for n in ast.walk(fn):
            if isinstance(n, ast.Call) and dotted(n.func) in ('relate', 'xtuml.relate') and len(n.args) >= 3:
                rr = rel_of(n.args[2])
                if rr:
                    for a in n.args[:2]:
                        rels.setdefault(src(a), set()).add(rr[0])
        q = '%s:%s%s' % (PB, (cls.name + '.') if cls else '', fn.name)
        for var, k, call in news:
            kk = sc.kind(k)
            if kk is None:
                continue
            ob = set()
            for rop in sc.rops:
                if rop.src_kind == kk and rop.tgt_card == '1':
                    ob.add(rop.rel)
                if rop.tgt_kind == kk and rop.src_card in ('1', 'M'):
                    ob.add(rop.rel)
            kw = set(x.arg for x in call.keywords if x.arg)
            for rop in sc.rops:
                if rop.src_kind == kk and rop.src_keys and set(rop.src_keys) <= kw:
                    ob.discard(rop.rel)
            for rel in sorted(ob):
                done = rel in rels.get(var, set())
                if not done and (fn.name, kk, rel) in OBLIG_TABLED:
                    r.info('%s: %s over R%d: %s' % (q, kk, rel, OBLIG_TABLED[(fn.name, kk, rel)]), call)
                    r.ok('%s: %s R%d completed elsewhere (tabled)' % (q, kk, rel), call, construct='%s|%s|%d' % (q, var, rel))
                    continue
                r.check(done, '%s: new %s `%s` is related over R%d' % (q, kk, var, rel), call, construct=q, key='oblig %s R%d' % (kk, rel),
                        msg='%s creates %s (`%s`) but never relates it over R%d, which the schema makes unconditional for %s (%s)'
                            % (q, kk, var, rel, kk, '; '.join(repr(x) for x in sc.by_rel[rel] if kk in (x.src_kind, x.tgt_kind))[:160]))


def walker_state(ctx):
    """Constructs nest (an if inside an elif block, a select inside a where clause ...), and one walker translates the whole body: what a
    handler knows about ITS construct lives in locals and is handed to the handlers of the parts as an argument.  A walker attribute that a
    handler of a nestable construct sets to a per-construct value and that is read after another dispatch is overwritten by the nested
    construct of the same kind."""
    repo = ctx.repo
    r = ctx.rule('C06-WALKERSTATE', 'handlers of nestable constructs keep per-construct context in locals / arguments, not in walker attributes', floor=40,
                 oracle='grammar: every statement and expression construct can occur inside itself; only the body is the root')
    from . import nodes as _nodes
    f = _nodes.facts(repo)
    g = f.g
    # BodyNode is built by the start production only: its handler runs once per walk
    root_heads = set(p_.head for p_ in f.constructible.get('BodyNode', []))
    root_only = bool(root_heads) and not any(h in p_.syms for h in root_heads for p_ in g.productions)
    n = 0
    for c in repo.classes('bridgepoint.prebuild'):
        handlers = [m for m in c.body if isinstance(m, ast.FunctionDef) and m.name.startswith('accept_')]
        if not handlers:
            continue
        reads = {}
        for m in handlers + [x for x in c.body if isinstance(x, ast.FunctionDef) and not x.name.startswith('accept_') and x.name != '__init__']:
            for x in ast.walk(m):
                if isinstance(x, ast.Attribute) and isinstance(x.value, ast.Name) and x.value.id == 'self' and isinstance(x.ctx, ast.Load):
                    reads.setdefault(x.attr, []).append((m, x))
        for m in handlers:
            n += 1
            q = 'bridgepoint.prebuild:%s.%s' % (c.name, m.name)
            if m.name == 'accept_BodyNode' and root_only:
                r.ok('%s translates the root of the tree: it runs once per walk' % q, m, construct=q)
                continue
            stores = [st for st in ast.walk(m) if isinstance(st, (ast.Assign, ast.AugAssign))
                      for t in (st.targets if isinstance(st, ast.Assign) else [st.target])
                      if isinstance(t, ast.Attribute) and isinstance(t.value, ast.Name) and t.value.id == 'self']
            bad = None
            for st in stores:
                t = [t for t in (st.targets if isinstance(st, ast.Assign) else [st.target]) if isinstance(t, ast.Attribute)][0]
                if isinstance(st, ast.Assign) and isinstance(st.value, ast.Constant):
                    continue           # a mode toggle (is_lvalue = True ... False) carries nothing of the construct
                # saved before and restored afterwards?
                saved = [a for a in ast.walk(m) if isinstance(a, ast.Assign) and len(a.targets) == 1 and isinstance(a.targets[0], ast.Name)
                         and src(a.value) == src(t) and a.lineno < st.lineno]
                restored = [b for b in ast.walk(m) if isinstance(b, ast.Assign) and any(src(x) == src(t) for x in b.targets) and b.lineno > st.lineno
                            and isinstance(b.value, ast.Name) and any(b.value.id == a.targets[0].id for a in saved)]
                if saved and restored:
                    continue
                later = [(m2, x) for m2, x in reads.get(t.attr, []) if m2 is not m or
                         any(isinstance(d, ast.Call) and src(d.func) == 'self.accept' and st.lineno < d.lineno <= x.lineno for d in ast.walk(m))]
                if later:
                    bad = (st, t, later[0])
                    break
            if bad:
                st, t, (m2, x) = bad
                r.violation('%s keeps the context of its construct in the walker attribute `%s` (`%s`), which %s reads after further parts of the tree '
                            'were translated: a nested construct of the same kind (inside a block, a where clause, a parameter) overwrites it, and the '
                            'outer construct\'s later parts are attached to the inner one' % (q, src(t), src(st)[:80], m2.name), st, construct=q,
                            key='walker-attr ' + t.attr)
            else:
                r.ok('%s keeps nothing of its construct on the walker' % q, m, construct=q)
    if n < 40:
        raise AnalysisError('only %d prebuild handlers found' % n)
