'''
C02 - Links stay symmetric, bounded and atomic through any operation history.

Structural clauses decided (DESIGN.md section 2, C02):
  C02-LINKOPS  total abstract tables of Link.connect / Link.disconnect
  C02-ATOMIC   total tables of relate / unrelate over all link-op outcomes
               (pairing on success, no net mutation on rejection)
  C02-SWAP     direction resolution: define_association roles, _find_link
  C02-PAIR     every other caller of connect/disconnect mirrors its calls
  C02-KINDFLOW instances handed to a link op have the kinds of the link's ends
  C02-DELETE   MetaClass.delete / delete
  C02-REF      referential attributes are derived properties
'''
import ast
import itertools

from ..src import AnalysisError, loc, src, norm, dotted, call_attr, param_names, walk_local, qualname
from .. import pm, absint
from .common import AssocModel, truthy_patterns, exception_class_name, link_op_call


def run(ctx):
    repo = ctx.repo
    am = AssocModel(repo)
    ctx.guard(linkops, ctx)
    ctx.guard(atomic, ctx, am)
    ctx.guard(swap, ctx, am)
    ctx.guard(pair_and_kinds, ctx, am)
    ctx.guard(delete_rule, ctx)
    ctx.guard(ref_rule, ctx, am)
    from . import linkedset
    ctx.guard(linkedset.check, ctx, 'C02-PARTNERS')
    ctx.guard(fresh_results, ctx)
    ctx.guard(new_order, ctx)
    ctx.guard(rejections, ctx)
    from . import c10 as _c10
    ctx.shared(_c10.access, ctx)            # referential attributes are read through Class.__getattr__ / the declared cell
    from . import c09 as _c09
    ctx.shared(_c09.nav, ctx)               # "navigation is symmetric" is observed through MetaClass.navigate / _find_assoc_links and the chain helpers
    ctx.assume('induction hypothesis for C02-ATOMIC/unrelate: the two directed links mirror each other '
               'before the call (established by C02-PAIR + C02-ATOMIC for every mutator)')
    ctx.assume('no code outside xtuml/ and bridgepoint/ mutates Link dictionaries directly')
    return ('Abstract tables over all abstract states of Link.connect/disconnect (instance present?, pair '
            'present?, other partner?, many, check) and over all outcome combinations of the link operations '
            'inside relate/unrelate; role model of source_link/target_link derived from define_association and '
            'used to type-check _find_link and every connect/disconnect call site; path rules for delete and '
            'formalize.  Decides the structural necessary conditions of symmetry/atomicity, not whole histories.')


# ---------------------------------------------------------------------------
def rejections(ctx):
    """the documented rejections (RelateException, UnrelateException, UnknownLinkException, DeleteException ...) can be built for whatever
    arguments the rejected call was given: their constructors format the message with total conversions only"""
    import re
    repo = ctx.repo
    r = ctx.rule('C02-REJECT', 'building a documented rejection cannot itself fail: the exception constructors format their arguments with %s / %r only',
                 floor=3, oracle='property statement: a rejected call raises the documented exception (association numbers are given as R<n> or <n>)')
    bases = repo.exception_bases()

    def is_meta_exc(name):
        seen, todo = set(), [name]
        while todo:
            n = todo.pop()
            if n == 'MetaException':
                return True
            if n not in seen:
                seen.add(n)
                todo += list(bases.get(n, ()))
        return False
    for c in repo.classes('xtuml.meta'):
        if not is_meta_exc(c.name):
            continue
        for m in c.body:
            if not (isinstance(m, ast.FunctionDef) and m.name == '__init__'):
                continue
            params = set(a.arg for a in m.args.args[1:])
            q = 'xtuml.meta:%s.__init__' % c.name
            for n in ast.walk(m):
                if not (isinstance(n, ast.BinOp) and isinstance(n.op, ast.Mod) and isinstance(n.left, ast.Constant) and isinstance(n.left.value, str)):
                    continue
                convs = [x for x in re.findall(r'%(?:\([^)]*\))?[-#0 +]*[0-9*]*(?:\.[0-9*]+)?([a-zA-Z%])', n.left.value) if x != '%']
                args = n.right.elts if isinstance(n.right, ast.Tuple) else [n.right]
                r.check(len(convs) == len(args) or not isinstance(n.right, ast.Tuple) and len(convs) == 1, '%s: %d conversions, %d arguments' % (q, len(convs), len(args)),
                        n, construct=q, key='arity ' + n.left.value[:30],
                        msg='%s: the message %r has %d conversions but %d arguments: raising the documented exception fails with TypeError'
                            % (q, n.left.value, len(convs), len(args)))
                for cnv, arg in zip(convs, args):
                    names = set(x.id for x in ast.walk(arg) if isinstance(x, ast.Name))
                    total = cnv in ('s', 'r', 'a')
                    wrapped = isinstance(arg, ast.Call) and dotted(arg.func) in ('int', 'len', 'float')
                    r.check(total or wrapped or not (names & params), '%s: `%s` is formatted with %%%s' % (q, src(arg), cnv), arg, construct=q,
                            key='conversion ' + src(arg),
                            msg='%s formats its argument `%s` with %%%s: the rejected call may have been given any spelling the API accepts (an association '
                                'number as \'R1\' or as 1, a phrase, an instance), so building the documented %s raises an unrelated TypeError instead'
                                % (q, src(arg), cnv, c.name))


def linkops(ctx):
    repo = ctx.repo
    r = ctx.rule('C02-LINKOPS', 'abstract truth tables of Link.connect and Link.disconnect vs specification',
                 floor=20, oracle='property statement: single-valued end rejects a second partner; already '
                                  'related pair is a no-op; unrelate of unlinked pair is rejected unchanged')
    fn = repo.func('xtuml.meta:Link.connect')
    ps = param_names(fn)
    if len(ps) < 3:
        raise AnalysisError('%s: Link.connect signature changed' % loc(fn))
    A, B, C = ps[0], ps[1], ps[2]
    slot = 'self[%s]' % A
    t, f = truthy_patterns(slot)
    atoms = [
        ('%s not in self' % A, lambda e, s, tr: not s['has']),
        ('%s in self' % A, lambda e, s, tr: s['has']),
        ('%s in %s' % (B, slot), lambda e, s, tr: s['pair']),
        ('%s not in %s' % (B, slot), lambda e, s, tr: not s['pair']),
        ('self.many', lambda e, s, tr: s['many']),
        (C, lambda e, s, tr: s['check']),
        ('self.get(%s)' % A, lambda e, s, tr: s['has'] and s['nonempty']),
        ('self.get(%s, _D)' % A, lambda e, s, tr: s['has'] and s['nonempty']),
    ]
    for p in t:
        atoms.append((p, lambda e, s, tr: _need_has(s) and s['nonempty']))
    for p in f:
        atoms.append((p, lambda e, s, tr: _need_has(s) and not s['nonempty']))

    def init_slot(e, s, tr):
        v = e['_V']
        if not (isinstance(v, ast.Call) and (dotted(v.func) or '').split('.')[-1] == 'OrderedSet' and not v.args):
            raise AnalysisError('%s: link slot initialised with `%s`, not an empty OrderedSet' % (loc(v), src(v)))
        s['has'] = True
        s['nonempty'] = False
        s['pair'] = False
        tr.append('init')

    def add(e, s, tr):
        _need_has(s)
        s['pair'] = True
        s['nonempty'] = True
        tr.append('add')

    def setdefault(e, s, tr):
        if not s['has']:
            init_slot(e, s, tr)
        return True

    effects = [('%s = _V' % slot, init_slot), ('%s.add(%s)' % (slot, B), add), ('self.setdefault(%s, _V)' % A, setdefault),
               ('self.setdefault(%s, _V).add(%s)' % (A, B), lambda e, s, tr: (setdefault(e, s, tr), add(e, s, tr)))]
    it = absint.Interp(fn, atoms, effects)
    n = 0
    for has, nonempty, pair, many, check in itertools.product([0, 1], repeat=5):
        if (nonempty and not has) or (pair and not nonempty):
            continue
        st = dict(has=bool(has), nonempty=bool(nonempty), pair=bool(pair), many=bool(many), check=bool(check))
        st0 = dict(st)
        out, tr = it.run(st)
        n += 1
        reject = (not st0['pair']) and st0['nonempty'] and (not st0['many']) and st0['check']
        desc = 'connect%s' % _fmt(st0)
        if out.kind != 'return' or not isinstance(out.value, ast.Constant) or not isinstance(out.value.value, bool):
            r.violation('%s ends with %r, expected `return True/False`' % (desc, out), fn,
                        construct='xtuml.meta:Link.connect', key=desc)
            continue
        val = out.value.value
        if reject:
            ok = (val is False) and 'add' not in tr
            msg = '%s must be rejected without storing (second partner on a single-valued end); got return %s, effects %s' % (desc, val, tr)
        else:
            ok = (val is True) and st['pair']
            msg = '%s must succeed with the pair present afterwards; got return %s, effects %s, pair=%s' % (desc, val, tr, st['pair'])
        r.check(ok, desc + ' -> ' + ('reject' if reject else 'accept'), fn,
                construct='xtuml.meta:Link.connect', key=desc, msg=msg)

    # -- disconnect
    fn = repo.func('xtuml.meta:Link.disconnect')
    ps = param_names(fn)
    A, B = ps[0], ps[1]
    slot = 'self[%s]' % A
    t, f = truthy_patterns(slot)
    atoms = [
        ('%s not in self' % A, lambda e, s, tr: not s['has']),
        ('%s in self' % A, lambda e, s, tr: s['has']),
        ('%s in %s' % (B, slot), lambda e, s, tr: _need_has(s) and s['pair']),
        ('%s not in %s' % (B, slot), lambda e, s, tr: _need_has(s) and not s['pair']),
        ('not %s' % slot, lambda e, s, tr: _need_has(s) and not s['nonempty']),
        ('self.many', lambda e, s, tr: s['many']),
    ]
    for p in t:
        atoms.append((p, lambda e, s, tr: _need_has(s) and s['nonempty']))
    for p in f:
        atoms.append((p, lambda e, s, tr: _need_has(s) and not s['nonempty']))

    def size_cmp(op, flipped=False):
        def fn_(e, s, tr):
            k = e['_K']
            if not (isinstance(k, ast.Constant) and type(k.value) is int):
                return None
            _need_has(s)
            n_ = int(s['pair']) + int(s['others'])       # others: 0, 1 or 2 (two stands for "two or more")
            a_, b_ = (k.value, n_) if flipped else (n_, k.value)
            return {'==': a_ == b_, '!=': a_ != b_, '<': a_ < b_, '<=': a_ <= b_, '>': a_ > b_, '>=': a_ >= b_}[op]
        return fn_
    for op_ in ('==', '!=', '<', '<=', '>', '>='):
        atoms.append(('len(%s) %s _K' % (slot, op_), size_cmp(op_)))
        atoms.append(('_K %s len(%s)' % (op_, slot), size_cmp(op_, True)))

    def remove(e, s, tr):
        _need_has(s)
        if not s['pair']:
            if e.get('_M') == 'remove':
                raise AnalysisError('abstract KeyError')
            return
        s['pair'] = False
        s['nonempty'] = bool(s['others'])
        tr.append('remove')

    def del_slot(e, s, tr):
        _need_has(s)
        if s.get('pair') and not s.get('others'):
            tr.append('remove')        # the entry holds exactly the pair: dropping it removes the pair
            tr.append('del')
            s['pair'] = False
        else:
            tr.append('del-nonempty' if s['nonempty'] else 'del')
        s['has'] = False
        s['nonempty'] = False

    effects = [('%s._M(%s)' % (slot, B), lambda e, s, tr: remove(e, s, tr) if e['_M'] in ('remove', 'discard') else False),
               ('del %s' % slot, del_slot)]
    it = absint.Interp(fn, atoms, effects)
    # a single-valued end can hold several partners too (check=False while loading): the cardinality of the end does not change
    # what disconnect owes
    for has, pair, others, many in itertools.product([0, 1], [0, 1], [0, 1, 2], [0, 1]):
        if (pair and not has) or (others and not has):
            continue
        st = dict(has=bool(has), pair=bool(pair), others=others, nonempty=bool(pair or others), many=bool(many))
        st0 = dict(st)
        desc = 'disconnect%s' % _fmt(st0)
        try:
            out, tr = it.run(st)
        except AnalysisError as e:
            if 'abstract KeyError' in str(e):
                r.violation('%s raises KeyError instead of returning False' % desc, fn,
                            construct='xtuml.meta:Link.disconnect', key=desc)
                continue
            raise
        if out.kind != 'return' or not isinstance(out.value, ast.Constant) or not isinstance(out.value.value, bool):
            r.violation('%s ends with %r, expected `return True/False`' % (desc, out), fn,
                        construct='xtuml.meta:Link.disconnect', key=desc)
            continue
        val = out.value.value
        if not st0['pair']:
            ok = val is False and not tr
            msg = '%s (pair absent) must return False and leave the link unchanged; got %s, effects %s' % (desc, val, tr)
        else:
            ok = val is True and 'remove' in tr and 'del-nonempty' not in tr
            msg = ('%s (pair present) must remove exactly that pair and return True; got %s, effects %s'
                   % (desc, val, tr))
        r.check(ok, desc, fn, construct='xtuml.meta:Link.disconnect', key=desc, msg=msg)

    # navigate() must read the same dictionary slot
    fn = repo.func('xtuml.meta:Link.navigate')
    p = param_names(fn)[0]
    itn = absint.Interp(fn, [('%s in self' % p, lambda e, s, tr: s['has']), ('%s not in self' % p, lambda e, s, tr: not s['has'])])
    o1, _ = itn.run({'has': True})
    o2, _ = itn.run({'has': False})
    good = o1.kind == 'return' and o1.value is not None and (pm.match('self[%s]' % p, o1.value) is not None or
                                                             pm.match('self.get(%s, __)' % p, o1.value) is not None)
    empty = o2.kind == 'return' and o2.value is not None and (
        pm.match('self.get(%s, __)' % p, o2.value) is not None or
        (isinstance(o2.value, (ast.List, ast.Tuple, ast.Set)) and not o2.value.elts) or
        (isinstance(o2.value, ast.Call) and not o2.value.args and (call_attr(o2.value) or '') in ('set', 'list', 'tuple', 'OrderedSet', 'frozenset', 'QuerySet')))
    good = good and empty
    r.check(good, 'Link.navigate returns the stored partner set of its instance (an empty collection for an unconnected one)', fn,
            construct='xtuml.meta:Link.navigate', key='navigate',
            msg='Link.navigate no longer returns self[%s]' % p)


def new_order(ctx):
    '''an instance is in the pool of its class before it is linked to anything: if the batch relate of MetaClass.new is rejected
    half way, what the already linked partners reach is at least a live instance (that delete can find and unlink)'''
    from .. import cfg as cfgmod
    repo = ctx.repo
    r = ctx.rule('C02-POOL-FIRST', 'MetaClass.new puts the instance into the pool before it relates it', floor=2,
                 oracle='property statement (only live instances are reachable, also after a rejected operation)')
    Q = 'xtuml.meta:MetaClass.new'
    fn = repo.func(Q)
    g = cfgmod.build(fn)
    paths = g.paths(follow_exc=False)

    def is_append(n):
        return n.kind == 'stmt' and any(isinstance(c, ast.Call) and pm.match('self.storage.append(_I)', c) is not None for c in ast.walk(n.ast))

    def is_relate(n):
        return n.kind in ('stmt', 'test', 'for') and n.ast is not None and any(
            isinstance(c, ast.Call) and (dotted(c.func) or '').split('.')[-1] in ('relate', 'connect', 'batch_relate') for c in ast.walk(n.ast))
    n_rel = 0
    bad = None
    for p_ in paths:
        seen_append = False
        for n, _lab in p_:
            if is_append(n):
                seen_append = True
            if is_relate(n):
                n_rel += 1
                if not seen_append and bad is None:
                    bad = n
    r.check(n_rel >= 1, 'MetaClass.new relates the instance on %d path positions' % n_rel, fn, construct=Q, key='relates',
            msg='MetaClass.new no longer relates the new instance (referential keyword arguments)')
    r.check(bad is None, 'on every path the instance is appended to self.storage before the first relate', bad.ast if bad is not None else fn, construct=Q,
            key='pool-first', msg='MetaClass.new relates the new instance (`%s`) on a path where it is not yet in self.storage: if a later relate of '
                                  'the batch is rejected, the instances linked so far reach an instance that is in no pool and that no delete can '
                                  'find' % (src(bad.ast)[:60] if bad is not None else ''))


def fresh_results(ctx):
    '''reading never changes the links: whatever a navigation / query function of xtuml.meta grows or shrinks in place (|=, .add,
    .update, .append ...) is a container it created itself, never the live partner set a Link hands out'''
    repo = ctx.repo
    r = ctx.rule('C02-READONLY', 'navigations and queries accumulate into containers of their own, never into a live link set', floor=2,
                 oracle='property statement (navigation reflects the links; it does not alter them)')
    FRESH = ('OrderedSet', 'QuerySet', 'set', 'list', 'dict', 'frozenset', 'sorted', 'tuple')
    MUT = ('add', 'update', 'append', 'extend', 'insert', 'remove', 'discard', 'pop', 'clear', 'intersection_update', 'difference_update',
           'symmetric_difference_update')
    n = 0
    for q in ('xtuml.meta:MetaClass.navigate', 'xtuml.meta:NavChain._nav', 'xtuml.meta:NavChain.nav', 'xtuml.meta:Link.navigate',
              'xtuml.meta:Link.navigate_one', 'xtuml.meta:MetaClass.select_many', 'xtuml.meta:MetaClass.select_one', 'xtuml.meta:MetaClass.query',
              'xtuml.meta:apply_query_operators', 'xtuml.meta:navigate_subtype', 'xtuml.meta:sort_reflexive'):
        fn = repo.func(q, required=False)
        if fn is None:
            continue
        mutated = {}
        for x in ast.walk(fn):
            if isinstance(x, ast.AugAssign) and isinstance(x.target, ast.Name) and isinstance(x.op, (ast.BitOr, ast.BitAnd, ast.Sub, ast.Add, ast.BitXor)):
                mutated.setdefault(x.target.id, x)
            elif isinstance(x, ast.Call) and isinstance(x.func, ast.Attribute) and isinstance(x.func.value, ast.Name) and x.func.attr in MUT:
                mutated.setdefault(x.func.value.id, x)
        params = set(param_names(fn, skip_self=False))
        for name, site in sorted(mutated.items()):
            vals = [a.value for a in ast.walk(fn) if isinstance(a, ast.Assign) and any(isinstance(t, ast.Name) and t.id == name for t in a.targets)]
            n += 1

            def fresh(v):
                if isinstance(v, (ast.List, ast.Set, ast.Dict, ast.ListComp, ast.SetComp, ast.DictComp)):
                    return True
                if isinstance(v, ast.Constant) and isinstance(v.value, (int, float, str, bool)) :
                    return True       # numbers / text: += re-binds
                return isinstance(v, ast.Call) and (dotted(v.func) or '').split('.')[-1] in FRESH
            bad = [v for v in vals if not fresh(v)]
            r.check(bool(vals) and not bad and name not in params, '%s: `%s` (changed in place by `%s`) is a container the function created' % (
                q.split(':')[1], name, src(site)[:40]), site, construct=q, key='alias ' + name,
                msg='%s changes `%s` in place (`%s`) although it was bound to `%s`: when that is the live partner set of a link (what '
                    'Link.navigate returns), a mere navigation re-writes the links -- a single-valued end gets two partners and the '
                    'opposite direction does not know' % (q, name, src(site)[:50], src(bad[0])[:50] if bad else 'a parameter'))
    r.check(n >= 1, '%d accumulators examined' % n, repo.func('xtuml.meta:MetaClass.navigate'), construct='xtuml.meta:MetaClass.navigate', key='accumulators',
            msg='no in-place accumulator found in the navigation functions')


def _need_has(s):
    if not s['has']:
        raise AnalysisError('abstract KeyError')
    return True


def _fmt(st):
    return '(' + ', '.join('%s=%s' % (k, int(v)) for k, v in sorted(st.items())) + ')'


# ---------------------------------------------------------------------------
def _relate_table(ctx, r, am, qual, method, exc_name):
    repo = ctx.repo
    fn = repo.func(qual)
    ps = param_names(fn)
    if len(ps) < 4:
        raise AnalysisError('%s: signature of %s changed' % (loc(fn), fn.name))
    P_FROM, P_TO, P_REL, P_PHRASE = ps[:4]
    # link-op call sites in source order
    sites = [n for n in ast.walk(fn) if link_op_call(n)]
    sites.sort(key=lambda n: (n.lineno, n.col_offset))
    if len(sites) < 1:
        raise AnalysisError('%s: %s contains no link operation' % (loc(fn), fn.name))
    if len(sites) > 6:
        raise AnalysisError('%s: too many link operations in %s' % (loc(fn), fn.name))
    index = {id(n): i for i, n in enumerate(sites)}
    names = {}

    def linkop(e, s, tr):
        node = e['__node']
        owner, field, meth, call = link_op_call(node)
        args = [src(a) for a in call.args]
        kws = {k.arg: src(k.value) for k in call.keywords}
        res = s['bits'][index[id(node)]]
        tr.append(('op', field, meth, tuple(args), kws, res, owner))
        return res

    class LinkAtom(object):
        pass

    def atom_linkop(e, s, tr):
        return None

    # atoms are built on the fly: match any link-op call node
    atoms = [
        ('None in [_A, _B]', lambda e, s, tr: any(s['none'].get(src(e[k])) for k in ('_A', '_B'))),
        ('None in (_A, _B)', lambda e, s, tr: any(s['none'].get(src(e[k])) for k in ('_A', '_B'))),
        ('_A is None', lambda e, s, tr: s['none'].get(src(e['_A']), False) if src(e['_A']) in s['none'] else None),
        ('_A is not None', lambda e, s, tr: (not s['none'][src(e['_A'])]) if src(e['_A']) in s['none'] else None),
        ('_A is not _B', lambda e, s, tr: _identity_atom(e, s, names, (P_FROM, P_TO), True)),
        ('_A is _B', lambda e, s, tr: _identity_atom(e, s, names, (P_FROM, P_TO), False)),
        ('_A != _B', lambda e, s, tr: _identity_atom(e, s, names, (P_FROM, P_TO), True)),
        ('_A == _B', lambda e, s, tr: _identity_atom(e, s, names, (P_FROM, P_TO), False)),
        ('_A', lambda e, s, tr: _name_atom(e, s, tr, linkop)),
    ]

    def find_link_assign(e, s, tr):
        call = e['_CALL']
        if not (isinstance(call, ast.Call) and dotted(call.func) == '_find_link'):
            return False
        tgt = e['_T']
        if not (isinstance(tgt, ast.Tuple) and len(tgt.elts) == 3 and all(isinstance(x, ast.Name) for x in tgt.elts)):
            raise AnalysisError('%s: result of _find_link is not unpacked into three names' % loc(call))
        names['first'], names['second'], names['ass'] = [x.id for x in tgt.elts]
        names['args'] = [src(a) for a in call.args]
        tr.append(('find',))
        return True

    def bool_assign(e, s, tr):
        v = e['_V']
        if link_op_call(v):
            s['vars'][e['_N'].id] = linkop({'__node': v}, s, tr)
            return True
        return False

    def expr_linkop(e, s, tr):
        v = e['_V']
        if link_op_call(v):
            s2 = dict(s)
            # a bare call statement: result is not examined by the code; assume it succeeds
            owner, field, meth, call = link_op_call(v)
            tr.append(('op', field, meth, tuple(src(a) for a in call.args),
                       {k.arg: src(k.value) for k in call.keywords}, True, owner))
            return True
        return False

    effects = [('_T = _CALL', find_link_assign), ('_N = _V', bool_assign), ('_V', expr_linkop)]
    ignore = []
    it = absint.Interp(fn, atoms, effects)
    # logging statements are harmless
    it.effects.append(('_V', lambda e, s, tr: True if absint.is_logging_stmt(ast.Expr(value=e['_V'])) else False))

    nbits = len(sites)
    count = 0
    # the two instances may be one and the same (an instance related to itself across a reflexive association): both directed
    # links are separate tables then too, and the same obligations hold
    for nf, nt, same in itertools.product([False, True], repeat=3):
        if same and nf != nt:
            continue
        for bits in itertools.product([False, True], repeat=nbits):
            st = {'none': {P_FROM: nf, P_TO: nt}, 'bits': bits, 'vars': {}, 'same': same}
            out, tr = it.run(st)
            ops = [_canon_op(t) for t in tr if t[0] == 'op']
            tr = [_canon_op(t) if t[0] == 'op' else t for t in tr]
            used = len(ops)
            desc = '%s(none_from=%d,none_to=%d,%sresults=%s)' % (fn.name, nf, nt, 'same_instance,' if same else '',
                                                             ''.join('T' if b else 'F' for b in bits))
            count += 1
            if nf or nt:
                ok = out.kind == 'return' and not ops and isinstance(out.value, ast.Constant) and not out.value.value
                r.check(ok, desc + ' -> no-op False', fn, construct=qual, key='none-argument',
                        msg='%s: a None argument must return False without touching any link; got %r, ops %s'
                            % (desc, out, _ops(ops)))
                continue
            if ('find',) not in tr:
                r.violation('%s: link operations are performed without resolving the association through '
                            '_find_link' % desc, fn, construct=qual, key='no-find-link')
                continue
            # feasibility under the induction hypothesis (disconnect only fails when the pair is absent,
            # which is a symmetric condition)
            if method == 'disconnect':
                res = [o[5] for o in ops if o[2] == 'disconnect']
                if len(set(res)) > 1:
                    continue
            net = {}
            bad_after_false = False
            seen_false = False
            for (_, field, meth, args, kws, res, owner) in ops:
                if seen_false and res:
                    bad_after_false = True
                if not res:
                    seen_false = True
                    continue
                key = (field, args)
                delta = 1 if meth == 'connect' else -1
                net[key] = net.get(key, 0) + delta
                if net[key] == 0:
                    del net[key]
            first, second = names['first'], names['second']
            sign = 1 if method == 'connect' else -1
            want = {('source_link', (first, second)): sign, ('target_link', (second, first)): sign}
            if out.kind == 'raise':
                cls = exception_class_name(out.node)
                ok = (not net)
                r.check(ok, desc + ' -> rejected, net effect empty', out.node, construct=qual,
                        key='rejected-after-mutation ' + _ops(ops),
                        msg='%s: the call is rejected (raise %s) after link operations %s whose net effect %s '
                            'is not undone -- a rejected %s must leave the model exactly as it was'
                            % (desc, cls, _ops(ops), _net(net), fn.name),
                        facts={'ops': _ops(ops), 'net': _net(net)})
                r.check(cls == exc_name, desc + ' raises ' + exc_name, out.node, construct=qual,
                        key='exception-class', msg='%s raises %s, documented exception is %s' % (desc, cls, exc_name))
            elif out.kind == 'return':
                val = out.value.value if isinstance(out.value, ast.Constant) else None
                if seen_false:
                    r.violation('%s: a failed link operation is ignored (ops %s) and the call returns %r'
                                % (desc, _ops(ops), out), out.node, construct=qual, key='failure-ignored ' + _ops(ops))
                    continue
                ok = (net == want) and val is True
                r.check(ok, desc + ' -> both directions updated', out.node, construct=qual,
                        key='unpaired ' + _ops(ops),
                        msg='%s: success must %s exactly %s(%s,%s) on source_link and (%s,%s) on target_link and '
                            'return True; got net %s, return %s' % (desc, method, method, first, second, second, first,
                                                                 _net(net), src(out.value) if out.value else None))
                for (_, field, meth, args, kws, res, owner) in ops:
                    if 'check' in kws and kws['check'] != 'True' or len(args) > 2:
                        r.violation('%s: %s.%s is called with the cardinality check disabled' % (desc, field, meth),
                                    fn, construct=qual, key='check-disabled')
                    if owner != names['ass']:
                        r.violation('%s: link operation on %s, not on the association returned by _find_link'
                                    % (desc, owner), fn, construct=qual, key='wrong-association')
            else:
                r.violation('%s falls off the end' % desc, fn, construct=qual, key='falloff')
    # _find_link arguments are the function's own parameters, in order
    want_args = [P_FROM, P_TO, P_REL, P_PHRASE]
    r.check(names.get('args') == want_args, '%s passes (%s) to _find_link' % (fn.name, ', '.join(want_args)), fn,
            construct=qual, key='find-link-args',
            msg='%s calls _find_link(%s); expected (%s)' % (fn.name, ', '.join(names.get('args', [])), ', '.join(want_args)))
    return count


def _identity_atom(e, s, names, params, negated):
    '''`a is b` / `a is not b` (== / !=) between the two instances of the call'''
    a, b = e['_A'], e['_B']
    insts = set(params) | {names.get('first'), names.get('second')}
    if isinstance(a, ast.Name) and isinstance(b, ast.Name) and a.id in insts and b.id in insts:
        if a.id == b.id:
            return not negated
        return (not s['same']) if negated else s['same']
    return None


def _name_atom(e, s, tr, linkop):
    node = e['_A']
    if link_op_call(node):
        return linkop({'__node': node}, s, tr)
    if isinstance(node, ast.Name) and node.id in s['vars']:
        return s['vars'][node.id]
    return None


def _ops(ops):
    return '; '.join('%s.%s(%s)->%s' % (o[1], o[2], ','.join(o[3]), 'T' if o[5] else 'F') for o in ops)


def _net(net):
    if not net:
        return '{}'
    return '{' + ', '.join('%s%s(%s)' % ('+' if v > 0 else '-', k[0], ','.join(k[1])) for k, v in sorted(net.items())) + '}'


def atomic(ctx, am):
    r = ctx.rule('C02-ATOMIC', 'relate/unrelate: every outcome combination of the link operations either updates both '
                               'directions or leaves no net mutation before raising', floor=20,
                 oracle='property statement (rejected calls leave the model exactly as it was)')
    _relate_table(ctx, r, am, 'xtuml.meta:relate', 'connect', 'RelateException')
    _relate_table(ctx, r, am, 'xtuml.meta:unrelate', 'disconnect', 'UnrelateException')


# ---------------------------------------------------------------------------
EXPECTED_ROLES = {
    # oracle: Association.formalize installs referential attributes on source_link.to_metaclass and reads them
    # through target_link; serialize_association / CREATE ROP write FROM = referring (source) end.
    'source_link': {'from': 'TGT', 'to': 'SRC', 'many': 'source_many', 'conditional': 'source_conditional',
                    'phrase': 'target_phrase'},
    'target_link': {'from': 'SRC', 'to': 'TGT', 'many': 'target_many', 'conditional': 'target_conditional',
                    'phrase': 'source_phrase'},
}


def _canon_op(t):
    '''a link operation record with the `check` argument of connect(instance, another_instance, check=True) always by keyword'''
    (tag, field, meth, args, kws, res, owner) = t
    if len(args) > 2:
        kws = dict(kws, check=args[2])
        args = tuple(args[:2])
    if kws.get('check') == 'True':
        kws = {k: v for k, v in kws.items() if k != 'check'}
    return (tag, field, meth, args, kws, res, owner)


def swap(ctx, am):
    repo = ctx.repo
    r = ctx.rule('C02-SWAP', 'direction resolution: roles of source_link/target_link and _find_link branches',
                 floor=12, oracle='platform convention frozen from formalize/serialize/mk_class (DESIGN 2,C02-SWAP)')
    for field, want in EXPECTED_ROLES.items():
        got = am.links[field]
        for k, v in want.items():
            r.check(got.get(k) == v, 'define_association: %s.%s = %s' % (field, k, v), got['node'],
                    construct='xtuml.meta:MetaModel.define_association', key='%s.%s' % (field, k),
                    msg='define_association builds %s with %s=%s, expected %s' % (field, k, got.get(k), v))
    r.check(am.key_maps.get('source_link') == ('source_keys', 'target_keys'),
            'source_link.key_map maps source_keys -> target_keys', am.fn,
            construct='xtuml.meta:MetaModel.define_association', key='source_link.key_map',
            msg='source_link.key_map is built from %s' % (am.key_maps.get('source_link'),))
    r.check(am.key_maps.get('target_link') == ('target_keys', 'source_keys'),
            'target_link.key_map maps target_keys -> source_keys', am.fn,
            construct='xtuml.meta:MetaModel.define_association', key='target_link.key_map',
            msg='target_link.key_map is built from %s' % (am.key_maps.get('target_link'),))
    r.check(am.keys.get('source_keys') == 'source_keys' and am.keys.get('target_keys') == 'target_keys',
            'Association receives source_keys/target_keys unswapped', am.assoc_call,
            construct='xtuml.meta:MetaModel.define_association', key='assoc-keys',
            msg='Association(...) receives keys %s' % am.keys)
    # the association must be appended to metamodel.associations
    r.check(pm.contains('self.associations.append(_A)', am.fn), 'define_association registers the association', am.fn,
            construct='xtuml.meta:MetaModel.define_association', key='register',
            msg='define_association no longer appends to self.associations')

    # add_link key
    add_link = repo.func('xtuml.meta:MetaClass.add_link')
    ok = False
    for node, env in pm.find('self.links[_K] = _L', add_link):
        ok = True
    r.check(ok, 'add_link stores the link in self.links', add_link, construct='xtuml.meta:MetaClass.add_link',
            key='store', msg='add_link does not store the link in self.links')

    # _find_link
    fn = repo.func('xtuml.meta:_find_link')
    ps = param_names(fn)
    I1, I2, REL, PHRASE = ps[:4]
    mc = {}
    for node, env in pm.find('_V = get_metaclass(_I)', fn):
        if isinstance(env['_I'], ast.Name):
            mc[env['_V'].id] = env['_I'].id
    if set(mc.values()) != {I1, I2}:
        raise AnalysisError('%s: _find_link does not resolve the metaclass of both instances' % loc(fn))
    lk = repo.func('xtuml.meta:Link.kind', required=False)
    link_kind_is_to = lk is not None and any(isinstance(n, ast.Return) and n.value is not None and src(n.value) == 'self.to_metaclass.kind' for n in ast.walk(lk))
    loops = [n for n in walk_local(fn) if isinstance(n, ast.For)]
    if len(loops) != 1:
        raise AnalysisError('%s: _find_link no longer has a single search loop' % loc(fn))
    loop = loops[0]
    r.check(pm.match('_M.metamodel.associations', loop.iter) is not None, '_find_link scans metamodel.associations',
            loop, construct='xtuml.meta:_find_link', key='scan', msg='_find_link iterates %s' % src(loop.iter))
    avar = loop.target.id if isinstance(loop.target, ast.Name) else None
    branches = 0
    seen_fields = set()
    for st in loop.body:
        if not isinstance(st, ast.If):
            continue
        m = pm.match('%s.rel_id != %s' % (avar, REL), st.test)
        if m is not None:
            r.check(len(st.body) == 1 and isinstance(st.body[0], ast.Continue), 'rel_id mismatch skips the association',
                    st, construct='xtuml.meta:_find_link', key='relid-skip', msg='rel_id mismatch does not `continue`')
            continue
        conj = st.test.values if isinstance(st.test, ast.BoolOp) and isinstance(st.test.op, ast.And) else [st.test]
        facts = {}
        field = None
        understood = True
        for c in conj:
            m = pm.match('%s._F._E.kind == _M.kind' % avar, c) or pm.match('_M.kind == %s._F._E.kind' % avar, c)
            if m is None and link_kind_is_to:
                # Link.kind is the property `return self.to_metaclass.kind`
                m = pm.match('%s._F.kind == _M.kind' % avar, c) or pm.match('_M.kind == %s._F.kind' % avar, c)
                if m is not None:
                    m = dict(m, _E='to_metaclass')
            if m is not None and isinstance(m['_M'], ast.Name) and m['_M'].id in mc:
                field = field or m['_F']
                if m['_F'] != field:
                    understood = False
                facts[m['_E']] = mc[m['_M'].id]
                continue
            m = pm.match('%s._F.phrase == %s' % (avar, PHRASE), c) or pm.match('%s == %s._F.phrase' % (PHRASE, avar), c)
            if m is not None:
                field = field or m['_F']
                if m['_F'] != field:
                    understood = False
                facts['phrase'] = True
                continue
            understood = False
        if not understood or field not in ('source_link', 'target_link'):
            if field is not None:
                r.violation('branch of _find_link mixes tests of different links: `%s`' % src(st.test), st,
                            construct='xtuml.meta:_find_link', key='mixed-branch')
            continue
        branches += 1
        seen_fields.add(field)
        complete = set(facts) == {'from_metaclass', 'to_metaclass', 'phrase'}
        r.check(complete, '_find_link branch on %s tests from-kind, to-kind and phrase' % field, st,
                construct='xtuml.meta:_find_link', key='branch-tests-' + field,
                msg='_find_link branch on %s tests only %s' % (field, sorted(facts)))
        if not complete:
            continue
        ret = st.body[-1] if st.body and isinstance(st.body[-1], ast.Return) else None
        if ret is None or not isinstance(ret.value, ast.Tuple) or len(ret.value.elts) != 3:
            raise AnalysisError('%s: _find_link branch does not return a 3-tuple' % loc(st))
        x, y, a = [src(e) for e in ret.value.elts]
        # kind(from-tested instance) = field.from ; first returned element must have kind source_link.from
        kind_of = {facts['from_metaclass']: am.links[field]['from'], facts['to_metaclass']: am.links[field]['to']}
        ok = kind_of.get(x) == am.links['source_link']['from'] and kind_of.get(y) == am.links['source_link']['to'] \
            and a == avar and x != y
        r.check(ok, '_find_link branch on %s returns (%s, %s) = (instance of source_link.from, instance of source_link.to)'
                % (field, x, y), ret, construct='xtuml.meta:_find_link', key='branch-return-' + field,
                msg='_find_link branch testing %s (from=%s,to=%s) returns (%s, %s, %s): the first element must be the '
                    'instance whose kind is source_link.from_metaclass' % (field, facts['from_metaclass'],
                                                                        facts['to_metaclass'], x, y, a))
    r.check(seen_fields == {'source_link', 'target_link'}, '_find_link examines both directed links', fn,
            construct='xtuml.meta:_find_link', key='both-links',
            msg='_find_link examines only %s' % sorted(seen_fields))
    # fall through raises UnknownLinkException
    last = fn.body[-1]
    r.check(isinstance(last, ast.Raise) and exception_class_name(last) == 'UnknownLinkException',
            '_find_link raises UnknownLinkException when nothing matches', last, construct='xtuml.meta:_find_link',
            key='fallthrough', msg='_find_link does not end with `raise UnknownLinkException`')
    # integer rel ids are normalised before comparison
    ok = False
    for node, env in pm.find("if isinstance(%s, int):\n    %s = 'R%%d' %% %s" % (REL, REL, REL), fn):
        ok = node.lineno < loop.lineno
    r.check(ok, '_find_link normalises integer association numbers before the search', fn,
            construct='xtuml.meta:_find_link', key='relid-normalise',
            msg="_find_link no longer converts an int rel_id to 'R<n>' before comparing")


# ---------------------------------------------------------------------------
def pair_and_kinds(ctx, am):
    repo = ctx.repo
    r = ctx.rule('C02-PAIR', 'every caller of Link.connect/disconnect (other than relate/unrelate) mirrors the call on '
                             'the opposite link in the same block', floor=2,
                 oracle='sibling agreement source_link <-> target_link')
    rk = ctx.rule('C02-KINDFLOW', 'instances passed to a link operation have the kinds of that link\'s ends', floor=4,
                  oracle='roles derived from define_association')
    handled = {'xtuml.meta:relate', 'xtuml.meta:unrelate'}
    callers = {}
    for mod in repo.modules.values():
        for node in ast.walk(mod.tree):
            if link_op_call(node):
                q = qualname(node)
                callers.setdefault(q, []).append(node)
            elif isinstance(node, ast.Call) and isinstance(node.func, ast.Attribute) \
                    and node.func.attr in ('connect', 'disconnect') and not link_op_call(node):
                # a connect/disconnect on something that is not X.source_link / X.target_link
                recv = node.func.value
                r.info('call %s on a receiver that is not <assoc>.source_link/target_link' % src(node), node)
    for q in sorted(callers):
        if q in handled:
            continue
        calls = callers[q]
        by_block = {}
        for c in calls:
            st = c
            while not isinstance(st, ast.stmt):
                st = st._parent
            parent = st._parent
            by_block.setdefault(id(parent), []).append((st, c))
        for _, items in by_block.items():
            src_calls = []
            tgt_calls = []
            for st, c in items:
                owner, field, meth, call = link_op_call(c)
                kws = tuple(sorted((k.arg, src(k.value)) for k in call.keywords))
                args = tuple(src(a) for a in call.args)
                (src_calls if field == 'source_link' else tgt_calls).append((owner, meth, args, kws, c))
            mirrored = sorted((o, m, tuple(reversed(a[:2])) + a[2:], k) for o, m, a, k, _ in tgt_calls)
            plain = sorted((o, m, a, k) for o, m, a, k, _ in src_calls)
            node = items[0][1]
            r.check(plain == mirrored and plain, '%s: %s mirrored on both links' % (q, '; '.join(src(c) for _, c in items)),
                    node, construct=q, key='unpaired ' + ' / '.join(sorted(src(c) for _, c in items)),
                    msg='%s: link operations in one block are not mirrored on the opposite link: source_link %s vs '
                        'target_link %s' % (q, [src(c[4]) for c in src_calls], [src(c[4]) for c in tgt_calls]))
        # kind flow
        fn = node
        while not isinstance(fn, ast.FunctionDef):
            fn = fn._parent
        kinds = _local_kinds(fn, am)
        for c in calls:
            owner, field, meth, call = link_op_call(c)
            if len(call.args) < 2:
                continue
            a, b = call.args[0], call.args[1]
            ka = kinds.get(src(a))
            kb = kinds.get(src(b))
            if ka is None or kb is None:
                rk.info('%s: kind of %s/%s not inferred (%s, %s)' % (q, src(a), src(b), ka, kb), c)
                continue
            want = (am.links[field]['from'], am.links[field]['to'])
            rk.check((ka, kb) == want, '%s: %s(%s:%s, %s:%s)' % (q, field + '.' + meth, src(a), ka, src(b), kb), c,
                     construct=q, key='kinds ' + src(c),
                     msg='%s: %s keys by an instance of its from-class (%s) and stores an instance of its to-class (%s); '
                         'got (%s:%s, %s:%s)' % (q, field, want[0], want[1], src(a), ka, src(b), kb))
    # relate/unrelate: by C02-SWAP the tuple returned by _find_link is (inst of source_link.from, inst of source_link.to)
    for qual in ('xtuml.meta:relate', 'xtuml.meta:unrelate'):
        fn = repo.func(qual)
        names = None
        for node, env in pm.find('_T = _find_link(_A, _B, _C, _D)', fn):
            t = env['_T']
            if isinstance(t, ast.Tuple) and len(t.elts) == 3:
                names = [src(x) for x in t.elts]
        if not names:
            raise AnalysisError('%s: cannot find the _find_link unpacking in %s' % (loc(fn), qual))
        kinds = {names[0]: am.links['source_link']['from'], names[1]: am.links['source_link']['to']}
        for c in [n for n in ast.walk(fn) if link_op_call(n)]:
            owner, field, meth, call = link_op_call(c)
            a, b = src(call.args[0]), src(call.args[1])
            want = (am.links[field]['from'], am.links[field]['to'])
            rk.check((kinds.get(a), kinds.get(b)) == want, '%s: %s.%s(%s, %s)' % (qual, field, meth, a, b), c,
                     construct=qual, key='kinds ' + src(c),
                     msg='%s: %s.%s(%s, %s): first argument must be the instance of %s' % (qual, field, meth, a, b, want[0]))


def _local_kinds(fn, am):
    '''flow-insensitive kinds (SRC/TGT) of local variables in a function that works on one association'''
    cls_role = {}
    kinds = {}
    elem = {}
    changed = True
    guard = 0
    while changed and guard < 10:
        changed = False
        guard += 1
        for node in ast.walk(fn):
            if isinstance(node, ast.Assign) and len(node.targets) == 1 and isinstance(node.targets[0], ast.Name):
                m = pm.match('_X._F._E', node.value)
                if m and m['_F'] in ('source_link', 'target_link') and m['_E'] in ('to_metaclass', 'from_metaclass'):
                    role = am.links[m['_F']]['to' if m['_E'] == 'to_metaclass' else 'from']
                    if cls_role.get(node.targets[0].id) != role:
                        cls_role[node.targets[0].id] = role
                        changed = True
            if isinstance(node, ast.For) and isinstance(node.target, ast.Name):
                it = node.iter
                k = None
                m = pm.match('_C.storage', it) or pm.match('_C.query(__)', it) or pm.match('_C.select_many()', it)
                if m and isinstance(m['_C'], ast.Name) and m['_C'].id in cls_role:
                    k = cls_role[m['_C'].id]
                else:
                    root = it
                    while isinstance(root, ast.Subscript):
                        root = root.value
                    if isinstance(root, ast.Name) and root.id in elem and isinstance(it, ast.Subscript):
                        k = elem[root.id]
                if k and kinds.get(node.target.id) != k:
                    kinds[node.target.id] = k
                    changed = True
            if isinstance(node, ast.Call) and isinstance(node.func, ast.Attribute) and node.func.attr == 'add' \
                    and len(node.args) == 1 and isinstance(node.args[0], ast.Name):
                root = node.func.value
                while isinstance(root, ast.Subscript):
                    root = root.value
                if isinstance(root, ast.Name) and node.args[0].id in kinds:
                    k = kinds[node.args[0].id]
                    if elem.get(root.id, k) != k:
                        elem[root.id] = 'MIXED'
                    elif elem.get(root.id) != k:
                        elem[root.id] = k
                        changed = True
    return kinds


# ---------------------------------------------------------------------------
def delete_rule(ctx):
    repo = ctx.repo
    r = ctx.rule('C02-DELETE', 'MetaClass.delete: membership test before any mutation; every link partner is unrelated',
                 floor=6, oracle='property statement (repeated delete rejected unchanged; only live instances reachable)')
    fn = repo.func('xtuml.meta:MetaClass.delete')
    ps = param_names(fn)
    INST, DISC = ps[0], ps[1]
    loops = []
    atoms = [
        ('%s in self.storage' % INST, lambda e, s, tr: s['member']),
        ('%s not in self.storage' % INST, lambda e, s, tr: not s['member']),
        (DISC, lambda e, s, tr: s['disconnect']),
    ]

    def rm(e, s, tr):
        if not s['member']:
            raise AnalysisError('abstract ValueError')
        s['member'] = False
        tr.append('remove')

    def loop(e, s, tr):
        st = e['__stmt']
        tr.append('loop')
        loops.append(st)

    class ForPat(object):
        pass

    effects = [('self.storage.remove(%s)' % INST, rm)]
    it = absint.Interp(fn, atoms, effects)
    # For statements are recorded as an effect
    orig_stmt = it.stmt

    def stmt(st, state, trace):
        if isinstance(st, ast.For):
            trace.append('loop')
            if st not in loops:
                loops.append(st)
            return
        return orig_stmt(st, state, trace)
    it.stmt = stmt
    it.skip = lambda st: isinstance(st, (ast.Assign, ast.Expr))
    for member, disc in itertools.product([False, True], repeat=2):
        st = {'member': member, 'disconnect': disc}
        desc = 'delete(member=%d, disconnect=%d)' % (member, disc)
        try:
            out, tr = it.run(st)
        except AnalysisError as e:
            if 'abstract ValueError' in str(e):
                r.violation('%s: storage.remove is reached for an instance that is not in the pool' % desc, fn,
                            construct='xtuml.meta:MetaClass.delete', key=desc)
                continue
            raise
        if not member:
            ok = out.kind == 'raise' and exception_class_name(out.node) == 'DeleteException' and not tr
            msg = '%s must raise DeleteException before any mutation; got %r after %s' % (desc, out, tr)
        elif not disc:
            ok = out.kind in ('return', 'falloff') and tr == ['remove']
            msg = '%s must only remove the instance from the pool; got %r after %s' % (desc, out, tr)
        else:
            ok = out.kind in ('return', 'falloff') and 'remove' in tr and 'loop' in tr
            msg = '%s must remove the instance and disconnect its links; got %r after %s' % (desc, out, tr)
        r.check(ok, desc, fn, construct='xtuml.meta:MetaClass.delete', key=desc, msg=msg)
    if len(loops) != 1:
        r.violation('MetaClass.delete has %d link loops on the disconnect path' % len(loops), fn,
                    construct='xtuml.meta:MetaClass.delete', key='loops')
    else:
        lp = loops[0]
        m = pm.match('self.links.values()', lp.iter)
        r.check(m is not None, 'disconnect loop ranges over all links of the class', lp,
                construct='xtuml.meta:MetaClass.delete', key='loop-range',
                msg='disconnect loop ranges over `%s`, not over self.links.values()' % src(lp.iter))
        lv = lp.target.id if isinstance(lp.target, ast.Name) else None
        # the only skip condition
        skips = [s for s in lp.body if isinstance(s, ast.If)]
        extra = [s for s in lp.body if not isinstance(s, (ast.If, ast.For))]
        for s in extra:
            r.violation('the disconnect loop carries extra state (`%s`): whether a link is taken apart must depend on that link alone'
                        % src(s)[:60], s, construct='xtuml.meta:MetaClass.delete', key='loop-state ' + src(s)[:40])
        for s in skips:
            if pm.match('%s not in %s' % (INST, lv), s.test) is not None and len(s.body) == 1 \
                    and isinstance(s.body[0], ast.Continue):
                r.ok('skip only links on which the instance has no partner', s)
            else:
                r.violation('disconnect loop has a skip condition other than `%s not in %s`: `%s`'
                            % (INST, lv, src(s.test)), s, construct='xtuml.meta:MetaClass.delete', key='extra-skip')
        inner = [s for s in lp.body if isinstance(s, ast.For)]
        okk = False
        for inn in inner:
            ov = inn.target.id if isinstance(inn.target, ast.Name) else None
            it_ok = pm.match('%s[%s]' % (lv, INST), inn.iter) is not None or \
                pm.match('%s.navigate(%s)' % (lv, INST), inn.iter) is not None or \
                pm.match('list(%s[%s])' % (lv, INST), inn.iter) is not None
            calls = [c for c in ast.walk(inn) if isinstance(c, ast.Call) and dotted(c.func) == 'unrelate']
            if it_ok and len(calls) == 1 and len(inn.body) == 1:
                args = [src(a) for a in calls[0].args]
                want = [INST, ov, '%s.rel_id' % lv, '%s.phrase' % lv]
                r.check(args == want, 'unrelate(%s) for every partner' % ', '.join(want), calls[0],
                        construct='xtuml.meta:MetaClass.delete', key='unrelate-args',
                        msg='delete calls unrelate(%s); expected unrelate(%s): the link in self.links leads from '
                            'the deleted instance to the partner with its own phrase' % (', '.join(args), ', '.join(want)))
                okk = True
        r.check(okk, 'every partner of every link is unrelated', lp, construct='xtuml.meta:MetaClass.delete',
                key='inner-loop', msg='disconnect loop does not unrelate every partner in %s[%s]' % (lv, INST))
    # module level delete()
    fn = repo.func('xtuml.meta:delete')
    ps = param_names(fn)
    ok = False
    for node, env in pm.find('return get_metaclass(%s).delete(%s, %s)' % (ps[0], ps[0], ps[1]), fn):
        ok = True
    for node, env in pm.find('get_metaclass(%s).delete(%s, %s)' % (ps[0], ps[0], ps[1]), fn):
        ok = True
    r.check(ok, 'delete() forwards instance and disconnect flag to its metaclass', fn, construct='xtuml.meta:delete',
            key='forward', msg='delete() no longer forwards (instance, disconnect) to MetaClass.delete')
    raises = [n for n in ast.walk(fn) if isinstance(n, ast.Raise)]
    r.check(all(exception_class_name(x) == 'DeleteException' for x in raises) and raises,
            'delete() rejects non-instances with DeleteException', fn, construct='xtuml.meta:delete', key='raise',
            msg='delete() does not raise DeleteException for a non-instance')


# ---------------------------------------------------------------------------
def ref_rule(ctx, am):
    repo = ctx.repo
    r = ctx.rule('C02-REF', 'referential attributes are read through the link and cannot be assigned', floor=6,
                 oracle='property statement (referential attribute reads as the identifying attribute of the linked instance)')
    fn = repo.func('xtuml.meta:Association.formalize')
    cls_role = {}
    for node, env in pm.find('_V = self._F.to_metaclass', fn):
        cls_role[env['_V'].id] = (env['_F'], am.links[env['_F']]['to'])
    src_cls = [v for v, (f, role) in cls_role.items() if role == 'SRC']
    tgt_cls = [v for v, (f, role) in cls_role.items() if role == 'TGT']
    if not src_cls or not tgt_cls:
        raise AnalysisError('%s: formalize does not name the referring and referred metaclass' % loc(fn))
    sc, tc = src_cls[0], tgt_cls[0]
    def adds_all(target, elems):
        '''target gets every element of elems added: |= set(e), .update(set(e)), .update(e), = target | set(e)'''
        return any(pm.contains(p_ % (target, elems), fn) for p_ in ('%s |= set(%s)', '%s.update(set(%s))', '%s.update(%s)')) or \
            pm.contains('%s = %s | set(%s)' % (target, target, elems), fn)
    r.check(adds_all('%s.referential_attributes' % sc, 'self.source_keys'),
            'referring class records source_keys as referential attributes', fn,
            construct='xtuml.meta:Association.formalize', key='referential_attributes',
            msg='formalize does not add source_keys to the referring class\' referential_attributes')
    r.check(adds_all('%s.identifying_attributes' % tc, 'self.target_keys'),
            'referred class records target_keys as identifying attributes', fn,
            construct='xtuml.meta:Association.formalize', key='identifying_attributes',
            msg='formalize does not add target_keys to the referred class\' identifying_attributes')
    inner = {n.name: n for n in fn.body if isinstance(n, ast.FunctionDef)}
    if 'fget' not in inner or 'fset' not in inner:
        raise AnalysisError('%s: formalize no longer defines fget/fset' % loc(fn))
    fget, fset = inner['fget'], inner['fset']
    gp = param_names(fget, skip_self=False)
    nav = [n for n in ast.walk(fget) if isinstance(n, ast.Call) and call_attr(n) in ('navigate_one', 'navigate')]
    ok = False
    for n in nav:
        m = pm.match('self._F._M(%s)' % gp[0], n)
        if m and am.links[m['_F']]['from'] == 'SRC':
            ok = True
    r.check(ok, 'getter navigates the link that leads from the referring instance', fget,
            construct='xtuml.meta:Association.formalize.fget', key='getter-link',
            msg='getter of a referential attribute does not navigate target_link (referring -> referred)')
    ok = any(pm.match('getattr(_O, ref_name, None)', n.value) is not None or pm.match('getattr(_O, ref_name)', n.value) is not None
             for n in ast.walk(fget) if isinstance(n, ast.Return) and n.value is not None)
    r.check(ok, 'getter returns the identifying attribute `ref_name` of the linked instance', fget,
            construct='xtuml.meta:Association.formalize.fget', key='getter-attr',
            msg='getter does not return getattr(<linked instance>, ref_name)')
    # setter raises on all paths
    from .. import cfg as cfgmod
    g = cfgmod.build(fset)
    paths = g.paths()
    ok = all(p[-1][0].kind == 'raise' for p in paths) and paths
    r.check(ok, 'setter raises on every path (%d paths)' % len(paths), fset,
            construct='xtuml.meta:Association.formalize.fset', key='setter-raises',
            msg='setter of a referential attribute can return normally: direct assignment would detach the value from the link')
    # installation loop: zip(source_keys, target_keys) ; ref_name=primary_key ; setattr on referring class
    ok_loop = False
    for lp in [n for n in fn.body if isinstance(n, ast.For)]:
        m = pm.match('zip(self.source_keys, self.target_keys)', lp.iter)
        if m is None or not isinstance(lp.target, ast.Tuple) or len(lp.target.elts) != 2:
            continue
        rk, pk = [e.id for e in lp.target.elts]
        got_partial = False
        for n, env in pm.find('partial(fget, ref_name=_P, alt_prop=__)', lp):
            got_partial = isinstance(env['_P'], ast.Name) and env['_P'].id == pk
        inst = pm.contains('setattr(%s.clazz, %s, _PROP)' % (sc, rk), lp)
        r.check(got_partial, 'property getter is bound to the primary key paired with the referential key', lp,
                construct='xtuml.meta:Association.formalize', key='partial-ref-name',
                msg='getter is not bound with ref_name=<primary key of the pair>')
        r.check(inst, 'property installed on the referring class under the referential key', lp,
                construct='xtuml.meta:Association.formalize', key='install',
                msg='property is not installed as setattr(%s.clazz, %s, prop)' % (sc, rk))
        ok_loop = True
    if not ok_loop:
        r.violation('formalize has no loop over zip(self.source_keys, self.target_keys)', fn,
                    construct='xtuml.meta:Association.formalize', key='zip-loop')
    # loader strips stored referential values
    pc = repo.func('xtuml.load:ModelLoader.populate_connections')
    ok = False
    for lp in [n for n in walk_local(pc) if isinstance(n, ast.For)]:
        if pm.match('metamodel.instances', lp.iter) is None:
            continue
        iv = lp.target.id
        for inner_lp in [n for n in ast.walk(lp) if isinstance(n, ast.For) and n is not lp]:
            if pm.match('_M.referential_attributes', inner_lp.iter) is not None:
                av = inner_lp.target.id
                if pm.contains('delattr(%s, %s)' % (iv, av), inner_lp) or pm.contains('del %s.__dict__[%s]' % (iv, av), inner_lp):
                    ok = True
                # EVERY stored copy goes: the only condition on the removal is that a copy is stored at all
                allowed = {'%s in %s.__dict__' % (av, iv), 'hasattr(%s, %s)' % (iv, av), '%s in vars(%s)' % (av, iv)}
                negs = {'%s not in %s.__dict__' % (av, iv), 'not hasattr(%s, %s)' % (iv, av)}
                parents_ = {}
                for x_ in ast.walk(inner_lp):
                    for ch_ in ast.iter_child_nodes(x_):
                        parents_[id(ch_)] = x_
                for d_ in [n for n in ast.walk(inner_lp) if (isinstance(n, ast.Call) and dotted(n.func) == 'delattr') or
                           (isinstance(n, ast.Delete) and '__dict__' in src(n))]:
                    cur_, extra = d_, []
                    while parents_.get(id(cur_)) is not None and cur_ is not inner_lp:
                        par_ = parents_[id(cur_)]
                        if isinstance(par_, ast.If) and cur_ in par_.body:
                            tests_ = par_.test.values if isinstance(par_.test, ast.BoolOp) and isinstance(par_.test.op, ast.And) else [par_.test]
                            extra += [src(t_) for t_ in tests_ if src(t_) not in allowed]
                        if isinstance(par_, ast.If) and cur_ in par_.orelse:
                            extra += [src(par_.test)] if src(par_.test) not in negs else []
                        for fld_ in ('body', 'orelse'):
                            blk_ = getattr(par_, fld_, None)
                            if isinstance(blk_, list) and cur_ in blk_:
                                for prev_ in blk_[:blk_.index(cur_)]:
                                    if isinstance(prev_, ast.If) and prev_.body and isinstance(prev_.body[-1], (ast.Continue, ast.Break, ast.Return)):
                                        alts_ = prev_.test.values if isinstance(prev_.test, ast.BoolOp) and isinstance(prev_.test.op, ast.Or) else [prev_.test]
                                        extra += [src(t_) for t_ in alts_ if src(t_) not in negs]
                        cur_ = par_
                    r.check(not extra, 'the stored copy of a referential attribute is removed whenever there is one', d_,
                            construct='xtuml.load:ModelLoader.populate_connections', key='strip-condition',
                            msg='populate_connections removes the stored copy of a referential attribute only under %s: copies that stay behind '
                                'are read under every spelling but the declared one (and by where-filters) instead of the value derived from the '
                                'link' % extra)
    r.check(ok, 'loader deletes every stored referential value after connecting', pc,
            construct='xtuml.load:ModelLoader.populate_connections', key='strip-referentials',
            msg='populate_connections no longer removes stored referential values, so reads would not go through the link')
