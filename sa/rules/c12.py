'''
C12 - Loading fails only in documented ways and never half-applies input.

  C12-ATOMIC   ModelLoader.input mutates loader state only after the parse call returned;
               parser/lexer actions never store on the loader; who-may-write `statements`
  C12-RAISES   every explicit raise reachable from input()/build_metamodel() (call graph incl. ply actions)
               raises ParsingException or a MetaException subclass
  C12-CONVERT  partial converters int()/float()/uuid.UUID() applied to statement text are guarded
  C12-TIME     (thorough) no token regex of the SQL lexer / guess_type_name is exponentially ambiguous
'''
import ast

from ..src import AnalysisError, loc, src, dotted, call_attr, param_names, walk_local, qualname
from .. import pm, absint, cfg as cfgmod
from ..callgraph import CallGraph
from .common import exception_class_name

MUTATORS = ('append', 'extend', 'insert', 'remove', 'pop', 'clear', 'sort', 'reverse', 'update', 'add', 'discard',
            'setdefault', '__setitem__', '__delitem__')
PARTIAL_CONVERTERS = {'int': 'ValueError', 'float': 'ValueError', 'uuid.UUID': 'ValueError', 'UUID': 'ValueError'}


def run(ctx):
    ctx.guard(atomic, ctx)
    ctx.guard(raises, ctx)
    ctx.guard(convert, ctx)
    ctx.guard(guess, ctx)
    if True:
        from . import lexrules
        lexrules.time_rule(ctx, 'C12-TIME', 'xtuml.load:ModelLoader', extra_regex_fn='xtuml.load:guess_type_name')
    ctx.assume('implicit built-in errors that depend on model values (e.g. a ROP naming an attribute its class lacks) '
               'are not decided')
    ctx.assume('ply raises only through the t_error / p_error hooks of the module it is given')
    return ('Dominator analysis of ModelLoader.input (no store before the parse call returns), effect scan of all '
            'p_*/t_* actions, who-may-write scan for `.statements`, call-graph closure from input/build_metamodel '
            'and the ply actions with classification of every reachable raise against the exception class '
            'hierarchy, guard analysis (enclosing try / dominating lexical-class test) of every partial converter '
            'fed with statement text' + '; exact ambiguity analysis of the token regexes')


def _self_stores(fn, attr=None):
    '''stores on self.<attr> inside fn: assignments, augmented assignments, deletes, mutator calls'''
    out = []
    for n in ast.walk(fn):
        targets = []
        if isinstance(n, ast.Assign):
            targets = n.targets
        elif isinstance(n, (ast.AugAssign, ast.AnnAssign)):
            targets = [n.target]
        elif isinstance(n, ast.Delete):
            targets = n.targets
        for t in targets:
            base = t
            while isinstance(base, (ast.Subscript, ast.Attribute)) and not (
                    isinstance(base, ast.Attribute) and isinstance(base.value, ast.Name) and base.value.id == 'self'):
                base = base.value
            if isinstance(base, ast.Attribute) and isinstance(base.value, ast.Name) and base.value.id == 'self':
                if attr is None or base.attr == attr:
                    out.append((n, base.attr))
        if isinstance(n, ast.Call) and isinstance(n.func, ast.Attribute) and n.func.attr in MUTATORS:
            recv = n.func.value
            base = recv
            while isinstance(base, (ast.Subscript, ast.Attribute)) and not (
                    isinstance(base, ast.Attribute) and isinstance(base.value, ast.Name) and base.value.id == 'self'):
                base = base.value
            if isinstance(base, ast.Attribute) and isinstance(base.value, ast.Name) and base.value.id == 'self':
                if attr is None or base.attr == attr:
                    out.append((n, base.attr))
    return out


def atomic(ctx):
    repo = ctx.repo
    r = ctx.rule('C12-ATOMIC', 'a rejected input leaves the loader untouched: stores only after the parse call returned',
                 floor=40, oracle='property statement')
    fn = repo.func('xtuml.load:ModelLoader.input')
    Q = 'xtuml.load:ModelLoader.input'
    g = cfgmod.build(fn)
    parse_nodes = [n for n in g.stmt_nodes() if n.kind == 'stmt' and any(
        isinstance(c, ast.Call) and call_attr(c) == 'parse' for c in ast.walk(n.ast))]
    if len(parse_nodes) != 1:
        raise AnalysisError('%s: input() has %d parse calls' % (loc(fn), len(parse_nodes)))
    pn = parse_nodes[0]
    dom = g.dominators(follow_exc=False)
    stores = _self_stores(fn)
    if not stores:
        r.violation('input() never stores the parsed statements', fn, construct=Q, key='no-store')
    for node, attr in stores:
        cn = g.node_of(node)
        if cn is None:
            raise AnalysisError('%s: store not located in the CFG' % loc(node))
        same_stmt = cn.id == pn.id
        after = pn.id in dom.get(cn.id, set()) and cn.id != pn.id
        # inside the same statement the parse call must be an argument (evaluated before the mutator runs)
        if same_stmt:
            inner = isinstance(node, ast.Call) and any(isinstance(c, ast.Call) and call_attr(c) == 'parse'
                                                       for a in node.args for c in ast.walk(a))
            after = inner
        r.check(after, 'store `%s` is dominated by the successful return of the parse call' % src(node).split('\n')[0], node,
                construct=Q, key='early-store ' + src(node),
                msg='input() mutates self.%s (`%s`) on a path that has not yet returned from parser.parse(): a rejected '
                    'text would leave the loader changed' % (attr, src(node).split('\n')[0]))
    # the value stored is the parse result
    ok = False
    for node, env in pm.find('_S = self.parser.parse(__, __, __)', fn):
        pass
    pv = None
    for n in ast.walk(fn):
        if isinstance(n, ast.Assign) and isinstance(n.value, ast.Call) and call_attr(n.value) == 'parse' \
                and isinstance(n.targets[0], ast.Name):
            pv = n.targets[0].id
    ext = [n for n, a in stores if a == 'statements']
    if pv:
        ok = any(pm.match('self.statements.extend(%s)' % pv, n) is not None or
                 pm.match('self.statements += %s' % pv, n) is not None for n in ext)
    else:
        ok = any(isinstance(n, ast.Call) and n.args and isinstance(n.args[0], ast.Call) and call_attr(n.args[0]) == 'parse'
                 for n in ext)
    r.check(ok, 'the parsed statement list is appended to self.statements', fn, construct=Q, key='extend',
            msg='input() does not extend self.statements with the result of the parse call')
    # a fresh lexer per call
    r.check(any(isinstance(n, ast.Assign) and isinstance(n.value, ast.Call) and dotted(n.value.func) == 'lex.lex'
                and isinstance(n.targets[0], ast.Name) for n in ast.walk(fn)),
            'a new lexer object is created for every input() call (no lexer state survives a rejected call)', fn,
            construct=Q, key='fresh-lexer', msg='input() no longer creates a local lexer per call')
    # parser / lexer actions
    cls = repo.cls('xtuml.load:ModelLoader')
    n_actions = 0
    for name, m in sorted(repo.methods(cls).items()):
        if not (name.startswith('p_') or name.startswith('t_')):
            continue
        n_actions += 1
        st = _self_stores(m)
        r.check(not st, 'action %s does not store on the loader' % name, m, construct='xtuml.load:ModelLoader.' + name,
                key='action-store', msg='parser/lexer action %s stores on the loader (%s) before the parse is known to succeed'
                % (name, [src(x[0]) for x in st][:2]))
    if n_actions < 30:
        raise AnalysisError('only %d p_/t_ actions found in ModelLoader' % n_actions)
    # who may write .statements
    allowed = {'xtuml.load:ModelLoader.__init__', 'xtuml.load:ModelLoader.input'}
    for modname, mod in sorted(repo.modules.items()):
        for n in ast.walk(mod.tree):
            hit = False
            if isinstance(n, (ast.Assign, ast.AugAssign)):
                for t in (n.targets if isinstance(n, ast.Assign) else [n.target]):
                    b = t
                    while isinstance(b, ast.Subscript):
                        b = b.value
                    if isinstance(b, ast.Attribute) and b.attr == 'statements':
                        hit = True
            if isinstance(n, ast.Call) and isinstance(n.func, ast.Attribute) and n.func.attr in MUTATORS \
                    and isinstance(n.func.value, ast.Attribute) and n.func.value.attr == 'statements':
                hit = True
            if hit:
                q = qualname(n)
                r.check(q in allowed, '%s writes .statements (allowed writer)' % q, n, construct=q, key='writer ' + src(n),
                        msg='%s writes the loader\'s statement list; only __init__ and input may' % q)


def raises(ctx):
    repo = ctx.repo
    r = ctx.rule('C12-RAISES', 'every explicit raise reachable from input()/build_metamodel() is ParsingException or a '
                               'MetaException subclass', floor=10, oracle='property statement')
    cg = CallGraph(repo)
    cls = repo.cls('xtuml.load:ModelLoader')
    roots = ['xtuml.load:ModelLoader.input', 'xtuml.load:ModelLoader.build_metamodel',
             'xtuml.load:ModelLoader.filename_input', 'xtuml.load:ModelLoader.file_input']
    for name in repo.methods(cls):
        if name.startswith('p_') or name.startswith('t_'):
            roots.append('xtuml.load:ModelLoader.' + name)
    reach = cg.reachable(roots)
    ctx.extra['reachable_functions'] = len(reach)
    # exception hierarchy of xtuml.meta / xtuml.load
    def family(name):
        for modname in ('xtuml.meta', 'xtuml.load'):
            c = repo.class_by_name(modname, name)
            seen = 0
            while c is not None and seen < 10:
                seen += 1
                if c.name in ('MetaException', 'ParsingException'):
                    return c.name
                bases = [dotted(b) for b in c.bases]
                nxt = None
                for b in bases:
                    if b:
                        nxt = repo.class_by_name(modname, b.split('.')[-1]) or nxt
                c = nxt
        return None
    n = 0
    for q in sorted(reach):
        fn = cg.funcs[q]
        if not q.startswith('xtuml.'):
            continue
        for node in walk_local(fn):
            if not isinstance(node, ast.Raise):
                continue
            n += 1
            if node.exc is None:
                r.ok('%s re-raises' % q, node)
                continue
            name = exception_class_name(node)
            fam = family(name) if name else None
            r.check(fam is not None, '%s raises %s (%s family)' % (q, name, fam), node, construct=q, key='raise ' + str(name),
                    msg='%s raises %s, which is neither ParsingException nor a MetaException subclass; reachable via %s'
                        % (q, name, ' -> '.join(cg.path(roots[0], q) or cg.path(roots[1], q) or [q])))
    # constructs that raise a built-in error by themselves when the statement data has an unexpected shape
    def implicit(node):
        if isinstance(node, ast.Assert):
            return 'an assert (AssertionError)'
        if isinstance(node, ast.Call):
            d = dotted(node.func)
            if d == 'zip' and any(k.arg == 'strict' and not (isinstance(k.value, ast.Constant) and not k.value.value) for k in node.keywords):
                return 'zip(..., strict=True) (ValueError when the sequences differ in length)'
            if d == 'delattr' and len(node.args) == 2:
                return 'delattr() of an attribute that may be absent (AttributeError)'
            if d in ('int', 'float') and len(node.args) == 1 and in_action[0] and not isinstance(node.args[0], ast.Constant):
                return '%s() of token text in a grammar / lexer action (ValueError: e.g. more digits than the interpreter converts)' % d
        if isinstance(node, ast.Subscript) and isinstance(node.ctx, ast.Load) and isinstance(node.slice, ast.Constant) and isinstance(node.slice.value, int) and \
                isinstance(node.value, ast.Call) and isinstance(node.value.func, ast.Attribute) and node.value.func.attr in ('split', 'rsplit', 'splitlines') and \
                (not node.value.args or (isinstance(node.value.args[0], ast.Constant) and node.value.args[0].value is None)):
            return 'an element of str.split() without separator (IndexError: the list is empty for blank text)'
        if isinstance(node, ast.Subscript) and isinstance(node.ctx, ast.Load) and isinstance(node.value, ast.Attribute) and node.value.attr == '__dict__':
            return 'an_entry of <instance>.__dict__ (KeyError when the attribute is not stored under exactly that spelling)'
        return None

    def obj_attr(node):
        '''(object, attribute name) texts of a construct that needs the attribute to be stored on the object'''
        if isinstance(node, ast.Call) and dotted(node.func) == 'delattr' and len(node.args) == 2:
            return src(node.args[0]), src(node.args[1])
        if isinstance(node, ast.Subscript) and isinstance(node.value, ast.Attribute) and node.value.attr == '__dict__':
            return src(node.value.value), src(node.slice)
        return None
    # a look-up table built inside the function and subscripted with a key that comes from the statements: KeyError for a key it lacks
    def local_table_lookups(fn):
        built = {}
        for n_ in walk_local(fn):
            if isinstance(n_, ast.Assign) and len(n_.targets) == 1 and isinstance(n_.targets[0], ast.Name):
                v_ = n_.value
                if isinstance(v_, (ast.Dict, ast.DictComp)) or (isinstance(v_, ast.Call) and dotted(v_.func) in ('dict', 'collections.OrderedDict', 'OrderedDict')):
                    built.setdefault(n_.targets[0].id, []).append(n_)
        parents_ = {}
        for x_ in ast.walk(fn):
            for ch_ in ast.iter_child_nodes(x_):
                parents_[id(ch_)] = x_
        for n_ in walk_local(fn):
            direct = isinstance(n_, ast.Subscript) and (isinstance(n_.value, (ast.Dict, ast.DictComp)) or (
                isinstance(n_.value, ast.Call) and dotted(n_.value.func) in ('dict', 'collections.OrderedDict', 'OrderedDict')))
            if not (isinstance(n_, ast.Subscript) and isinstance(n_.ctx, ast.Load) and (direct or isinstance(n_.value, ast.Name) and n_.value.id in built)):
                continue
            if isinstance(n_.slice, ast.Constant):
                continue
            if direct and isinstance(n_.value, ast.Dict) and all(isinstance(k_, ast.Constant) for k_ in n_.value.keys):
                continue       # a literal table: its key set is a matter of the code, not of the statements
            tname, key = (src(n_.value)[:40] if direct else n_.value.id), src(n_.slice)
            # filled with exactly this key in the same function (d[k] = ...; d[k])?
            if any(isinstance(a_, ast.Assign) and any(isinstance(t_, ast.Subscript) and src(t_.value) == tname and src(t_.slice) == key for t_ in a_.targets)
                   for a_ in walk_local(fn)):
                continue
            cur, guarded = n_, False
            while parents_.get(id(cur)) is not None and cur is not fn:
                par_ = parents_[id(cur)]
                if isinstance(par_, ast.Try) and cur in par_.body and par_.handlers:
                    guarded = True
                if isinstance(par_, (ast.If, ast.IfExp)) and (cur in par_.body if isinstance(par_, ast.If) else cur is par_.body):
                    tests_ = par_.test.values if isinstance(par_.test, ast.BoolOp) and isinstance(par_.test.op, ast.And) else [par_.test]
                    if any(src(t_) == '%s in %s' % (key, tname) for t_ in tests_):
                        guarded = True
                    if not direct and any(isinstance(x_, ast.Name) and x_.id == tname for x_ in ast.walk(par_.test)):
                        guarded = True      # some test on the table decides whether we get here (precision policy: taken as a guard)
                if isinstance(par_, (ast.For, ast.ListComp, ast.GeneratorExp, ast.DictComp, ast.SetComp)):
                    # iterating the table's own keys
                    gens_ = [par_] if isinstance(par_, ast.For) else par_.generators
                    for g_ in gens_:
                        it_ = src(g_.iter)
                        if it_ in (tname, tname + '.keys()', 'sorted(%s)' % tname, tname + '.items()') and key in [src(x) for x in ast.walk(g_.target)]:
                            guarded = True
                if isinstance(par_, list):
                    break
                # `if key not in table: continue / raise / return` earlier in an enclosing block
                for blk in ('body', 'orelse'):
                    stmts_ = getattr(par_, blk, None)
                    if isinstance(stmts_, list) and cur in stmts_:
                        for prev_ in stmts_[:stmts_.index(cur)]:
                            if isinstance(prev_, ast.If) and prev_.body and isinstance(prev_.body[-1], (ast.Continue, ast.Raise, ast.Return, ast.Break)) and \
                                    not direct and any(isinstance(x_, ast.Name) and x_.id == tname for x_ in ast.walk(prev_.test)):
                                guarded = True      # a set-cover / membership test on the table leaves early
                cur = par_
            yield n_, tname, key, guarded
    for q in sorted(reach):
        if not q.startswith('xtuml.'):
            continue
        for node, tname, key, guarded in local_table_lookups(cg.funcs[q]):
            r.check(guarded, '%s: look-up %s[%s] is guarded' % (q, tname, key), node, construct=q, key='table-lookup ' + tname,
                    msg='%s subscripts the table `%s`, which it has just built, with `%s`, which comes from the statements: for a name the table '
                        'lacks a bare KeyError escapes instead of ParsingException / a metamodel exception; reachable via %s'
                        % (q, tname, key, ' -> '.join(cg.path(roots[0], q) or cg.path(roots[1], q) or [q])))
    # a list of the statement subscripted with a position found in ANOTHER list of the statement (values[names.index(..)]): IndexError when
    # the statement has fewer values than names, unless the two lengths were compared before
    for q in sorted(reach):
        if not q.startswith('xtuml.load:'):
            continue
        fn_ = cg.funcs[q]
        idx_of = {}
        for a_ in walk_local(fn_):
            if isinstance(a_, ast.Assign) and len(a_.targets) == 1 and isinstance(a_.targets[0], ast.Name) and isinstance(a_.value, ast.Call) and \
                    isinstance(a_.value.func, ast.Attribute) and a_.value.func.attr == 'index':
                idx_of[a_.targets[0].id] = a_.value.func.value
        for node in walk_local(fn_):
            if not (isinstance(node, ast.Subscript) and isinstance(node.ctx, ast.Load) and isinstance(node.value, ast.Attribute) and node.value.attr == 'values'):
                continue
            ix = node.slice
            src_list = idx_of.get(ix.id) if isinstance(ix, ast.Name) else (ix.func.value if isinstance(ix, ast.Call) and isinstance(ix.func, ast.Attribute)
                                                                            and ix.func.attr == 'index' else None)
            if src_list is None:
                continue
            stmt_ = src(node.value.value)
            lens = set()
            guarded = False
            for t_ in walk_local(fn_):
                if isinstance(t_, ast.If) and t_.lineno < node.lineno and t_.body and isinstance(t_.body[-1], (ast.Raise, ast.Return, ast.Continue)):
                    calls_ = [src(c_.args[0]) for c_ in ast.walk(t_.test) if isinstance(c_, ast.Call) and dotted(c_.func) == 'len' and c_.args]
                    if ('%s.values' % stmt_) in calls_ and len(set(calls_)) >= 2:
                        guarded = True
            cur = node
            par2 = {}
            for x_ in ast.walk(fn_):
                for ch_ in ast.iter_child_nodes(x_):
                    par2[id(ch_)] = x_
            while par2.get(id(cur)) is not None:
                p2 = par2[id(cur)]
                if isinstance(p2, ast.Try) and cur in p2.body and any(h_.type is None or 'IndexError' in src(h_.type) or src(h_.type) in ('Exception', 'LookupError')
                                                                       for h_ in p2.handlers):
                    guarded = True
                cur = p2
            r.check(guarded, '%s: %s is read at a position that exists' % (q, src(node)), node, construct=q, key='values-by-position-of-names',
                    msg='%s reads `%s` at a position taken from `%s`: an INSERT with named columns and fewer values than names is accepted by the parser, '
                        'and building the metamodel then ends in a bare IndexError instead of ParsingException; nothing compares the two lengths first'
                        % (q, src(node), src(src_list)))
    n_impl = 0
    in_action = [False]
    for q in sorted(reach):
        if not q.startswith('xtuml.'):
            continue
        in_action[0] = q.split('.')[-1].startswith(('p_', 't_'))
        for node in walk_local(cg.funcs[q]):
            n_impl += 1 if isinstance(node, ast.Call) and dotted(node.func) == 'zip' else 0
            what = implicit(node)
            if what is None:
                if isinstance(node, ast.Call) and dotted(node.func) == 'zip':
                    r.ok('%s: zip truncates silently' % q, node, construct=q + '|zip|' + src(node)[:40])
                continue
            cur, guarded = node, False
            parents_ = {}
            for x_ in ast.walk(cg.funcs[q]):
                for ch_ in ast.iter_child_nodes(x_):
                    parents_[id(ch_)] = x_
            while parents_.get(id(cur)) is not None and cur is not cg.funcs[q]:
                par_ = parents_[id(cur)]
                if isinstance(par_, ast.Try) and cur in par_.body and par_.handlers:
                    guarded = True
                if isinstance(par_, (ast.If, ast.IfExp)) and (cur in par_.body if isinstance(par_, ast.If) else cur is par_.body) and obj_attr(node):
                    # if <name> in <obj>.__dict__ / hasattr(<obj>, <name>): the attribute is there
                    o_, a_ = obj_attr(node)
                    tests_ = par_.test.values if isinstance(par_.test, ast.BoolOp) and isinstance(par_.test.op, ast.And) else [par_.test]
                    if any(src(t_) in ('%s in %s.__dict__' % (a_, o_), 'hasattr(%s, %s)' % (o_, a_), '%s in vars(%s)' % (a_, o_)) for t_ in tests_):
                        guarded = True
                if obj_attr(node):
                    # guard form: `if <name> not in <obj>.__dict__: continue` before the statement in the same block
                    o_, a_ = obj_attr(node)
                    for fld_ in ('body', 'orelse', 'finalbody'):
                        blk_ = getattr(par_, fld_, None)
                        if isinstance(blk_, list) and cur in blk_:
                            for prev_ in blk_[:blk_.index(cur)]:
                                if isinstance(prev_, ast.If) and prev_.body and isinstance(prev_.body[-1], (ast.Continue, ast.Return, ast.Break, ast.Raise)):
                                    alts_ = prev_.test.values if isinstance(prev_.test, ast.BoolOp) and isinstance(prev_.test.op, ast.Or) else [prev_.test]
                                    if any(src(t_) in ('%s not in %s.__dict__' % (a_, o_), 'not hasattr(%s, %s)' % (o_, a_)) for t_ in alts_):
                                        guarded = True
                cur = par_
            r.check(guarded, '%s: %s is inside a try' % (q, what), node, construct=q, key='implicit ' + what.split(' ')[0],
                    msg='%s uses %s on data that comes from the statements (`%s`); for a malformed schema statement an unrelated built-in error '
                        'escapes instead of ParsingException / a metamodel exception; reachable via %s'
                        % (q, what, src(node)[:60], ' -> '.join(cg.path(roots[0], q) or cg.path(roots[1], q) or [q])))
    probe = ast.parse('dict(zip(a, b, strict=True))').body[0].value.args[0]
    r.check(implicit(probe) is not None, 'detector self-test: zip(strict=True) is recognised', None, construct='C12-RAISES:probe', key='probe',
            msg='the implicit-raiser detector no longer recognises its positive example')
    from .c13 import _none_guard
    _none_guard(r, repo.methods(cls)['p_error'], 'xtuml.load:ModelLoader.p_error')
    # building the exception message must not itself fail: %d only receives integer-typed expressions, arity matches
    n_msgs = 0
    for q in sorted(reach):
        if not q.startswith('xtuml.'):
            continue
        for node in ast.walk(cg.funcs[q]):
            if isinstance(node, ast.Raise) and isinstance(node.exc, ast.Call) and node.exc.args:
                a0 = node.exc.args[0]
                if isinstance(a0, ast.BinOp) and isinstance(a0.op, ast.Mod) and not (isinstance(a0.left, ast.Constant) and isinstance(a0.left.value, str)):
                    r.violation('%s: the format string of the message (`%s`) is not a literal: text taken from the input becomes part of the '
                                'format, so a `%%` in a value makes building the documented exception raise TypeError / ValueError' % (q, src(a0.left)[:60]),
                                node, construct=q, key='msg-format-not-literal')
                if isinstance(a0, ast.BinOp) and isinstance(a0.op, ast.Mod) and isinstance(a0.left, ast.Constant) and isinstance(a0.left.value, str):
                    import re as _re
                    convs = _re.findall(r'%[-0-9.]*([sdrfi%])', a0.left.value)
                    convs = [c for c in convs if c != '%']
                    from .. import normal as _normal
                    right_ = _normal._Expr().visit(_normal.clone(a0.right))      # (a, b) + (c, d) is the tuple (a, b, c, d)
                    args = right_.elts if isinstance(right_, ast.Tuple) else [right_]
                    n_msgs += 1
                    r.check(len(convs) == len(args), '%s: message has %d conversions and %d arguments' % (q, len(convs), len(args)), node, construct=q,
                            key='msg-arity ' + a0.left.value[:30], msg='%s: the message %r has %d conversions but %d arguments: building the exception '
                            'raises TypeError' % (q, a0.left.value, len(convs), len(args)))
                    for cnv, arg in zip(convs, args):
                        if cnv in ('d', 'i', 'f'):
                            s_ = src(arg)
                            inty = s_.endswith('.lineno') or s_.endswith('.lineno(1)') or s_.startswith('len(') or s_.startswith('int(') or \
                                (isinstance(arg, ast.Constant) and isinstance(arg.value, (int, float))) or s_.endswith('.lexpos')
                            r.check(inty, '%s: %%%s receives the number `%s`' % (q, cnv, s_), arg, construct=q, key='msg-type ' + s_,
                                    msg='%s: the message %r formats `%s` with %%%s; that expression is statement text, not a number, so building the '
                                        'documented exception raises an unrelated TypeError' % (q, a0.left.value, s_, cnv))
    if n_msgs < 5:
        raise AnalysisError('only %d formatted exception messages found' % n_msgs)
    # the documented rejection hooks raise on every path
    for name in ('t_error', 'p_error'):
        m = repo.methods(cls).get(name)
        if m is None:
            raise AnalysisError('ModelLoader.%s is missing' % name)
        g = cfgmod.build(m)
        paths = g.paths(follow_exc=False)
        ok = paths and all(p[-1][0].kind == 'raise' for p in paths)
        r.check(ok, 'ModelLoader.%s raises on every path (%d paths)' % (name, len(paths)), m,
                construct='xtuml.load:ModelLoader.' + name, key='hook-raises',
                msg='ModelLoader.%s can return normally: ply would then continue with error recovery and accept part of a '
                    'malformed text' % name)


def guess(ctx):
    '''a class without CREATE TABLE gets its attribute types from guess_type_name(value): every value lexeme the grammar accepts must get a
    type name (a None type dies later in default_value() with an AttributeError).  Language inclusion on the regex automata:
    L(token) is included in the union of the prefix languages of guess_type_name's patterns.'''
    from . import lexrules
    from ..lexer import RegexNFA, included
    repo = ctx.repo
    r = ctx.rule('C12-GUESS', 'every value lexeme the grammar accepts is given a type name by guess_type_name', floor=6,
                 oracle='token regexes of ModelLoader vs the patterns of guess_type_name (automata inclusion)')
    g = lexrules.grammar_of(repo, 'xtuml.load:ModelLoader')
    fn = repo.func('xtuml.load:guess_type_name')
    Q = 'xtuml.load:guess_type_name'
    P = param_names(fn, skip_self=False)[0]
    # the branches: (kind, data, returned)
    patterns, words = [], set()
    for node in ast.walk(fn):
        if not isinstance(node, ast.If):
            continue
        ret = [x for x in node.body if isinstance(x, ast.Return)]
        named = bool(ret) and isinstance(ret[-1].value, ast.Constant) and isinstance(ret[-1].value.value, str)
        t = node.test
        m = pm.match('re.match(_R, %s)' % P, t) or pm.match('re.match(_R, %s) is not None' % P, t)
        if m and isinstance(m['_R'], ast.Constant) and isinstance(m['_R'].value, str):
            if named:
                patterns.append(m['_R'].value)
            continue
        m = pm.match('%s.upper() in _L' % P, t)
        if m and isinstance(m['_L'], (ast.List, ast.Tuple, ast.Set)) and all(isinstance(x, ast.Constant) for x in m['_L'].elts):
            if named:
                words |= {x.value for x in m['_L'].elts}
            continue
        raise AnalysisError('%s: test `%s` of guess_type_name is outside the idioms this rule knows' % (loc(node), src(t)))
    if not patterns:
        raise AnalysisError('%s: no re.match branches found in guess_type_name' % loc(fn))
    union = RegexNFA('(?:%s)[\\s\\S]*' % '|'.join('(?:%s)' % x for x in patterns))
    rules = {t.name: t for t in g.token_rules}
    n = 0
    for pr in g.productions:
        if pr.head != 'value':
            continue
        if len(pr.syms) == 1 and pr.syms[0] not in rules:
            # a reserved word: its lexeme is the word in any letter case
            n += 1
            r.check(pr.syms[0] in words, 'the keyword value %s is given a type' % pr.syms[0], fn, construct=Q, key='word ' + pr.syms[0],
                    msg='guess_type_name gives no type to the keyword value %s' % pr.syms[0])
            continue
        if not all(s_ in rules for s_ in pr.syms):
            raise AnalysisError('%s: value production `%s` uses a symbol without a token regex' % (loc(pr.fn), ' '.join(pr.syms)))
        tok = RegexNFA(''.join('(?:%s)' % rules[s_].regex for s_ in pr.syms))
        ok, w = included(tok, union)
        n += 1
        r.check(ok, 'every `%s` lexeme is given a type' % ' '.join(pr.syms), fn, construct=Q, key='covers ' + ' '.join(pr.syms),
                msg='the grammar accepts the value %r (%s) but no pattern of guess_type_name matches it: the type of an attribute of a class '
                    'without CREATE TABLE becomes None and building the metamodel dies with an AttributeError instead of a parsing / metamodel '
                    'exception' % (w, ' '.join(pr.syms)))
    r.check(n >= 6, '%d value forms examined' % n, fn, construct=Q, key='forms', msg='only %d value forms found in the grammar' % n)


def _text_derived_functions(repo):
    '''functions that convert statement text into values'''
    return ['xtuml.load:deserialize_value']


def convert(ctx):
    repo = ctx.repo
    r = ctx.rule('C12-CONVERT', 'partial converters applied to statement text are guarded (try/except or lexical-class test)',
                 floor=4, oracle='property statement (never an unrelated built-in error)')
    for q in _text_derived_functions(repo):
        fn = repo.func(q)
        P = param_names(fn, skip_self=False)
        # converter sites in the function itself and in helpers (functions outside the reference inventory) it calls:
        # a site inside a helper is guarded by the helper's own try or by the try around the call of the helper
        sites = []      # (converter call, function containing it, chain of call sites from fn down to that function)
        resolver = absint.default_helpers(fn)

        def collect(f, chain, seen):
            for node in ast.walk(f):
                if isinstance(node, ast.Call):
                    d = dotted(node.func)
                    if d in PARTIAL_CONVERTERS and node.args:
                        sites.append((node, f, chain))
                    h = resolver(node) if resolver is not None else None
                    if h is not None and id(h) not in seen:
                        collect(h, chain + [(node, f)], seen | {id(h)})
        collect(fn, [], {id(fn)})
        # helpers reached through a static module-level table ({'INTEGER': _deserialize_integer, ..}): a call of a local name bound
        # from a lookup in such a table may call every function of the table
        mod = fn._module
        tables = {}
        for st in mod.tree.body:
            if isinstance(st, ast.Assign) and len(st.targets) == 1 and isinstance(st.targets[0], ast.Name) and isinstance(st.value, ast.Dict):
                tables[st.targets[0].id] = [v.id for v in st.value.values if isinstance(v, ast.Name)]
        table_calls = []      # (call, table names)
        for n in ast.walk(fn):
            if isinstance(n, ast.Assign) and len(n.targets) == 1 and isinstance(n.targets[0], ast.Name):
                used = [x.id for x in ast.walk(n.value) if isinstance(x, ast.Name) and x.id in tables]
                if used:
                    var = n.targets[0].id
                    for c2 in [x for x in ast.walk(fn) if isinstance(x, ast.Call) and isinstance(x.func, ast.Name) and x.func.id == var]:
                        table_calls.append((c2, used))
            if isinstance(n, ast.Call) and not isinstance(n.func, ast.Name):
                used = [x.id for x in ast.walk(n.func) if isinstance(x, ast.Name) and x.id in tables]
                # TABLE.get(k)(value) / TABLE[k](value): the callee comes out of the table (TABLE.get(k) itself is not such a call)
                if used and isinstance(n.func, (ast.Call, ast.Subscript)):
                    table_calls.append((n, used))
        for c2, used in table_calls:
            for tname in used:
                for fname in tables[tname]:
                    if fname in PARTIAL_CONVERTERS:
                        # the table hands out a partial converter itself (e.g. float): the call site is the converter site
                        fake = ast.copy_location(ast.Call(func=ast.Name(id=fname, ctx=ast.Load()), args=c2.args, keywords=[]), c2)
                        for a_ in ast.walk(fake):
                            a_._module = fn._module
                        fake._parent = c2._parent
                        fake._stands_for = c2
                        sites.append((fake, fn, []))
                        continue
                    h = next((x for x in mod.tree.body if isinstance(x, ast.FunctionDef) and x.name == fname), None)
                    if h is not None and repo.is_helper('%s:%s' % (mod.name, fname)):
                        collect(h, [(c2, fn)], {id(fn), id(h)})
        if len(sites) < 3:
            raise AnalysisError('%s: only %d partial converters found in %s' % (loc(fn), len(sites), q))
        for c, f, chain in sites:
            d = dotted(c.func)
            guarded, how = _guarded(getattr(c, '_stands_for', c), f, converter=(d if hasattr(c, '_stands_for') else None)) if hasattr(c, '_stands_for') \
                else _guarded(c, f)
            for call_site, caller in reversed(chain):
                if guarded:
                    break
                guarded, how = _guarded(call_site, caller, converter=d)
            r.check(guarded, '%s: %s is guarded (%s)' % (q, src(c), how), c, construct=q, key='unguarded ' + src(c),
                    msg='%s: `%s` raises %s for a value of the wrong lexical class (e.g. a string or a fraction in this '
                        'column); nothing converts it to the loader\'s ParsingException' % (q, src(c), PARTIAL_CONVERTERS[d]))
    # the callers turn None into ParsingException
    for q in ('xtuml.load:ModelLoader._populate_instance_with_positional_arguments',
              'xtuml.load:ModelLoader._populate_instance_with_named_arguments'):
        fn = repo.func(q)
        ok = False
        for node in ast.walk(fn):
            if isinstance(node, ast.If) and pm.match('_V is None', node.test) is not None:
                if any(isinstance(x, ast.Raise) and exception_class_name(x) == 'ParsingException' for x in node.body):
                    ok = True
        r.check(ok, '%s rejects an undeserialisable value with ParsingException' % q, fn, construct=q, key='none-check',
                msg='%s no longer raises ParsingException when deserialize_value yields None' % q)


def _guarded(call, fn, converter=None):
    # (a) enclosing try with a handler that catches the converter's exception (or broader)
    cur = call
    while cur is not fn and cur is not None:
        parent = cur._parent
        if isinstance(parent, ast.Try) and cur in parent.body:
            for h in parent.handlers:
                names = []
                if h.type is None:
                    names = ['BaseException']
                elif isinstance(h.type, ast.Tuple):
                    names = [dotted(e) for e in h.type.elts]
                else:
                    names = [dotted(h.type)]
                if any(n in ('ValueError', 'Exception', 'BaseException') for n in names):
                    # the handler must not re-raise the built-in error
                    reraises = any(isinstance(x, ast.Raise) and (x.exc is None or exception_class_name(x) not in
                                                                ('ParsingException',)) for x in ast.walk(h))
                    if not reraises:
                        return True, 'try/except %s' % ','.join(names)
        cur = parent
    # (b) dominated by a lexical-class test on the same argument (int only): <arg>.isdigit()
    if converter is not None or not call.args:
        return False, ''
    arg = call.args[0]
    d = dotted(call.func)
    if d == 'int' and isinstance(arg, ast.Name):
        cur = call
        while cur is not fn and cur is not None:
            parent = cur._parent
            if isinstance(parent, ast.If) and cur in parent.body and \
                    pm.match('%s.isdigit()' % arg.id, parent.test) is not None:
                return True, 'dominated by %s.isdigit()' % arg.id
            cur = parent
    return False, ''
