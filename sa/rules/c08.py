'''
C08 - OAL keywords are case-insensitive in parsing, execution and prebuild.

  C08-LEX    t_ID recognises keywords on the upper-cased lexeme; END_FOR/END_IF/END_WHILE regexes are case-closed
  C08-TAINT  Node fields that the grammar fills with a keyword lexeme (computed from the productions) must pass
             a case normaliser (.lower/.upper/.casefold or the normalising accessor) before they are compared,
             used as a dictionary key, tested with `in`, or persisted into a prebuilt instance
'''
import ast
import re

from ..src import AnalysisError, loc, src, norm, dotted, call_attr, param_names, body_without_doc, walk_local
from .. import pm
from ..lexer import RegexNFA, sre_c
from . import lexrules
from .common import CASE_NORMALISERS, is_case_normalised

CLS = 'bridgepoint.oal:OALParser'
FREE_TEXT = {'ID', 'NAMESPACE', 'TICKED_PHRASE', 'STRING', 'NUMBER', 'FRACTION'}


def run(ctx):
    g = lexrules.grammar_of(ctx.repo, CLS)
    ctx.guard(lex_rule, ctx, g)
    sources = keyword_fields(ctx, g)
    ctx.guard(taint, ctx, g, sources)
    ctx.guard(self_rule, ctx)
    ctx.guard(mixed_rule, ctx, g)
    ctx.assume('identifiers that merely coincide with keywords (kw_as_identifier_*) are names, not keywords')
    return ('Keyword-carrying Node fields are computed from the grammar (production position whose symbol derives a '
            'keyword terminal -> constructor field); every read of such a field in the interpreter and prebuilder '
            'handlers is followed to its sinks (comparison, membership test, dictionary key, persisted attribute) and '
            'must pass a case normaliser; the keyword lexer rule and the END_* regexes are checked on their ASTs/automata.')


def lex_rule(ctx, g):
    r = ctx.rule('C08-LEX', 'keyword recognition is independent of letter case', floor=5, oracle='property statement')
    tid = [t for t in g.token_rules if t.name == 'ID']
    if not tid:
        raise AnalysisError('t_ID missing')
    fn = tid[0].fn
    tp = param_names(fn)[0]
    Q = CLS + '.t_ID'
    # abstract execution (helpers interpreted in place): a keyword in any letter case gets its upper-cased spelling as token type,
    # anything else keeps the type ID
    from .. import absint

    def spelled(x, s):
        '''concrete value of an expression over the lexeme'''
        if pm.match('%s.value' % tp, x) is not None:
            return s['lexeme']
        if isinstance(x, ast.Call) and isinstance(x.func, ast.Attribute) and x.func.attr in ('upper', 'lower', 'casefold') and not x.args:
            inner = spelled(x.func.value, s)
            return getattr(inner, x.func.attr)() if inner is not None else None
        return None

    def in_kw(e, s, tr):
        v = spelled(e['_X'], s)
        if v is None:
            return None
        L = e['_L']
        if isinstance(L, (ast.Tuple, ast.List, ast.Set)) and all(isinstance(k, ast.Constant) for k in L.elts):
            return v in [k.value for k in L.elts]
        if isinstance(L, ast.Dict) and all(isinstance(k, ast.Constant) for k in L.keys):
            return v in [k.value for k in L.keys]
        if pm.match('self.keywords', L) is not None:
            return v in set(g.keywords)
        if pm.match('self.tokens', L) is not None:
            return v in set(g.tokens)
        if pm.match('self.reserved', L) is not None and g.reserved:
            return v in set(g.reserved)
        return None

    def set_type(e, s, tr):
        v = e['_V']
        if pm.match('%s.type' % tp, v) is not None:
            return True
        sv = spelled(v, s)
        tr.append(('type', sv if sv is not None else '?' + src(v)))
        return True
    ti = absint.Interp(fn, [('_X in _L', in_kw), ('_X not in _L', lambda e, s, tr: (None if in_kw(e, s, tr) is None else not in_kw(e, s, tr)))],
                       [('%s.type = _V' % tp, set_type), ('%s.endlexpos = _V' % tp, lambda e, s, tr: True)])
    kw0 = sorted(g.keywords)[0]
    ok = True
    # words that name another token (NUMBER, STRING, TIMES ...) are ordinary identifiers
    others = sorted(t_ for t_ in set(g.tokens) - set(g.keywords) if t_.isalpha())[:3]
    wrong = None
    def mixed(w):
        return ''.join(ch.upper() if i % 2 else ch.lower() for i, ch in enumerate(w))
    spellings = []
    for kw in sorted(g.keywords):           # every keyword in every kind of spelling: the decision may single out one word or one spelling
        spellings += [kw.upper(), kw.lower(), kw.capitalize(), mixed(kw), kw.lower().title()]
    for lexeme in spellings + ['not_a_keyword_x'] + [o.lower() for o in others] + others:
        out, tr = ti.run({'lexeme': lexeme})
        types = [t[1] for t in tr if t[0] == 'type']
        want = [lexeme.upper()] if lexeme.upper() in set(g.keywords) else []
        if types != want and wrong is None:
            wrong = (lexeme, types)
        ok = ok and types == want
    r.check(ok, 't_ID looks the upper-cased lexeme up in the keyword table and uses it as token type', fn, construct=Q, key='upper-lookup',
            msg='t_ID does not decide keyword-ness on `%s.value.upper()` against the keyword table: the word %r gets the token type %s' % (
                tp, wrong[0] if wrong else '?', wrong[1] if wrong else '?'))
    r.check(all(k == k.upper() for k in g.keywords), 'the keyword table is upper case', g.cls, construct=CLS + '.keywords', key='table-case',
            msg='keyword table contains non upper-case entries: %s' % [k for k in g.keywords if k != k.upper()])
    # t_ID must not change t.value (identifiers keep their spelling)
    r.check(not any(isinstance(n, ast.Assign) and any(src(t) == '%s.value' % tp for t in n.targets) for n in ast.walk(fn)),
            't_ID keeps the lexeme unchanged', fn, construct=Q, key='value-unchanged', msg='t_ID rewrites t.value')
    for t in g.token_rules:
        if not t.name.startswith('END_'):
            continue
        nfa = RegexNFA(t.regex, lexrules.PLY_FLAGS)
        bad = []
        for cs in nfa.charsets:
            for ch in 'abcdefghijklmnopqrstuvwxyz':
                if cs.contains(ch) != cs.contains(ch.upper()):
                    bad.append(ch)
        r.check(not bad, 't_%s regex is closed under letter case' % t.name, t.fn, construct=CLS + '.t_' + t.name, key='case-closed',
                msg='t_%s regex %r distinguishes the case of %s' % (t.name, t.regex, sorted(set(bad))))
        # it must precede t_ID, otherwise `end` would be lexed as an identifier
        order = [x.name for x in g.token_rules]
        r.check(order.index(t.name) < order.index('ID'), 't_%s is tried before t_ID' % t.name, t.fn, construct=CLS + '.t_' + t.name,
                key='order', msg='t_%s is defined after t_ID' % t.name)


def self_rule(ctx):
    '''mixed position (instance_name : variable_name | SELF): the prebuilders that declare `self` on demand must compare the name
    case-normalised AND declare the variable under the normalised spelling'''
    repo = ctx.repo
    r = ctx.rule('C08-SELF', 'the implicit self variable is recognised and declared independent of letter case', floor=3,
                 oracle='grammar: instance_name : variable_name | SELF; sibling agreement of the find_symbol overrides')
    from .. import absint
    import itertools
    n = 0
    for c in repo.classes('bridgepoint.prebuild'):
        fn = repo.methods(c).get('find_symbol')
        if fn is None or c.name in ('SymbolTable', 'ActionPrebuilder'):
            continue
        if "'self'" not in src(fn).lower():
            continue
        n += 1
        q = 'bridgepoint.prebuild:%s.find_symbol' % c.name
        nm = param_names(fn)[1]

        def base(e, s, tr):
            s.setdefault('env', {})[e['_V'].id] = 'base'
            return True

        def declare(e, s, tr):
            sp = e['_S']
            tr.append(('declare', sp.value if isinstance(sp, ast.Constant) else '?' + src(sp)))
            s.setdefault('env', {})[e['_I'].id] = 'declared'
            return True

        def truthy(e, s, tr):
            x = e['_X']
            if isinstance(x, ast.Name) and s.get('env', {}).get(x.id) == 'base':
                return s['found']
            return None

        def cmp_(e, s, tr):
            a_, b_ = e['_A'], e['_B']
            lit, other = (a_, b_) if isinstance(a_, ast.Constant) else (b_, a_)
            if not (isinstance(lit, ast.Constant) and isinstance(lit.value, str)):
                return None
            if isinstance(other, ast.Name) and other.id == nm:
                tr.append(('raw-compare', src(e['_A']) + ' == ' + src(e['_B'])))
                return s['spelling'] == lit.value
            if isinstance(other, ast.Call) and isinstance(other.func, ast.Attribute) and isinstance(other.func.value, ast.Name) and \
                    other.func.value.id == nm and other.func.attr in ('lower', 'upper', 'casefold') and not other.args:
                return getattr(s['spelling'], other.func.attr)() == lit.value
            return None
        it = absint.Interp(fn, [('_A == _B', cmp_), ('_A != _B', lambda e, s, tr: (None if cmp_(e, s, tr) is None else not cmp_(e, s, tr))),
                                ('_X is None', lambda e, s, tr: (None if truthy(e, s, tr) is None else not truthy(e, s, tr))),
                                ('_X is not None', truthy), ('_X', truthy)],
                           [('_V = ActionPrebuilder.find_symbol(self, node, %s)' % nm, base), ('_I = self.v_int(node, _S, self._o_obj)', declare),
                            ('_V = one(_I).V_VAR[814]()', lambda e, s, tr: True)])
        for found, spelling in itertools.product([True, False], ['self', 'SELF', 'Self', 'other']):
            out, tr = it.run({'found': found, 'spelling': spelling})
            decl = [t[1] for t in tr if t[0] == 'declare']
            want = ['self'] if (not found and spelling.lower() == 'self') else []
            if spelling.lower() == 'self' and not found:
                r.check(bool(decl), '%s recognises the implicit handle spelled %s' % (q, spelling), fn, construct=q, key='self-compare',
                        msg='%s does not recognise the implicit instance handle spelled `%s`: the comparison depends on the letter case of SELF'
                            % (q, spelling))
                if decl:
                    r.check(decl == ['self'], '%s declares the handle spelled %s under the spelling `self`' % (q, spelling), fn, construct=q,
                            key='self-declare', msg='%s declares the implicit handle under the spelling found in the source (`%s`): SELF / Self / self '
                                                    'then denote different variables' % (q, decl[0]))
            else:
                r.check(decl == want, '%s declares nothing for (found=%s, name %s)' % (q, found, spelling), fn, construct=q, key='self-spurious',
                        msg='%s declares an implicit handle (%s) although %s' % (q, decl, 'the variable exists' if found else 'the name is not self'))
    if n < 3:
        raise AnalysisError('only %d find_symbol overrides with a self branch found' % n)


def mixed_rule(ctx, g):
    '''mixed positions: one grammar action serves a keyword terminal AND a free-text alternative of the same head and forwards the lexeme
    (instance_name : variable_name | SELF).  The lexeme of the keyword alternative becomes a NAME in the tree (RelateNode.from_variable_name,
    DeleteNode.variable_name ...): it must be forwarded case-normalised, otherwise `SELF` and `self` give different trees and, in the
    prebuilders, a new implicit variable per reference.'''
    from .. import absint
    r = ctx.rule('C08-MIXED', 'a grammar action shared by a keyword and a free-text alternative forwards the keyword case-normalised', floor=1,
                 oracle='property statement (bodies that differ only in keyword case parse to the same tree)')
    free = set(FREE_TEXT)
    changed = True
    while changed:          # non-terminals that can derive a single free-text token
        changed = False
        for p in g.productions:
            if len(p.syms) == 1 and p.syms[0] in free and p.head not in free:
                free.add(p.head)
                changed = True
    byfn = {}
    for p in g.productions:
        if len(p.syms) == 1:
            byfn.setdefault((p.head, p.fn.name), []).append(p)
    n = 0
    for (head, fname), ps in sorted(byfn.items()):
        kws = [p for p in ps if p.syms[0] in g.keywords]
        others = [p for p in ps if p.syms[0] in free and p.syms[0] not in g.keywords]
        if not kws or not others or head.startswith('kw_as_identifier'):
            continue
        fn = ps[0].fn
        P = param_names(fn)[0]
        q = CLS + '.' + fname

        def tok_type(e, s, tr):
            k = e['_K']
            if isinstance(k, ast.Constant) and isinstance(k.value, str):
                return s['sym'] == k.value
            if isinstance(k, (ast.Tuple, ast.List, ast.Set)) and all(isinstance(x, ast.Constant) for x in k.elts):
                return s['sym'] in [x.value for x in k.elts]
            return None

        def store(e, s, tr):
            tr.append(('value', holder['it'].subst(e['_V'], s)))
            return True
        holder = {}
        atoms = [('%s.slice[1].type == _K' % P, tok_type), ('%s.slice[1].type != _K' % P, lambda e, s, tr: None if tok_type(e, s, tr) is None else not tok_type(e, s, tr)),
                 ('%s.slice[1].type in _K' % P, tok_type), ('%s.slice[1].type not in _K' % P, lambda e, s, tr: None if tok_type(e, s, tr) is None else not tok_type(e, s, tr))]
        it = absint.Interp(fn, atoms, [('%s[0] = _V' % P, store)])
        holder['it'] = it
        for p in kws:
            n += 1
            st_ = {'sym': p.syms[0]}
            out, tr = it.run(st_)
            vals = [t[1] for t in tr if isinstance(t, tuple) and t[0] == 'value']
            v = vals[-1] if vals else None
            hops = 0
            while isinstance(v, ast.IfExp) and hops < 5:
                hops += 1
                v = v.body if it.cond(v.test, {'sym': p.syms[0]}, []) else v.orelse
            ok = v is not None and ((isinstance(v, ast.Constant) and isinstance(v.value, str)) or is_case_normalised(v))
            r.check(ok, '%s forwards the keyword %s case-normalised' % (fname, p.syms[0]), fn, construct=q, key='mixed ' + p.syms[0],
                    msg='%s forwards the lexeme of the keyword %s as written (`%s`) into a name field of the tree: `%s` and `%s` then parse to different '
                        'trees and denote different variables downstream' % (fname, p.syms[0], src(v) if v is not None else '?', p.syms[0], p.syms[0].lower()))
    if n < 1:
        raise AnalysisError('no grammar action shared by a keyword and a free-text alternative found (instance_name : variable_name | SELF expected)')


def ctor_fields(p):
    '''for one production: list of (NodeClass, field, position) from  p[0] = XNode(field=p[i], ...)'''
    out = []
    for st in body_without_doc(p.fn):
        if isinstance(st, ast.Assign) and pm.match('p[0]', st.targets[0]) is not None and isinstance(st.value, ast.Call):
            cls = dotted(st.value.func)
            for kw in st.value.keywords:
                m = pm.match('p[_I]', kw.value)
                if m and isinstance(m['_I'], ast.Constant):
                    out.append((cls, kw.arg, m['_I'].value))
            sig = (pm.SIGNATURES or {}).get(cls)
            for k, a in enumerate(st.value.args):
                m = pm.match('p[_I]', a)
                if sig is not None and k < len(sig):
                    if m and isinstance(m['_I'], ast.Constant):
                        out.append((cls, sig[k], m['_I'].value))
                else:
                    out.append((cls, '*positional*', None))
    return out


def keyword_fields(ctx, g):
    '''(NodeClass, field) -> set of keyword terminals that may be stored there'''
    repo = ctx.repo
    kws = set(g.keywords)
    out = {}
    for p in g.productions:
        for cls, field, pos in ctor_fields(p):
            if pos is None:
                # positional constructor arguments: map through __init__
                continue
            if pos - 1 >= len(p.syms):
                continue
            sym = p.syms[pos - 1]
            terms = g.terminals_only(sym)
            # keyword-only position: every derivable lexeme is a keyword or a caseless operator symbol
            if terms and (terms & kws) and not (terms & FREE_TEXT):
                out.setdefault((cls, field), set()).update(terms & kws)
    # positional constructor calls (e.g. ElseNode(p[2])) never carry keywords today; make sure
    return out


def tree_types(g):
    '''(sym -> node classes its productions may yield, (NodeClass, field) -> node classes the field may hold), from the actions'''
    sym_classes = {}
    units = {}
    for p in g.productions:
        reclass = {}
        for node, env in pm.find('p[_I].__class__ = _C', p.fn):
            if isinstance(env['_I'], ast.Constant):
                reclass[env['_I'].value] = src(env['_C'])
        for st in ast.walk(p.fn):
            if isinstance(st, ast.Assign) and pm.match('p[0]', st.targets[0]) is not None:
                v = st.value
                if isinstance(v, ast.Call) and dotted(v.func):
                    sym_classes.setdefault(p.head, set()).add(dotted(v.func))
                else:
                    m = pm.match('p[_I]', v)
                    if m and isinstance(m['_I'], ast.Constant) and 0 < m['_I'].value <= len(p.syms):
                        if m['_I'].value in reclass:
                            sym_classes.setdefault(p.head, set()).add(reclass[m['_I'].value])
                        else:
                            units.setdefault(p.head, set()).add(p.syms[m['_I'].value - 1])
    changed = True
    while changed:
        changed = False
        for h, ss in units.items():
            for s_ in ss:
                new = sym_classes.get(s_, set()) - sym_classes.get(h, set())
                if new:
                    sym_classes.setdefault(h, set()).update(new)
                    changed = True
    field_classes = {}
    for p in g.productions:
        reclass = {}
        for node, env in pm.find('p[_I].__class__ = _C', p.fn):
            if isinstance(env['_I'], ast.Constant):
                reclass[env['_I'].value] = src(env['_C'])
        for cls, field, pos in ctor_fields(p):
            if pos is None or pos - 1 >= len(p.syms):
                continue
            got = {reclass[pos]} if pos in reclass else sym_classes.get(p.syms[pos - 1], set())
            field_classes.setdefault((cls, field), set()).update(got)
    return sym_classes, field_classes


def _subclasses(repo, name):
    out = {name}
    changed = True
    while changed:
        changed = False
        for c in repo.classes('bridgepoint.oal'):
            if c.name not in out and any(dotted(b) in out for b in c.bases):
                out.add(c.name)
                changed = True
    return out


def taint(ctx, g, sources):
    repo = ctx.repo
    r = ctx.rule('C08-TAINT', 'keyword lexemes are case-normalised before any comparison, lookup or persistence', floor=12,
                 oracle='sources computed from the grammar; sinks enumerated (compare, in, dict key, new(...) attribute)')
    if len(sources) < 4:
        raise AnalysisError('only %d keyword-carrying node fields computed from the grammar' % len(sources))
    ctx.extra['keyword_fields'] = sorted('%s.%s' % k for k in sources)
    # node classes own accessors (oal.py)
    by_class = {}
    for (cls, field), terms in sources.items():
        for c in _subclasses(repo, cls):
            by_class.setdefault(c, {})[field] = terms
    for c in repo.classes('bridgepoint.oal'):
        if c.name in by_class:
            for m in c.body:
                if isinstance(m, ast.FunctionDef) and m.name != '__init__':
                    _scan(r, m, 'self', by_class[c.name], 'bridgepoint.oal:%s.%s' % (c.name, m.name))
    # child slots: node.<a>.<f> where slot a of the handled class may hold a node whose field f carries a keyword
    sym_classes, field_classes = tree_types(g)
    ctx.extra['typed_child_slots'] = len(field_classes)
    nested_by_class = {}
    for (cls, a), held in field_classes.items():
        for h in held:
            for hc in _subclasses(repo, h):
                for f, terms in by_class.get(hc, {}).items():
                    for c in _subclasses(repo, cls):
                        nested_by_class.setdefault(c, {}).setdefault((a, f), set()).update(terms)
    # walker handlers
    for modname in ('bridgepoint.interpret', 'bridgepoint.prebuild'):
        for c in repo.classes(modname):
            for m in c.body:
                if not isinstance(m, ast.FunctionDef):
                    continue
                ps = param_names(m)
                if not ps:
                    continue
                node_classes = []
                if m.name.startswith('accept_') and (m.name[7:] in by_class or m.name[7:] in nested_by_class):
                    node_classes = [m.name[7:]]
                elif ps[0] == 'node' and not m.name.startswith('accept_'):
                    # helper taking a node (act_sel, v_val, ...): the node may be of any class -> union of all fields
                    node_classes = list(by_class)
                fields = {}
                for nc in node_classes:
                    for f, t in by_class.get(nc, {}).items():
                        fields.setdefault(f, set()).update(t)
                nested = {}
                for nc in (node_classes if m.name.startswith('accept_') else []):
                    for k, t in nested_by_class.get(nc, {}).items():
                        nested.setdefault(k, set()).update(t)
                if fields or nested:
                    _scan(r, m, ps[0], fields, '%s:%s.%s' % (modname, c.name, m.name), nested)


def _scan(r, fn, nodevar, fields, qual, nested=None):
    '''find reads of nodevar.<field> for keyword-carrying fields and follow them to sinks'''
    tainted_vars = {}
    nested = nested or {}
    if nested:
        fields = dict(fields)
        for (a, f), t in nested.items():
            fields['%s.%s' % (a, f)] = t

    def is_source(e):
        return isinstance(e, ast.Attribute) and isinstance(e.value, ast.Name) and e.value.id == nodevar and e.attr in fields

    def nested_source(e):
        if isinstance(e, ast.Attribute) and isinstance(e.value, ast.Attribute) and isinstance(e.value.value, ast.Name) and \
                e.value.value.id == nodevar and (e.value.attr, e.attr) in nested:
            return '%s.%s' % (e.value.attr, e.attr)
        return None

    def taint_of(e):
        '''field name if expression e carries a raw keyword lexeme'''
        if is_source(e):
            return e.attr
        if nested_source(e):
            return nested_source(e)
        if isinstance(e, ast.Name) and e.id in tainted_vars:
            return tainted_vars[e.id]
        if isinstance(e, ast.Call) and dotted(e.func) in ('str', 'repr') and e.args:
            return taint_of(e.args[0])
        if isinstance(e, (ast.Tuple, ast.List, ast.Set)):
            for x in e.elts:
                t = taint_of(x)
                if t:
                    return t
        return None

    # local propagation (flow-insensitive; handlers are short)
    for _ in range(2):
        for n in ast.walk(fn):
            if isinstance(n, ast.Assign) and len(n.targets) == 1 and isinstance(n.targets[0], ast.Name):
                t = taint_of(n.value)
                if t:
                    tainted_vars[n.targets[0].id] = t
    for n in ast.walk(fn):
        sinks = []
        if isinstance(n, ast.Compare):
            operands = [n.left] + list(n.comparators)
            for i, op in enumerate(n.ops):
                a, b = operands[i], operands[i + 1]
                kind = 'membership test' if isinstance(op, (ast.In, ast.NotIn)) else 'comparison'
                for x in (a, b):
                    sinks.append((kind, x, n))
        elif isinstance(n, ast.Subscript) and not (isinstance(n.value, ast.Name) and n.value.id == 'p'):
            sinks.append(('dictionary key', n.slice, n))
        elif isinstance(n, ast.Call) and call_attr(n) in ('find_symbol', 'install_symbol'):
            for kw in n.keywords:
                if kw.arg == 'name':
                    sinks.append(('symbol lookup', kw.value, n))
            for a in n.args:
                if not (isinstance(a, ast.Name) and a.id in (nodevar, 'self')):
                    sinks.append(('symbol lookup', a, n))
        elif isinstance(n, ast.Call) and call_attr(n) == 'new':
            for kw in n.keywords:
                sinks.append(('persisted attribute %s' % kw.arg, kw.value, n))
            for a in n.args[1:]:
                sinks.append(('persisted attribute', a, n))
        for kind, x, ctxnode in sinks:
            t = taint_of(x)
            if t is None:
                # normalised use counts as an examined instance
                inner = x.func.value if is_case_normalised(x) else None
                if inner is not None and taint_of(inner):
                    r.ok('%s: %s of keyword field %s is case-normalised' % (qual, kind, taint_of(inner)), ctxnode,
                         construct=qual + '|' + src(ctxnode))
                continue
            r.violation('%s: keyword lexeme `%s` (one of %s, spelled as in the source text) reaches a %s `%s` without case '
                        'normalisation' % (qual, src(x), sorted(fields[t]), kind, src(ctxnode).split('\n')[0][:80]),
                        ctxnode, construct=qual, key='raw %s %s' % (kind.split()[0], src(x)))
    # plain reads that go elsewhere (e.g. node.many) are fine; count normalising accessor uses
    for n in ast.walk(fn):
        if isinstance(n, ast.Attribute) and isinstance(n.value, ast.Name) and n.value.id == nodevar and n.attr == 'many':
            r.ok('%s: uses the normalising accessor node.many' % qual, n, construct=qual + '|many|%d' % n.lineno)
