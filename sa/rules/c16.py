'''
C16 - Reflexive sorting yields the succession order and terminates.

The result of sort_reflexive depends on the contents of the link dictionaries, i.e. on run-time data.  What is in the
code is the *traversal scheme*: which phrase filters the heads, which phrase advances, where the ring guard sits, what
is yielded.  That scheme is decided here by executing the SOURCE of sort_reflexive (and of whatever local / module-level
helpers it calls) with a small evaluator of the Python subset it is written in, over a finite family of *abstract
models* of a reflexive 1C:1C association: instances are symbols, `navigate_one(x).nav(kind, rel, phrase)()` is a table
look-up in the model, a QuerySet is an ordered duplicate-free list of symbols.  Nothing of the repository runs.

  C16-CHAINS   for every arrangement of 1..4 instances into whole chains (every partition, every order within a chain,
               every order of the set), for both phrases and for the association number given as 'R7' and as 7:
               every member exactly once, each chain contiguous, starting at the member without a partner across the
               given phrase and continuing along the opposite phrase
  C16-RING     a single closed ring of 1..4 members, every rotation / order of the set: once around, starting at the
               first member of the set, along the opposite phrase
  C16-EMPTY    the empty set gives an empty result (and nothing else is consulted); a collection that is not a QuerySet
               is rejected with MetaException
  C16-TERM     termination: every model above plus every proper subset of chains / rings and mixed ring + chain sets
               ends within a step budget proportional to the model size (the evaluator counts loop iterations)
  C16-LINKS    the opposite phrase is found among decoy links (a link to another class, another reflexive association
               with phrases of its own) in either dictionary order

Small-model argument (stated, not mechanised): the traversal handles one instance per loop iteration and looks at nothing
but that instance, the head it started from and membership in the set, so a chain of four already shows every position
(head, inner, last) and every neighbourhood; rings and several chains in one set are covered by the same token.
Not decided: data that violates the one-to-one invariant of the association (C02 keeps it), user-defined truth values of
instances.  A construct the evaluator does not know gives ANALYSIS-ERROR, never a verdict.
'''
import ast
import itertools

from ..src import AnalysisError, loc, src

Q = 'xtuml.meta:sort_reflexive'
KIND, REL, RELNUM, P, PQ = 'K', 'R7', 7, 'succeeds', 'precedes'


class _Unknown(Exception):
    pass


class _Raise(Exception):
    def __init__(self, name):
        Exception.__init__(self, name)
        self.name = name


class _NonTerm(Exception):
    pass


class _Return(Exception):
    def __init__(self, value):
        self.value = value


class _Break(Exception):
    pass


class _Continue(Exception):
    pass


class Inst(object):
    def __init__(self, name):
        self.name = name

    def __repr__(self):
        return self.name


class QS(object):
    '''QuerySet / OrderedSet value: ordered, duplicate free (by identity)'''
    def __init__(self, items=(), ty='QuerySet'):
        self.items = []
        self.ty = ty
        for x in items:
            self.add(x)

    def add(self, x):
        if not any(x is y for y in self.items):
            self.items.append(x)

    def __repr__(self):
        return '%s%r' % (self.ty, self.items)


class Link(object):
    def __init__(self, mc_from, mc_to, rel, phrase, table):
        self.from_metaclass, self.to_metaclass, self.rel_id, self.phrase, self.table = mc_from, mc_to, rel, phrase, table
        self.kind = mc_to.kind
        self.many, self.conditional = False, True


class MC(object):
    def __init__(self, kind):
        self.kind = kind
        self.links = {}


class Chain(object):
    '''navigate_one / navigate_any / navigate_many handle'''
    def __init__(self, handle, single, kind=None):
        self.handle, self.single, self.kind = handle, single, kind


class Closure(object):
    def __init__(self, node, env, ev):
        self.node, self.env, self.ev = node, env, ev


class Gen(object):
    def __init__(self, thunk):
        self.thunk, self.items = thunk, None

    def force(self):
        if self.items is None:
            self.items = self.thunk()
        return self.items


class TypeTok(object):
    def __init__(self, name):
        self.name = name


class ExcVal(object):
    def __init__(self, name):
        self.name = name


class Opaque(object):
    '''loggers and the like: anything done with them has no effect on the result'''
    pass


class Bound(object):
    def __init__(self, f):
        self.f = f


class Model(object):
    '''instances, the partner tables of the reflexive association and the class with its links'''
    def __init__(self, succ, decoys_first=True):
        # succ: dict inst -> partner across PQ' (the "next" element); pred is its inverse
        self.mc = MC(KIND)
        self.other = MC('OTHER')
        self.succ = succ
        self.pred = dict((id(v), k) for k, v in succ.items())
        # define_association semantics: navigating from x across phrase `P` gives the partner of x in that direction
        own = [((KIND, REL, P), Link(self.mc, self.mc, REL, P, 'pred')), ((KIND, REL, PQ), Link(self.mc, self.mc, REL, PQ, 'succ'))]
        decoys = [(('OTHER', 'R9', ''), Link(self.mc, self.other, 'R9', '', None)),
                  ((KIND, 'R8', 'zzz'), Link(self.mc, self.mc, 'R8', 'zzz', None)), ((KIND, 'R8', P), Link(self.mc, self.mc, 'R8', P, None))]
        for k, v in (decoys + own if decoys_first else list(reversed(own)) + decoys):
            self.mc.links[k] = v

    def partner(self, inst, table):
        if table == 'succ':
            return self.succ.get(inst)
        if table == 'pred':
            return self.pred.get(id(inst))
        return None

    def navigate(self, inst, kind, rel, phrase):
        if isinstance(rel, int) and not isinstance(rel, bool):
            rel = 'R%d' % rel
        if not isinstance(kind, str) or not isinstance(rel, str):
            raise _Unknown('navigation with a kind / association number that is not a string')
        key = (kind.upper(), rel, phrase)
        if key not in self.mc.links:
            raise _Raise('UnknownLinkException')
        x = self.partner(inst, self.mc.links[key].table)
        return [] if x is None else [x]


class Ev(object):
    def __init__(self, repo, model, budget):
        self.repo, self.model, self.budget, self.steps = repo, model, budget, 0
        self.module = repo.modules['xtuml.meta'].tree
        if getattr(repo, '_c16_exc', None) is None:
            repo._c16_exc = repo.exception_bases()
        self.exc = repo._c16_exc
        self.depth = 0

    # -- helpers ---------------------------------------------------------------------------------------------------
    def tick(self):
        self.steps += 1
        if self.steps > self.budget:
            raise _NonTerm()

    def truth(self, v):
        if isinstance(v, (Inst, MC, Link, Chain, Closure, TypeTok, Opaque, Bound)):
            return True
        if isinstance(v, QS):
            return bool(v.items)
        if isinstance(v, Gen):
            return True
        if v is None or isinstance(v, (bool, int, str, list, tuple, dict, float)):
            return bool(v)
        raise _Unknown('truth value of %r' % (v,))

    def iterate(self, v):
        if isinstance(v, QS):
            return list(v.items)
        if isinstance(v, Gen):
            return list(v.force())
        if isinstance(v, (list, tuple, str)):
            return list(v)
        if isinstance(v, dict):
            return list(v.keys())
        raise _Unknown('iteration over %r' % (v,))

    def is_exc_subclass(self, name, base):
        seen, todo = set(), [name]
        while todo:
            n = todo.pop()
            if n == base:
                return True
            if n in seen:
                continue
            seen.add(n)
            todo += list(self.exc.get(n, ()))
        return base in ('Exception', 'BaseException')

    # -- functions -------------------------------------------------------------------------------------------------
    def call_closure(self, clo, args, kwargs):
        node = clo.node
        a = node.args
        if a.vararg or a.kwarg or a.kwonlyargs or a.posonlyargs:
            raise _Unknown('a signature with * / ** parameters')
        names = [x.arg for x in a.args]
        env = {'__parent__': clo.env}
        defaults = dict(zip(names[len(names) - len(a.defaults):], a.defaults))
        if len(args) > len(names):
            raise _Unknown('too many arguments')
        for n, v in zip(names, args):
            env[n] = v
        for k, v in kwargs.items():
            if k not in names or k in env:
                raise _Unknown('keyword argument %s' % k)
            env[k] = v
        for n in names:
            if n not in env:
                if n not in defaults:
                    raise _Unknown('missing argument %s' % n)
                env[n] = self.expr(defaults[n], clo.env)
        if isinstance(node, ast.Lambda):
            return self.expr(node.body, env)
        if _is_generator(node):
            def thunk():
                out = []
                try:
                    self.block(node.body, env, out)
                except _Return:
                    pass
                return out
            return Gen(thunk)
        self.depth += 1
        if self.depth > 20:
            raise _NonTerm()
        try:
            self.block(node.body, env, None)
        except _Return as r:
            return r.value
        finally:
            self.depth -= 1
        return None

    def call(self, f, args, kwargs):
        if isinstance(f, Closure):
            return self.call_closure(f, args, kwargs)
        if isinstance(f, Bound):
            return f.f(*args, **kwargs)
        if isinstance(f, TypeTok):
            return self.construct(f.name, args, kwargs)
        if isinstance(f, Chain):
            if args or kwargs:
                flt = (args + list(kwargs.values()))[0]
            else:
                flt = None
            res = list(f.handle)
            if flt is not None:
                res = [x for x in res if self.truth(self.call(flt, [x], {}))]
            if f.single:
                return res[0] if res else None
            return QS(res)
        if isinstance(f, Opaque):
            return None
        raise _Unknown('call of %r' % (f,))

    def construct(self, name, args, kwargs):
        if name in ('QuerySet', 'OrderedSet'):
            if kwargs or len(args) > 1:
                raise _Unknown('%s with unusual arguments' % name)
            return QS(self.iterate(args[0]) if args and args[0] is not None else (), name)
        if name in ('list', 'tuple'):
            v = self.iterate(args[0]) if args else []
            return list(v) if name == 'list' else tuple(v)
        if name == 'set' or name == 'frozenset':
            return QS(self.iterate(args[0]) if args else (), 'set')
        if name == 'int':
            if len(args) == 1 and isinstance(args[0], (int, str)):
                try:
                    return int(args[0])
                except ValueError:
                    raise _Raise('ValueError')
            raise _Unknown('int() of %r' % (args,))
        if name == 'str':
            if len(args) == 1 and isinstance(args[0], (int, str)):
                return str(args[0])
            raise _Unknown('str() of %r' % (args,))
        if name == 'bool':
            return self.truth(args[0]) if args else False
        if name == 'dict':
            if not args and not kwargs:
                return {}
        if name in self.exc or name in ('Exception', 'ValueError', 'KeyError', 'TypeError', 'StopIteration'):
            return ExcVal(name)
        raise _Unknown('construction of %s' % name)

    def isinstance_(self, v, t):
        if isinstance(t, tuple):
            return any(self.isinstance_(v, x) for x in t)
        if not isinstance(t, TypeTok):
            raise _Unknown('isinstance against %r' % (t,))
        n = t.name
        if n in ('QuerySet',):
            return isinstance(v, QS) and v.ty == 'QuerySet'
        if n in ('OrderedSet', 'Set', 'MutableSet'):
            return isinstance(v, QS) and v.ty in ('QuerySet', 'OrderedSet')
        if n == 'set':
            return isinstance(v, QS) and v.ty == 'set'
        if n == 'int':
            return isinstance(v, int)
        if n == 'bool':
            return isinstance(v, bool)
        if n in ('str', 'basestring'):
            return isinstance(v, str)
        if n == 'list':
            return isinstance(v, list)
        if n == 'tuple':
            return isinstance(v, tuple)
        if n == 'dict':
            return isinstance(v, dict)
        if n == 'Class':
            return isinstance(v, Inst)
        if n == 'MetaClass':
            return isinstance(v, MC)
        if n == 'Link':
            return isinstance(v, Link)
        if n in ('Iterable',):
            return isinstance(v, (QS, list, tuple, Gen, dict, str))
        raise _Unknown('isinstance(.., %s)' % n)

    # -- names -----------------------------------------------------------------------------------------------------
    def lookup(self, name, env):
        e = env
        while e is not None:
            if name in e:
                return e[name]
            e = e.get('__parent__')
        m = self.model
        if name in ('QuerySet', 'OrderedSet', 'list', 'tuple', 'set', 'frozenset', 'int', 'str', 'bool', 'dict', 'Class', 'MetaClass', 'Link',
                    'basestring') or name in self.exc or name in ('Exception', 'ValueError', 'KeyError', 'TypeError', 'StopIteration'):
            return TypeTok(name)
        if name == 'get_metaclass':
            return Bound(lambda x: self._metaclass_of(x))
        if name in ('navigate_one', 'navigate_any'):
            return Bound(lambda x: Chain(self._handle(x), True))
        if name in ('navigate_many',):
            return Bound(lambda x: Chain(self._handle(x), False))
        if name == 'isinstance':
            return Bound(lambda v, t: self.isinstance_(v, t))
        if name == 'len':
            return Bound(lambda v: len(self.iterate(v)) if not isinstance(v, Gen) else self._unknown('len of a generator'))
        if name == 'filter':
            return Bound(lambda f, it: Gen(lambda: [x for x in self.iterate(it) if self.truth(x if f is None else self.call(f, [x], {}))]))
        if name == 'map':
            return Bound(lambda f, it: Gen(lambda: [self.call(f, [x], {}) for x in self.iterate(it)]))
        if name == 'iter':
            return Bound(lambda it: _Iter(self.iterate(it)))
        if name == 'next':
            return Bound(lambda it, *d: self._next(it, d))
        if name == 'reversed':
            return Bound(lambda it: list(reversed(self.iterate(it))))
        if name == 'enumerate':
            return Bound(lambda it: list(enumerate(self.iterate(it))))
        if name == 'all':
            return Bound(lambda it: all(self.truth(x) for x in self.iterate(it)))
        if name == 'id':
            return Bound(lambda x: id(x))
        if name in ('logger', 'logging', 'warnings'):
            return Opaque()
        if name in ('True', 'False', 'None'):
            return {'True': True, 'False': False, 'None': None}[name]
        for n in self.module.body:
            if isinstance(n, ast.FunctionDef) and n.name == name:
                return Closure(n, None, self)
            if isinstance(n, ast.Assign) and len(n.targets) == 1 and isinstance(n.targets[0], ast.Name) and n.targets[0].id == name:
                try:
                    return ast.literal_eval(n.value)
                except Exception:
                    if isinstance(n.value, ast.Name):
                        return self.lookup(n.value.id, None)
                    raise _Unknown('module-level name %s' % name)
        if name == 'any':
            return Bound(lambda it: any(self.truth(x) for x in self.iterate(it)))
        raise _Unknown('name %s' % name)

    def _unknown(self, what):
        raise _Unknown(what)

    def _next(self, it, d):
        if isinstance(it, Gen):
            it.items = it.force()
            it = _GenIter(it)
        if not isinstance(it, (_Iter, _GenIter)):
            raise _Unknown('next() of %r' % (it,))
        try:
            return it.next()
        except StopIteration:
            if d:
                return d[0]
            raise _Raise('StopIteration')

    def _metaclass_of(self, x):
        if isinstance(x, Inst):
            return self.model.mc
        if isinstance(x, MC):
            return x
        raise _Raise('MetaException')

    def _handle(self, x):
        if x is None:
            return []
        if isinstance(x, Inst):
            return [x]
        if isinstance(x, (QS, list, tuple, Gen)):
            return self.iterate(x)
        raise _Raise('MetaException')

    # -- attributes --------------------------------------------------------------------------------------------------
    def attr(self, v, name):
        m = self.model
        if isinstance(v, QS):
            if name == 'first':
                return v.items[0] if v.items else None
            if name == 'last':
                return v.items[-1] if v.items else None
            if name == 'add':
                return Bound(lambda x: v.add(x))
            if name in ('update',):
                return Bound(lambda it: [v.add(x) for x in self.iterate(it)] and None)
            if name in ('discard', 'remove'):
                def rm(x):
                    had = any(x is y for y in v.items)
                    v.items = [y for y in v.items if y is not x]
                    if name == 'remove' and not had:
                        raise _Raise('KeyError')
                return Bound(rm)
            if name == 'copy':
                return Bound(lambda: QS(v.items, v.ty))
        elif isinstance(v, MC):
            if name == 'kind':
                return v.kind
            if name == 'links':
                return v.links
            if name == 'navigate':
                return Bound(lambda inst, kind, rel, phrase='': QS(m.navigate(inst, kind, rel, phrase)))
            if name in ('navigate_one', 'navigate_any'):
                return Bound(lambda inst, kind, rel, phrase='': (m.navigate(inst, kind, rel, phrase) or [None])[0])
        elif isinstance(v, Link):
            if name in ('rel_id', 'phrase', 'to_metaclass', 'from_metaclass', 'kind', 'many', 'conditional'):
                return getattr(v, name)
            if name == 'navigate':
                return Bound(lambda inst: QS([x for x in [m.partner(inst, v.table)] if x is not None]))
            if name == 'navigate_one':
                return Bound(lambda inst: m.partner(inst, v.table))
        elif isinstance(v, Chain):
            if name == 'nav':
                def nav(kind, rel, phrase=''):
                    out = []
                    for x in v.handle:
                        for y in m.navigate(x, kind, rel, phrase):
                            if not any(y is z for z in out):
                                out.append(y)
                    return Chain(out, v.single)
                return Bound(nav)
            return Chain(v.handle, v.single, kind=name)
        elif isinstance(v, Inst):
            if name == '__metaclass__':
                return m.mc
            if name == '__class__':
                return TypeTok('Class')
        elif isinstance(v, dict):
            if name == 'values':
                return Bound(lambda: list(v.values()))
            if name == 'keys':
                return Bound(lambda: list(v.keys()))
            if name == 'items':
                return Bound(lambda: list(v.items()))
            if name == 'get':
                return Bound(lambda k, d=None: v.get(k, d))
        elif isinstance(v, list):
            if name in ('append', 'extend', 'insert', 'pop', 'index', 'reverse', 'remove', 'count'):
                if name == 'extend':
                    return Bound(lambda it: v.extend(self.iterate(it)))
                return Bound(getattr(v, name))
        elif isinstance(v, str):
            if name in ('upper', 'lower', 'strip', 'startswith', 'endswith', 'format', 'lstrip', 'rstrip', 'isdigit', 'title', 'capitalize'):
                return Bound(getattr(v, name))
        elif isinstance(v, Opaque):
            return Opaque()
        elif isinstance(v, TypeTok) and v.name in ('xtuml', 'meta'):
            return self.lookup(name, None)
        raise _Unknown('attribute .%s of %r' % (name, v))

    # -- expressions -------------------------------------------------------------------------------------------------
    def expr(self, e, env):
        if isinstance(e, ast.Constant):
            return e.value
        if isinstance(e, ast.Name):
            if e.id == 'xtuml':
                return TypeTok('xtuml')
            return self.lookup(e.id, env)
        if isinstance(e, ast.Attribute):
            return self.attr(self.expr(e.value, env), e.attr)
        if isinstance(e, ast.Lambda):
            return Closure(e, env, self)
        if isinstance(e, ast.Call):
            f = self.expr(e.func, env)
            args, kwargs = [], {}
            for a in e.args:
                if isinstance(a, ast.Starred):
                    args += self.iterate(self.expr(a.value, env))
                else:
                    args.append(self.expr(a, env))
            for k in e.keywords:
                if k.arg is None:
                    raise _Unknown('**kwargs in a call')
                kwargs[k.arg] = self.expr(k.value, env)
            try:
                return self.call(f, args, kwargs)
            except TypeError as te:
                raise _Unknown('call %s: %s' % (src(e), te))
        if isinstance(e, ast.BoolOp):
            v = None
            for x in e.values:
                v = self.expr(x, env)
                t = self.truth(v)
                if isinstance(e.op, ast.And) and not t:
                    return v
                if isinstance(e.op, ast.Or) and t:
                    return v
            return v
        if isinstance(e, ast.UnaryOp):
            v = self.expr(e.operand, env)
            if isinstance(e.op, ast.Not):
                return not self.truth(v)
            if isinstance(e.op, ast.USub) and isinstance(v, int):
                return -v
            raise _Unknown('unary operator in %s' % src(e))
        if isinstance(e, ast.IfExp):
            return self.expr(e.body, env) if self.truth(self.expr(e.test, env)) else self.expr(e.orelse, env)
        if isinstance(e, ast.Compare):
            left = self.expr(e.left, env)
            for op, right in zip(e.ops, e.comparators):
                r = self.expr(right, env)
                if not self.compare(op, left, r, e):
                    return False
                left = r
            return True
        if isinstance(e, ast.BinOp):
            l, r = self.expr(e.left, env), self.expr(e.right, env)
            if isinstance(e.op, ast.Mod) and isinstance(l, str):
                if isinstance(r, (int, str)) or (isinstance(r, tuple) and all(isinstance(x, (int, str)) for x in r)):
                    try:
                        return l % r
                    except (TypeError, ValueError):
                        raise _Raise('TypeError')
            if isinstance(e.op, ast.Add):
                if isinstance(l, str) and isinstance(r, str) or isinstance(l, int) and isinstance(r, int) or \
                        isinstance(l, list) and isinstance(r, list) or isinstance(l, tuple) and isinstance(r, tuple):
                    return l + r
            if isinstance(e.op, ast.Sub) and isinstance(l, int) and isinstance(r, int):
                return l - r
            if isinstance(e.op, ast.BitOr) and isinstance(l, QS) and isinstance(r, QS):
                return QS(l.items + r.items, l.ty)
            if isinstance(e.op, ast.Sub) and isinstance(l, QS) and isinstance(r, QS):
                return QS([x for x in l.items if not any(x is y for y in r.items)], l.ty)
            raise _Unknown('operator in %s' % src(e))
        if isinstance(e, (ast.List, ast.Tuple)):
            out = []
            for x in e.elts:
                if isinstance(x, ast.Starred):
                    out += self.iterate(self.expr(x.value, env))
                else:
                    out.append(self.expr(x, env))
            return out if isinstance(e, ast.List) else tuple(out)
        if isinstance(e, ast.Dict):
            d = {}
            for k, v in zip(e.keys, e.values):
                if k is None:
                    raise _Unknown('** in a dict display')
                d[self.hashable(self.expr(k, env))] = self.expr(v, env)
            return d
        if isinstance(e, ast.Subscript):
            v = self.expr(e.value, env)
            if isinstance(v, Chain):
                if v.kind is None:
                    raise _Unknown('chain[..] without a kind')
                k = self.expr(e.slice, env)
                rel, phrase = (k if isinstance(k, tuple) and len(k) == 2 else (k, ''))
                return self.attr(Chain(v.handle, v.single), 'nav').f(v.kind, rel, phrase)
            if isinstance(e.slice, ast.Slice):
                lo = self.expr(e.slice.lower, env) if e.slice.lower else None
                hi = self.expr(e.slice.upper, env) if e.slice.upper else None
                st = self.expr(e.slice.step, env) if e.slice.step else None
                if isinstance(v, (list, tuple, str)):
                    return v[lo:hi:st]
                raise _Unknown('slice of %r' % (v,))
            k = self.expr(e.slice, env)
            if isinstance(v, dict):
                k = self.hashable(k)
                if k not in v:
                    raise _Raise('KeyError')
                return v[k]
            if isinstance(v, (list, tuple, str)) and isinstance(k, int):
                try:
                    return v[k]
                except IndexError:
                    raise _Raise('IndexError')
            raise _Unknown('subscript %s' % src(e))
        if isinstance(e, (ast.ListComp, ast.GeneratorExp, ast.SetComp)):
            def build():
                out = []
                self.comp(e.generators, 0, {'__parent__': env}, lambda en: out.append(self.expr(e.elt, en)))
                return out
            if isinstance(e, ast.GeneratorExp):
                return Gen(build)
            return build() if isinstance(e, ast.ListComp) else QS(build(), 'set')
        if isinstance(e, ast.JoinedStr):
            s = ''
            for x in e.values:
                if isinstance(x, ast.Constant):
                    s += x.value
                else:
                    v = self.expr(x.value, env)
                    if not isinstance(v, (str, int)):
                        raise _Unknown('f-string of %r' % (v,))
                    s += str(v)
            return s
        raise _Unknown('expression %s' % src(e))

    def hashable(self, k):
        if isinstance(k, (str, int, tuple)) or k is None:
            return k
        raise _Unknown('dict key %r' % (k,))

    def comp(self, gens, i, env, emit):
        if i == len(gens):
            emit(env)
            return
        g = gens[i]
        for x in self.iterate(self.expr(g.iter, env)):
            self.tick()
            self.store(g.target, x, env)
            if all(self.truth(self.expr(c, env)) for c in g.ifs):
                self.comp(gens, i + 1, env, emit)

    def compare(self, op, l, r, e):
        if isinstance(op, ast.Is):
            return l is r or (isinstance(l, (bool, type(None))) and l == r and type(l) is type(r))
        if isinstance(op, ast.IsNot):
            return not self.compare(ast.Is(), l, r, e)
        if isinstance(op, (ast.Eq, ast.NotEq)):
            if isinstance(l, (Inst, MC, Link)) or isinstance(r, (Inst, MC, Link)):
                eq = l is r
            elif isinstance(l, QS) and isinstance(r, QS):
                eq = len(l.items) == len(r.items) and all(a is b for a, b in zip(l.items, r.items))
            elif isinstance(l, (str, int, tuple, list, type(None), bool)) and isinstance(r, (str, int, tuple, list, type(None), bool)):
                eq = l == r
            else:
                raise _Unknown('comparison %s' % src(e))
            return eq if isinstance(op, ast.Eq) else not eq
        if isinstance(op, (ast.In, ast.NotIn)):
            if isinstance(r, (QS, list, tuple, Gen)):
                res = any(l is x or (isinstance(l, (str, int, tuple)) and isinstance(x, (str, int, tuple)) and l == x) for x in self.iterate(r))
            elif isinstance(r, dict):
                res = self.hashable(l) in r
            elif isinstance(r, str) and isinstance(l, str):
                res = l in r
            else:
                raise _Unknown('membership %s' % src(e))
            return res if isinstance(op, ast.In) else not res
        if isinstance(l, (int, str)) and isinstance(r, (int, str)) and type(l) is type(r):
            return {ast.Lt: l < r, ast.LtE: l <= r, ast.Gt: l > r, ast.GtE: l >= r}[type(op)]
        raise _Unknown('comparison %s' % src(e))

    # -- statements ------------------------------------------------------------------------------------------------
    def store(self, t, v, env):
        if isinstance(t, ast.Name):
            e = env
            env[t.id] = v
            return
        if isinstance(t, (ast.Tuple, ast.List)):
            vs = self.iterate(v)
            if len(vs) != len(t.elts) or any(isinstance(x, ast.Starred) for x in t.elts):
                raise _Unknown('unpacking in %s' % src(t))
            for x, y in zip(t.elts, vs):
                self.store(x, y, env)
            return
        if isinstance(t, ast.Subscript):
            c = self.expr(t.value, env)
            k = self.expr(t.slice, env)
            if isinstance(c, dict):
                c[self.hashable(k)] = v
                return
            if isinstance(c, list) and isinstance(k, int):
                c[k] = v
                return
        raise _Unknown('store to %s' % src(t))

    def block(self, stmts, env, out):
        for st in stmts:
            self.stmt(st, env, out)

    def stmt(self, st, env, out):
        self.tick()
        if isinstance(st, ast.Expr):
            if isinstance(st.value, ast.Yield):
                if out is None:
                    raise _Unknown('yield outside a generator')
                out.append(self.expr(st.value.value, env) if st.value.value is not None else None)
                return
            if isinstance(st.value, ast.YieldFrom):
                if out is None:
                    raise _Unknown('yield outside a generator')
                out.extend(self.iterate(self.expr(st.value.value, env)))
                return
            if isinstance(st.value, ast.Constant):
                return
            self.expr(st.value, env)
            return
        if isinstance(st, ast.Assign):
            v = self.expr(st.value, env)
            for t in st.targets:
                self.store(t, v, env)
            return
        if isinstance(st, ast.AugAssign):
            cur = self.expr(ast.copy_location(_load(st.target), st.target), env)
            v = self.expr(st.value, env)
            if isinstance(st.op, ast.Add) and (isinstance(cur, list) and isinstance(v, (list, tuple, QS, Gen))):
                cur.extend(self.iterate(v))
                return
            if isinstance(st.op, ast.BitOr) and isinstance(cur, QS):
                for x in self.iterate(v):
                    cur.add(x)
                return
            if isinstance(st.op, (ast.Add, ast.Sub)) and isinstance(cur, int) and isinstance(v, int):
                self.store(st.target, cur + v if isinstance(st.op, ast.Add) else cur - v, env)
                return
            if isinstance(st.op, ast.Add) and isinstance(cur, (str, tuple)) and type(cur) is type(v):
                self.store(st.target, cur + v, env)
                return
            raise _Unknown('augmented assignment %s' % src(st))
        if isinstance(st, ast.If):
            self.block(st.body if self.truth(self.expr(st.test, env)) else st.orelse, env, out)
            return
        if isinstance(st, ast.For):
            broke = False
            for x in self.iterate(self.expr(st.iter, env)):
                self.tick()
                self.store(st.target, x, env)
                try:
                    self.block(st.body, env, out)
                except _Break:
                    broke = True
                    break
                except _Continue:
                    continue
            if not broke:
                self.block(st.orelse, env, out)
            return
        if isinstance(st, ast.While):
            broke = False
            while self.truth(self.expr(st.test, env)):
                self.tick()
                try:
                    self.block(st.body, env, out)
                except _Break:
                    broke = True
                    break
                except _Continue:
                    continue
            if not broke:
                self.block(st.orelse, env, out)
            return
        if isinstance(st, ast.Break):
            raise _Break()
        if isinstance(st, ast.Continue):
            raise _Continue()
        if isinstance(st, ast.Pass):
            return
        if isinstance(st, ast.Return):
            raise _Return(self.expr(st.value, env) if st.value is not None else None)
        if isinstance(st, ast.Raise):
            if st.exc is None:
                raise _Unknown('bare raise')
            v = self.expr(st.exc, env)
            if isinstance(v, TypeTok):
                v = self.construct(v.name, [], {})
            if isinstance(v, ExcVal):
                raise _Raise(v.name)
            raise _Unknown('raise of %r' % (v,))
        if isinstance(st, ast.FunctionDef):
            if st.decorator_list:
                raise _Unknown('a decorated local function')
            env[st.name] = Closure(st, env, self)
            return
        if isinstance(st, ast.Try):
            if st.finalbody:
                raise _Unknown('try / finally')
            try:
                self.block(st.body, env, out)
            except _Raise as r:
                for h in st.handlers:
                    names = []
                    if h.type is None:
                        names = ['BaseException']
                    else:
                        t = self.expr(h.type, env)
                        names = [x.name for x in (t if isinstance(t, tuple) else (t,)) if isinstance(x, TypeTok)]
                    if any(self.is_exc_subclass(r.name, n) for n in names):
                        if h.name:
                            env[h.name] = ExcVal(r.name)
                        self.block(h.body, env, out)
                        return
                raise
            else:
                self.block(st.orelse, env, out)
            return
        if isinstance(st, ast.Assert):
            if not self.truth(self.expr(st.test, env)):
                raise _Raise('AssertionError')
            return
        if isinstance(st, ast.Delete):
            for t in st.targets:
                if isinstance(t, ast.Name) and t.id in env:
                    del env[t.id]
                else:
                    raise _Unknown('del %s' % src(t))
            return
        raise _Unknown('statement %s' % src(st).splitlines()[0])


class _Iter(object):
    def __init__(self, items):
        self.items, self.i = items, 0

    def next(self):
        if self.i >= len(self.items):
            raise StopIteration
        self.i += 1
        return self.items[self.i - 1]


class _GenIter(_Iter):
    def __init__(self, gen):
        if not hasattr(gen, '_pos'):
            gen._pos = 0
        self.gen = gen

    def next(self):
        if self.gen._pos >= len(self.gen.items):
            raise StopIteration
        self.gen._pos += 1
        return self.gen.items[self.gen._pos - 1]


def _load(t):
    t2 = ast.parse(src(t), mode='eval').body
    return t2


def _is_generator(fn):
    todo = list(fn.body)
    while todo:
        n = todo.pop()
        if isinstance(n, (ast.Yield, ast.YieldFrom)):
            return True
        if isinstance(n, (ast.FunctionDef, ast.Lambda, ast.ClassDef)):
            continue
        todo += list(ast.iter_child_nodes(n))
    return False


# -- models ----------------------------------------------------------------------------------------------------------------
def _chain_partitions(items):
    '''every way to arrange `items` into a set of ordered chains (each arrangement once)'''
    items = list(items)
    if not items:
        yield []
        return
    first, rest = items[0], items[1:]
    # the chain containing `first`: choose the other members (a subset of rest) and an order of the whole chain
    for k in range(len(rest) + 1):
        for others in itertools.combinations(rest, k):
            remaining = [x for x in rest if x not in others]
            for order in itertools.permutations((first,) + others):
                for tail in _chain_partitions(remaining):
                    yield [list(order)] + tail


def _succ_of(chains, rings=()):
    succ = {}
    for c in chains:
        for a, b in zip(c, c[1:]):
            succ[a] = b
    for c in rings:
        for a, b in zip(c, c[1:] + c[:1]):
            succ[a] = b
    return succ


def _run(repo, fn, model, set_value, rel, phrase, budget):
    ev = Ev(repo, model, budget)
    clo = Closure(fn, None, ev)
    try:
        res = ev.call_closure(clo, [set_value, rel, phrase], {})
    except _Raise as r:
        return ('raise', r.name, ev.steps)
    except _NonTerm:
        return ('nonterm', None, ev.steps)
    except RecursionError:
        return ('nonterm', None, ev.steps)
    if isinstance(res, Gen):
        try:
            res = QS(res.force())
        except _Raise as r:
            return ('raise', r.name, ev.steps)
        except _NonTerm:
            return ('nonterm', None, ev.steps)
    return ('return', res, ev.steps)


def _expected_ok(result, chains, phrase):
    '''each chain contiguous, from the member without a partner across `phrase`, along the opposite phrase; every member once'''
    names = [x.name for x in result]
    want_members = sorted(x.name for c in chains for x in c)
    if sorted(names) != want_members:
        return False
    for c in chains:
        seq = [x.name for x in c]
        if phrase == P:
            pass            # across P ('succeeds' leads to the predecessor): the head has no predecessor, walk along succ
        else:
            seq = list(reversed(seq))
        i = names.index(seq[0])
        if names[i:i + len(seq)] != seq:
            return False
    return True


def run(ctx):
    repo = ctx.repo
    fn = repo.func(Q)
    state = {'unknown': None}

    def go(model, sv, rel, phrase, budget):
        try:
            return _run(repo, fn, model, sv, rel, phrase, budget)
        except _Unknown as u:
            raise AnalysisError('%s: sort_reflexive uses %s, which the evaluator of the traversal scheme does not know' % (loc(fn), u))

    ctx.guard(_chains, ctx, fn, go)
    ctx.guard(_rings, ctx, fn, go)
    ctx.guard(_empty, ctx, fn, go)
    ctx.guard(_term, ctx, fn, go)
    ctx.guard(_links, ctx, fn, go)
    ctx.assume('the association is one-to-one (each instance has at most one partner per direction): kept by Link.connect, decided under C02')
    ctx.assume('instances are truthy and compared by identity (xtuml.meta.Class defines neither __bool__, __len__ nor __eq__)')
    ctx.assume('small-model argument: one loop iteration handles one instance and reads only that instance, the head it started from and '
               'membership in the set; chains / rings of up to four members show every position and neighbourhood')
    return ('The source of sort_reflexive is executed by an evaluator of the Python subset it is written in over abstract models of a '
            'reflexive one-to-one association (symbolic instances, navigation = table look-up, QuerySet = ordered duplicate-free list): '
            'all arrangements of up to four instances into chains with every order of the set, rings of up to four members, both phrases, '
            'association number as string and integer, subsets for termination (loop iterations are counted against a budget), decoy '
            'links in both dictionary orders.  Nothing of the repository runs.')


def _chk(r, ok, what, fn, key, msg):
    """one finding per key: the first failing model is the witness, further models failing the same way add nothing"""
    seen = r.__dict__.setdefault('_bad_keys', set())
    if not ok and key in seen:
        return
    if not ok:
        seen.add(key)
    r.check(ok, what, fn, construct=Q, key=key, msg=msg)


def _budget(n):
    return 400 + 250 * n


def _describe(chains, order, phrase, rel):
    return 'chains %s, set order %s, across %r (%r)' % (chains, order, phrase, rel)


def _chains(ctx, fn, go):
    r = ctx.rule('C16-CHAINS', 'whole chains: every member once, each chain contiguous from its head along the opposite phrase', floor=300,
                 oracle='property statement')
    for n in (1, 2, 3, 4):
        insts = [Inst('i%d' % k) for k in range(n)]
        for chains in _chain_partitions(insts):
            model = Model(_succ_of(chains))
            for order in itertools.permutations(insts):
                for phrase in (P, PQ):
                    rel = REL if (len(order) + (phrase == P)) % 2 else RELNUM
                    kind, res, steps = go(model, QS(order), rel, phrase, _budget(n))
                    ok = kind == 'return' and isinstance(res, QS) and res.ty == 'QuerySet' and _expected_ok(res.items, chains, phrase)
                    got = res.items if kind == 'return' and isinstance(res, QS) else (kind, res)
                    _chk(r, ok, 'sorted as the succession order: ' + _describe(chains, list(order), phrase, rel), fn,
                         'chains %s' % ('given' if phrase == P else 'opposite'),
                         'sort_reflexive on %s gives %s: not every member exactly once with each chain contiguous from the member that '
                                'has no partner across the phrase' % (_describe(chains, list(order), phrase, rel), got))


def _rings(ctx, fn, go):
    r = ctx.rule('C16-RING', 'a closed ring is returned once around, starting at the first member of the set', floor=40, oracle='property statement')
    for n in (1, 2, 3, 4):
        insts = [Inst('i%d' % k) for k in range(n)]
        for ring in set(tuple(p) for p in itertools.permutations(insts) if p[0] is insts[0]):
            ring = list(ring)
            model = Model(_succ_of([], [ring]))
            for order in itertools.permutations(insts):
                for phrase in (P, PQ):
                    kind, res, steps = go(model, QS(order), REL, phrase, _budget(n))
                    i = ring.index(order[0])
                    want = ring[i:] + ring[:i]
                    if phrase == PQ:
                        want = [want[0]] + list(reversed(want[1:]))
                    ok = kind == 'return' and isinstance(res, QS) and [x.name for x in res.items] == [x.name for x in want]
                    got = res.items if kind == 'return' and isinstance(res, QS) else (kind, res)
                    _chk(r, ok, 'ring %s, set order %s, across %r: once around from %s' % (ring, list(order), phrase, order[0]), fn,
                         'ring %s' % ('given' if phrase == P else 'opposite'),
                         'sort_reflexive on the closed ring %s (set order %s, across %r) gives %s, expected %s' % (ring, list(order), phrase, got, want))


def _empty(ctx, fn, go):
    r = ctx.rule('C16-EMPTY', 'empty set -> empty result; a collection that is not a QuerySet is rejected', floor=3, oracle='property statement')
    model = Model({})
    for phrase in (P, PQ):
        kind, res, steps = go(model, QS(()), REL, phrase, 200)
        r.check(kind == 'return' and isinstance(res, QS) and not res.items, 'empty set sorted across %r is empty' % phrase, fn, construct=Q, key='empty',
                msg='sort_reflexive on an empty set ends with %s %s' % (kind, res))
    a = Inst('i0')
    kind, res, steps = go(Model({}), [a], REL, P, 200)
    r.check(kind == 'raise' and res == 'MetaException', 'a plain list is rejected with MetaException', fn, construct=Q, key='not-a-queryset',
            msg='sort_reflexive on a plain list ends with %s %s' % (kind, res))


def _term(ctx, fn, go):
    r = ctx.rule('C16-TERM', 'termination within a step budget on subsets of chains, subsets of rings and mixed sets', floor=100, oracle='property statement')
    n = 4
    insts = [Inst('i%d' % k) for k in range(n)]
    shapes = []
    for chains in _chain_partitions(insts):
        shapes.append((chains, []))
    for k in range(1, n + 1):
        ring, rest = insts[:k], insts[k:]
        for chains in _chain_partitions(rest):
            shapes.append((chains, [ring]))
    shapes.append(([], [insts[:2], insts[2:]]))
    for chains, rings in shapes:
        model = Model(_succ_of(chains, rings))
        for k in range(1, n + 1):
            for subset in itertools.combinations(insts, k):
                for order in ((subset, tuple(reversed(subset))) if ctx.thorough() else (subset if k % 2 else tuple(reversed(subset)),)):
                    for phrase in (P, PQ):
                        kind, res, steps = go(model, QS(order), REL, phrase, _budget(n))
                        ok = kind != 'nonterm'
                        _chk(r, ok, 'terminates: chains %s rings %s set %s across %r' % (chains, rings, list(order), phrase), fn, 'termination',
                             'sort_reflexive does not terminate (more than %d evaluation steps for four instances) on chains %s rings %s, '
                                    'set %s, across %r' % (_budget(n), chains, rings, list(order), phrase))
                        if ok and kind == 'return' and isinstance(res, QS):
                            inside = all(any(x is y for y in order) for x in res.items)
                            _chk(r, inside, 'only members of the given set are returned', fn, 'members-only',
                                 'sort_reflexive returns %s for the set %s (chains %s rings %s): instances outside the set' % (res.items, list(order), chains, rings))


def _links(ctx, fn, go):
    r = ctx.rule('C16-LINKS', 'the opposite phrase is taken from the link of the same association, whatever else the class is linked to', floor=4,
                 oracle='property statement (a class may take part in several associations, reflexive ones included)')
    insts = [Inst('i%d' % k) for k in range(3)]
    chains = [insts]
    for decoys_first in (True, False):
        model = Model(_succ_of(chains), decoys_first)
        for phrase in (P, PQ):
            kind, res, steps = go(model, QS(reversed(insts)), REL, phrase, _budget(3))
            ok = kind == 'return' and isinstance(res, QS) and _expected_ok(res.items, chains, phrase)
            r.check(ok, 'decoy links %s the links of R7: sorted across %r' % ('before' if decoys_first else 'after', phrase), fn, construct=Q, key='decoys',
                    msg='with other links %s the two links of the association in the dictionary, sort_reflexive across %r ends with %s %s'
                        % ('before' if decoys_first else 'after', phrase, kind, res.items if isinstance(res, QS) else res))
