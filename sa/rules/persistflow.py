'''
What each serialize_* / persist_* route of xtuml.persist emits for a small symbolic model (two classes with two unique
identifiers each, two associations, two instances), obtained by abstract execution: the items written, in order,
whatever the spelling of the loops, comprehensions, joins and string building.

   item = ('class', K) | ('assoc', A) | ('inst', I) | ('index', <metaclass>, <index name>, <class expr>, <attribute list expr>)
'''
import ast

from ..src import AnalysisError, loc, src, param_names
from .. import pm, absint, emit, normal

P = 'xtuml.persist:'
CLASSES = ['K1', 'K2']


def N(x):
    return ast.Name(id=x, ctx=ast.Load())


class Flow(object):
    def __init__(self, repo):
        self.repo = repo
        self.cache = {}
        self.notes = {}

    # -- the symbolic model ------------------------------------------------------------------------------
    def iters(self, M):
        mcs = M + '.metaclasses'

        def keys(e, s, tr):
            return [absint.Sym(N(k)) for k in CLASSES]

        def values(e, s, tr):
            return [absint.Sym(N('MC_' + k)) for k in CLASSES]

        def items(e, s, tr):
            return [absint.Sym((N(k), N('MC_' + k))) for k in CLASSES]

        def assocs(sorted_):
            def f(e, s, tr):
                tr.append(('assoc-order', src(e['_K']) if '_K' in e else None))
                return [absint.Sym(N('A1')), absint.Sym(N('A2'))]
            return f

        def insts(e, s, tr):
            return [absint.Sym(N('I1')), absint.Sym(N('I2'))]

        def indices(e, s, tr):
            m = src(e['_MC'])
            if not m.startswith('MC_'):
                return None
            return [absint.Sym((N('IDX_%s_%d' % (m, k)), N('ATTRS_%s_%d' % (m, k)))) for k in (1, 2)]
        return [('sorted(%s.keys())' % mcs, keys), ('sorted(%s)' % mcs, keys), ('sorted(list(%s.keys()))' % mcs, keys),
                ('%s.values()' % mcs, values), ('%s.items()' % mcs, items), ('sorted(%s.items())' % mcs, items),
                ('sorted(%s.associations, key=_K)' % M, assocs(True)), ('%s.associations' % M, assocs(False)),
                ('%s.instances' % M, insts), ('_MC.indices.items()', indices), ('sorted(_MC.indices.items())', indices)]

    def rewrite(self, M):
        def rw(expr, state):
            class R(ast.NodeTransformer):
                def visit_Subscript(s2, n):
                    s2.generic_visit(n)
                    if src(n.value) == M + '.metaclasses' and isinstance(n.slice, ast.Name) and n.slice.id in CLASSES:
                        return ast.copy_location(N('MC_' + n.slice.id), n)
                    return n
            return R().visit(expr)
        return rw

    # -- emission of one route ---------------------------------------------------------------------------
    def emission(self, name):
        '''-> list of emit pieces written / returned by xtuml.persist.<name>(metamodel, ...)'''
        if name in self.cache:
            return self.cache[name]
        fn = self.repo.func(P + name)
        M = param_names(fn, skip_self=False)[0]
        written = []

        def fwrite(e, s, tr):
            written.append(self.text(e['_S'], it, s, tr, M))
            return True
        it = absint.Interp(fn, [], [('_F.write(_S)', fwrite)], iters=self.iters(M))
        it.pure_calls = {'serialize_class', 'serialize_association', 'serialize_instance', 'serialize_value', 'serialize_classes',
                         'serialize_associations', 'serialize_schema', 'serialize_instances', 'serialize_unique_identifiers',
                         'serialize_database', 'get_metaclass', 'open'}
        it.rewrite = self.rewrite(M)
        state = {}
        out, tr = it.run(state)
        seq = []
        for w in written:
            seq.extend(w)
        if out.kind == 'return' and out.value is not None and not (isinstance(out.value, ast.Constant) and out.value.value is None):
            seq.extend(self.text(out.value, it, state, tr, M))
        # merge literals
        merged = []
        for p_ in seq:
            if p_[0] == 'lit' and merged and merged[-1][0] == 'lit':
                merged[-1] = ('lit', merged[-1][1] + p_[1])
            elif not (p_[0] == 'lit' and p_[1] == ''):
                merged.append(p_)
        self.notes[name] = [t for t in tr if isinstance(t, tuple) and t and t[0] in ('assoc-order', 'with')]
        self.cache[name] = merged
        return merged

    def text(self, expr, it, state, tr, M):
        '''pieces of a text expression; ''.join(..) of displays and comprehensions is unrolled, routes called are expanded'''
        me = self

        def rec(e):
            e = it.subst(e, state)
            if isinstance(e, ast.Call) and isinstance(e.func, ast.Attribute) and e.func.attr == 'join' and isinstance(e.func.value, ast.Constant) \
                    and e.func.value.value == '' and len(e.args) == 1:
                a = e.args[0]
                if isinstance(a, (ast.List, ast.Tuple)):
                    out = []
                    for x in a.elts:
                        out.extend(rec(x))
                    return out
                if isinstance(a, (ast.ListComp, ast.GeneratorExp)):
                    elts = it.expand_comprehension(a, state, tr)
                    if elts is None:
                        raise AnalysisError('%s: comprehension `%s` not understood' % (loc(expr), src(a)[:80]))
                    out = []
                    for x in elts:
                        out.extend(rec(x))
                    return out
            if isinstance(e, ast.BinOp) and isinstance(e.op, ast.Add):
                return rec(e.left) + rec(e.right)
            if isinstance(e, ast.Call) and isinstance(e.func, ast.Name) and e.func.id in ('serialize_classes', 'serialize_associations', 'serialize_schema',
                                                                                       'serialize_instances', 'serialize_unique_identifiers',
                                                                                       'serialize_database') and len(e.args) == 1 and src(e.args[0]) == M:
                return list(me.emission(e.func.id))
            out = []
            for p_ in emit.flatten(e):
                # '%s%s' % (a, b), str.format(..): the holes are texts of their own
                if p_[0] == 'hole' and p_[1] is not e and (len(p_) < 3 or p_[2] == 's') and isinstance(p_[1], (ast.Call, ast.BinOp)):
                    out.extend(rec(p_[1]))
                else:
                    out.append(p_)
            return out
        return rec(expr)

    # -- items ------------------------------------------------------------------------------------------
    def items(self, name):
        seq = self.emission(name)
        out = []
        i = 0
        while i < len(seq):
            p_ = seq[i]
            if p_[0] == 'hole':
                e = p_[1]
                m = pm.match('serialize_class(_C.clazz)', e)
                if m and src(m['_C']).startswith('MC_'):
                    out.append(('class', src(m['_C'])[3:]))
                    i += 1
                    continue
                m = pm.match('serialize_association(_A)', e)
                if m:
                    out.append(('assoc', src(m['_A'])))
                    i += 1
                    continue
                m = pm.match('serialize_instance(_I)', e)
                if m:
                    out.append(('inst', src(m['_I'])))
                    i += 1
                    continue
                out.append(('other', src(e)))
                i += 1
                continue
            if p_[1] == 'CREATE UNIQUE INDEX ' and i + 6 < len(seq) and [x[0] for x in seq[i:i + 7]] == ['lit', 'hole', 'lit', 'hole', 'lit', 'hole', 'lit'] \
                    and seq[i + 2][1] == ' ON ' and seq[i + 4][1] == ' (' and seq[i + 6][1].startswith(');\n'):
                idx, cls, attrs = seq[i + 1][1], seq[i + 3][1], seq[i + 5][1]
                out.append(('index', src(idx), src(cls), src(attrs)))
                rest = seq[i + 6][1][len(');\n'):]
                i += 7
                if rest:
                    seq = seq[:i] + [('lit', rest)] + seq[i:]
                continue
            out.append(('text', p_[1]))
            i += 1
        return out
