'''
C18 - One loader builds independent metamodels.

  C18-ESCAPE   every mutable statement field handed to the metamodel API is either copied by the callee or stored in a
               field that nothing in the repository mutates in place; metamodel containers are created fresh
  C18-FRESH    no metamodel-derived state is kept on the loader; no mutable class-level values or mutable defaults
  C18-STMT-RO  populate_* only read the statement objects
'''
import ast

from ..src import AnalysisError, loc, src, dotted, call_attr, param_names, body_without_doc, walk_local, qualname, bind_call
from .. import pm
from .c12 import MUTATORS, _self_stores

LD = 'xtuml.load:ModelLoader'
MUTABLE_CTORS = ('list', 'dict', 'set', 'collections.deque', 'xtuml.OrderedSet', 'OrderedSet')


def run(ctx):
    ctx.guard(escape, ctx)
    ctx.guard(fresh, ctx)
    ctx.guard(stmt_ro, ctx)
    ctx.guard(reiterable, ctx)
    from . import c10 as _c10
    ctx.shared(_c10.typecase, ctx, ['xtuml.meta'], 'C10-TYPECASE')
    from . import c12 as _c12
    ctx.shared(_c12.atomic, ctx)       # what a rejected input leaves in the loader shows up in every later build
    ctx.guard(clone_rule, ctx)
    ctx.assume('user code that mutates Association.source_keys / target_keys in place is outside the listed changes')
    return ('Escape classification of every statement-field argument in the populate_* passes (copied vs stored by reference, '
            'one call level deep), repository-wide scan for in-place mutators of reference-stored fields, freshness of every '
            'container field of MetaModel/MetaClass/Association/Link, scan for shared mutable class attributes and defaults.')


ONE_SHOT = {'filter', 'map', 'zip', 'iter', 'reversed', 'enumerate', 'itertools.chain', 'itertools.islice', 'itertools.filterfalse',
            'itertools.starmap', 'itertools.takewhile', 'itertools.dropwhile', 'itertools.zip_longest', 'chain', 'islice'}


def _one_shot(e):
    if isinstance(e, ast.GeneratorExp):
        return 'a generator expression'
    if isinstance(e, ast.Call) and dotted(e.func) in ONE_SHOT:
        return '%s(...)' % dotted(e.func)
    return None


def reiterable(ctx):
    '''the statement objects and loader fields are re-read by EVERY build: none of them may hold a one-shot iterator (filter / map / zip /
    generator ...), which the first build would exhaust, leaving later builds without that part of the input'''
    from .common import resolve_locals
    repo = ctx.repo
    r = ctx.rule('C18-REITER', 'data kept by the loader and its statements can be read any number of times (no one-shot iterators)', floor=20,
                 oracle='each build contains exactly the input accepted up to it')
    n = 0
    for cls in repo.classes('xtuml.load'):
        for m in cls.body:
            if not isinstance(m, ast.FunctionDef):
                continue
            for st in ast.walk(m):
                if not isinstance(st, (ast.Assign, ast.AugAssign)):
                    continue
                targets = st.targets if isinstance(st, ast.Assign) else [st.target]
                for t in targets:
                    if isinstance(t, ast.Attribute) and isinstance(t.value, ast.Name) and t.value.id == 'self':
                        n += 1
                        v = resolve_locals(m, st.value, pure_only=False)
                        what = _one_shot(v) or _one_shot(st.value)
                        q = 'xtuml.load:%s.%s' % (cls.name, m.name)
                        r.check(what is None, '%s: self.%s holds re-readable data' % (q.split(':')[1], t.attr), st, construct=q, key='one-shot ' + t.attr,
                                msg='%s stores %s in self.%s: the first build_metamodel() exhausts it, every later build from the same loader '
                                    'sees it empty' % (q, what, t.attr))
    # grammar actions hand their values to the statement constructors
    for cls in repo.classes('xtuml.load'):
        for m in cls.body:
            if isinstance(m, ast.FunctionDef) and m.name.startswith('p_'):
                for st in ast.walk(m):
                    if isinstance(st, ast.Assign) and any(src(t) == 'p[0]' for t in st.targets):
                        n += 1
                        bad = [_one_shot(x) for x in ast.walk(st.value) if _one_shot(x)]
                        r.check(not bad, '%s builds re-readable data' % m.name, st, construct='xtuml.load:%s.%s' % (cls.name, m.name), key='one-shot p[0]',
                                msg='%s puts %s into the parse result, which is kept in loader.statements and read by every build' % (
                                    m.name, bad[0] if bad else ''))
    probe = ast.parse('self.attributes = filter(None, attributes)').body[0]
    r.check(_one_shot(probe.value) is not None, 'detector self-test: filter(...) is recognised as one-shot', probe, construct='C18-REITER:probe', key='probe',
            msg='the one-shot detector no longer recognises its positive example')


def clone_rule(ctx):
    '''cloning an instance of another build creates the copy in THIS metamodel: the class is looked up here, by its (case-insensitive) kind'''
    repo = ctx.repo
    r = ctx.rule('C18-CLONE', 'MetaModel.clone creates the copy in the receiving metamodel', floor=1, oracle='an operation on one metamodel never changes another')
    from .common import resolve_locals
    mc = repo.nfunc('xtuml.meta:MetaModel.clone')
    P = param_names(mc)[0]
    rets = [resolve_locals(mc, n.value, pure_only=False) for n in ast.walk(mc) if isinstance(n, ast.Return) and n.value is not None]
    ok = len(rets) == 1 and (pm.match('self.find_metaclass(get_metaclass(%s).kind).clone(%s)' % (P, P), rets[0]) is not None or
                             pm.match('self.find_metaclass(xtuml.get_metaclass(%s).kind).clone(%s)' % (P, P), rets[0]) is not None)
    r.check(ok, 'the class is resolved with self.find_metaclass(kind of the source)', mc, construct='xtuml.meta:MetaModel.clone', key='mm-clone',
            msg='MetaModel.clone returns `%s`; it must clone into self.find_metaclass(get_metaclass(%s).kind): any other lookup (a raw dictionary '
                'access misses mixed-case kinds) falls back to the class of the OTHER metamodel and the copy is created there' % (
                    src(rets[0])[:90] if rets else None, P))


def _mutable_stmt_fields(repo):
    '''(StmtClass, field) whose value is a list built by the parser'''
    from . import lexrules
    g = lexrules.grammar_of(repo, LD)
    list_syms = set()
    for p in g.productions:
        for st in body_without_doc(p.fn):
            if pm.match('p[0] = []', st) is not None or pm.match('p[0] = list()', st) is not None or pm.match('p[0] = [p[1]]', st) is not None:
                list_syms.add(p.head)
    out = {}
    for c in repo.classes('xtuml.load'):
        if not any(dotted(b) == 'Stmt' for b in c.bases):
            continue
        init = repo.methods(c).get('__init__')
        if init is None:
            continue
        params = param_names(init)
        for p in g.productions:
            for st in body_without_doc(p.fn):
                m = pm.match('p[0] = %s(_A, _B)' % c.name, st) or pm.match('p[0] = %s(_A, _B, _C)' % c.name, st)
                if m:
                    args = [m[k] for k in ('_A', '_B', '_C') if k in m]
                    for i, a in enumerate(args):
                        mm = pm.match('p[_I]', a)
                        if mm and isinstance(mm['_I'], ast.Constant) and p.syms[mm['_I'].value - 1] in list_syms:
                            out[(c.name, params[i])] = p.syms[mm['_I'].value - 1]
        if c.name == 'CreateAssociationStmt':
            out[(c.name, 'source_keys')] = 'identifier_sequence'
            out[(c.name, 'target_keys')] = 'identifier_sequence'
    return out


def _param_uses(fn, p):
    '''how does fn use parameter p?  list of (kind, detail, node)'''
    uses = []
    for n in ast.walk(fn):
        if isinstance(n, ast.Assign):
            if isinstance(n.value, ast.Name) and n.value.id == p:
                for t in n.targets:
                    if isinstance(t, ast.Attribute):
                        uses.append(('store', src(t), n))
                    elif isinstance(t, ast.Subscript):
                        uses.append(('store', src(t), n))
        if isinstance(n, ast.Call):
            for i, a in enumerate(n.args):
                if isinstance(a, ast.Name) and a.id == p:
                    name = call_attr(n)
                    if name in ('append', 'add', 'insert', 'extend') and isinstance(n.func, ast.Attribute):
                        uses.append(('store' if name != 'extend' else 'copy', src(n.func.value), n))
                    elif dotted(n.func) in ('tuple', 'list', 'set', 'frozenset', 'dict', 'zip', 'sorted', 'len', 'enumerate', 'str'):
                        uses.append(('copy', dotted(n.func), n))
                    else:
                        uses.append(('pass', (dotted(n.func) or src(n.func), i), n))
                if isinstance(a, ast.Starred) and isinstance(a.value, ast.Name) and a.value.id == p:
                    uses.append(('copy', '*args', n))
            for kw in n.keywords:
                if isinstance(kw.value, ast.Name) and kw.value.id == p:
                    uses.append(('pass', (dotted(n.func) or src(n.func), kw.arg), n))
        if isinstance(n, (ast.For, ast.comprehension)) and isinstance(n.iter, ast.Name) and n.iter.id == p:
            uses.append(('copy', 'iteration', n))
        if isinstance(n, ast.Call) and isinstance(n.func, ast.Attribute) and isinstance(n.func.value, ast.Name) \
                and n.func.value.id == p and n.func.attr in MUTATORS:
            uses.append(('mutate', n.func.attr, n))
    return uses


def _resolve_callee(repo, name):
    table = {'Association': 'xtuml.meta:Association.__init__', 'Link': 'xtuml.meta:Link.__init__', 'MetaClass': 'xtuml.meta:MetaClass.__init__'}
    if name in table:
        return repo.func(table[name])
    short = name.split('.')[-1]
    for q in ('xtuml.meta:MetaClass.' + short, 'xtuml.meta:MetaModel.' + short, 'xtuml.load:ModelLoader.' + short):
        fn = repo.func(q, required=False)
        if fn is not None:
            return fn
    return None


def escape(ctx):
    repo = ctx.repo
    r = ctx.rule('C18-ESCAPE', 'mutable statement data is copied or stored where nothing mutates it; metamodel containers are fresh', floor=14,
                 oracle='ownership: Stmt objects are shared by every build of the loader')
    mfields = _mutable_stmt_fields(repo)
    if len(mfields) < 5:
        raise AnalysisError('mutable statement fields not derivable (%s)' % sorted(mfields))
    ref_stored = {}
    stmt_of = {'populate_classes': 'CreateClassStmt', 'populate_associations': 'CreateAssociationStmt',
               'populate_unique_identifiers': 'CreateUniqueStmt', 'populate_instances': 'CreateInstanceStmt'}
    for pname, scls in stmt_of.items():
        fn = repo.func(LD + '.' + pname)
        for n in ast.walk(fn):
            if not isinstance(n, ast.Call):
                continue
            for i, a in enumerate(n.args):
                star = isinstance(a, ast.Starred)
                v = a.value if star else a
                if isinstance(v, ast.Attribute) and isinstance(v.value, ast.Name) and v.value.id == 'stmt' and (scls, v.attr) in mfields:
                    q = LD + '.' + pname
                    if star:
                        r.ok('%s passes *stmt.%s (tuple copy)' % (pname, v.attr), n, construct=q + '|' + v.attr)
                        continue
                    callee = _resolve_callee(repo, call_attr(n) or '')
                    if callee is None:
                        r.info('%s: callee of `%s` not resolved' % (pname, src(n)[:60]), n)
                        continue
                    ps = param_names(callee)
                    if i >= len(ps):
                        continue
                    _classify(repo, r, callee, ps[i], '%s: stmt.%s -> %s(%s)' % (pname, v.attr, callee.name, ps[i]), n, q, ref_stored, depth=0)
    # _populate_matching_class / instance population receive the whole stmt: checked by C18-STMT-RO
    # reference-stored fields must have no in-place mutator anywhere
    for field, where in sorted(ref_stored.items()):
        attr = field.split('.')[-1]
        hits = []
        for modname, mod in repo.modules.items():
            for n in ast.walk(mod.tree):
                if isinstance(n, ast.Call) and isinstance(n.func, ast.Attribute) and n.func.attr in MUTATORS \
                        and isinstance(n.func.value, ast.Attribute) and n.func.value.attr == attr:
                    hits.append(n)
                if isinstance(n, ast.AugAssign) and isinstance(n.target, ast.Attribute) and n.target.attr == attr:
                    hits.append(n)
                if isinstance(n, (ast.Assign, ast.Delete)):
                    for t in (n.targets if hasattr(n, 'targets') else []):
                        if isinstance(t, ast.Subscript) and isinstance(t.value, ast.Attribute) and t.value.attr == attr:
                            hits.append(n)
            # the same through a local alias: a name bound (by assignment, or as the target of a loop over a literal collection)
            # to <x>.<attr> and then mutated in place
            for fn_ in [x for x in ast.walk(mod.tree) if isinstance(x, ast.FunctionDef)]:
                aliases = set()
                for n in ast.walk(fn_):
                    if isinstance(n, ast.Assign) and isinstance(n.value, ast.Attribute) and n.value.attr == attr:
                        aliases |= {t.id for t in n.targets if isinstance(t, ast.Name)}
                    if isinstance(n, (ast.For, ast.comprehension)) and isinstance(n.iter, (ast.Tuple, ast.List)):
                        for el in n.iter.elts:
                            parts = el.elts if isinstance(el, (ast.Tuple, ast.List)) else [el]
                            tg = n.target.elts if isinstance(n.target, (ast.Tuple, ast.List)) and isinstance(el, (ast.Tuple, ast.List)) else [n.target]
                            for t_, v_ in zip(tg, parts):
                                if isinstance(t_, ast.Name) and isinstance(v_, ast.Attribute) and v_.attr == attr:
                                    aliases.add(t_.id)
                if not aliases:
                    continue
                for n in ast.walk(fn_):
                    if isinstance(n, ast.Call) and isinstance(n.func, ast.Attribute) and n.func.attr in MUTATORS and \
                            isinstance(n.func.value, ast.Name) and n.func.value.id in aliases:
                        hits.append(n)
                    if isinstance(n, ast.AugAssign) and isinstance(n.target, (ast.Name, ast.Subscript)) and \
                            isinstance(getattr(n.target, 'value', n.target), ast.Name) and getattr(n.target, 'value', n.target).id in aliases:
                        hits.append(n)
                    if isinstance(n, (ast.Assign, ast.Delete)):
                        for t in n.targets:
                            if isinstance(t, ast.Subscript) and isinstance(t.value, ast.Name) and t.value.id in aliases:
                                hits.append(n)
        r.check(not hits, '%s aliases the loader\'s statement data and is never mutated in place' % field, where, construct=field, key='mutated-alias',
                msg='%s is stored by reference from a statement shared by all builds, and `%s` mutates it in place: a change made through '
                    'one metamodel shows up in the others' % (field, src(hits[0])[:80] if hits else ''))
    # containers of the metamodel objects are created in __init__, not taken from arguments
    for clsname, fields in (('MetaModel', ['metaclasses', 'associations']),
                            ('MetaClass', ['attributes', 'referential_attributes', 'identifying_attributes', 'indices', 'links', 'storage']),
                            ('Link', ['key_map'])):
        init = repo.func('xtuml.meta:%s.__init__' % clsname)
        for f in fields:
            vals = [n.value for n in ast.walk(init) if isinstance(n, ast.Assign) and any(src(t) == 'self.%s' % f for t in n.targets)]
            ok = len(vals) == 1 and ((isinstance(vals[0], ast.Call) and dotted(vals[0].func) in MUTABLE_CTORS and not vals[0].args) or
                                     (isinstance(vals[0], (ast.List, ast.Dict, ast.Set)) and not ast.dump(vals[0]).count('Name')))
            r.check(ok, '%s.%s is a new empty container per object' % (clsname, f), init, construct='xtuml.meta:%s.__init__' % clsname,
                    key='fresh ' + f, msg='%s.__init__ does not create a fresh empty container for self.%s' % (clsname, f))
    da = repo.nfunc('xtuml.meta:MetaModel.define_association')     # normal form: one spelling of the dict building
    from .common import resolve_locals
    def _pairs(v):
        m_ = pm.match('dict(zip(_A, _B))', v) or pm.match('dict(zip(_A, _B, strict=_S))', v)
        from .common import strip_declared as _sd
        return 'dict(zip(%s, %s))' % (src(_sd(m_['_A'])), src(_sd(m_['_B']))) if m_ else src(v)
    kms = sorted(_pairs(resolve_locals(da, env_['_V'])) for _n, env_ in pm.find('_L.key_map = _V', da))
    r.check(kms == ['dict(zip(source_keys, target_keys))', 'dict(zip(target_keys, source_keys))'],
            'key maps are new dictionaries built from the key lists', da, construct='xtuml.meta:MetaModel.define_association', key='key_map-copy',
            msg='define_association does not build fresh key_map dictionaries')
    dc = repo.nfunc('xtuml.meta:MetaModel.define_class')
    r.check(pm.contains('_M = MetaClass(%s, self)' % param_names(dc)[0], dc), 'every define_class creates a new MetaClass', dc, construct='xtuml.meta:MetaModel.define_class',
            key='new-metaclass', msg='define_class does not create a new MetaClass per call')
    aa = repo.func('xtuml.meta:MetaClass.append_attribute')
    r.check(pm.contains('_A = (name, type_name)', aa) and pm.contains('self.attributes.append(_A)', aa), 'attributes are stored as new immutable pairs', aa,
            construct='xtuml.meta:MetaClass.append_attribute', key='pair', msg='append_attribute does not append a new (name, type) tuple')
    ui = repo.nfunc('xtuml.meta:MetaModel.define_unique_identifier')
    va_ = ui.args.vararg.arg if ui.args.vararg else None

    def _tuple_of_names(v_):
        v_ = resolve_locals(ui, v_, pure_only=False)
        m_ = pm.match('tuple(_X)', v_)
        if m_ is not None:
            v_ = m_['_X']
        # the variadic parameter is a tuple of its own for every call
        return isinstance(v_, ast.Name) and v_.id == va_ and (m_ is not None or va_ is not None)
    r.check(any(pm.match('_M.indices[_N] = _V', n) is not None and _tuple_of_names(n.value) for n in ast.walk(ui) if isinstance(n, ast.Assign)), 'identifier attribute lists are stored as tuples', ui,
            construct='xtuml.meta:MetaModel.define_unique_identifier', key='tuple', msg='define_unique_identifier does not store tuple(named_attributes)')


def _classify(repo, r, fn, param, what, node, q, ref_stored, depth):
    uses = _param_uses(fn, param)
    cls = fn._parent.name if isinstance(fn._parent, ast.ClassDef) else None
    for kind, detail, n in uses:
        if kind == 'copy':
            r.ok('%s: copied (%s)' % (what, detail), n, construct=q + '|' + what + '|' + str(detail))
        elif kind == 'store':
            field = '%s.%s' % (cls, detail.replace('self.', '')) if detail.startswith('self.') else detail
            ref_stored.setdefault(field, n)
            r.ok('%s: stored by reference in %s' % (what, field), n, construct=q + '|' + what + '|' + field)
        elif kind == 'mutate':
            r.violation('%s: the callee mutates the shared statement list in place (%s)' % (what, src(n)[:60]), n, construct=q, key='callee-mutates ' + param)
        elif kind == 'pass' and depth < 2:
            callee = _resolve_callee(repo, detail[0])
            if callee is None:
                r.info('%s: passed on to unresolved %s' % (what, detail[0]), n)
                continue
            ps = param_names(callee)
            p2 = ps[detail[1]] if isinstance(detail[1], int) and detail[1] < len(ps) else (detail[1] if detail[1] in ps else None)
            if p2:
                _classify(repo, r, callee, p2, what + ' -> %s(%s)' % (callee.name if callee.name != '__init__' else detail[0], p2), n, q, ref_stored, depth + 1)


def _name_only_looked_up(mod, name):
    '''a module-level name that is bound once and only read by lookups (membership, indexing, .get/.keys/.values/.items, iteration)'''
    stores = [n for n in ast.walk(mod.tree) if isinstance(n, ast.Name) and n.id == name and isinstance(n.ctx, (ast.Store, ast.Del))]
    if len(stores) != 1:
        return False
    for n in ast.walk(mod.tree):
        if isinstance(n, (ast.Global, ast.Nonlocal)) and name in n.names:
            return False
        if isinstance(n, ast.Name) and n.id == name and isinstance(n.ctx, ast.Load):
            p_ = getattr(n, '_parent', None)
            if isinstance(p_, ast.Subscript) and p_.value is n and isinstance(p_.ctx, ast.Load):
                continue
            if isinstance(p_, ast.Attribute) and p_.value is n and p_.attr in ('get', 'keys', 'values', 'items') and \
                    isinstance(getattr(p_, '_parent', None), ast.Call):
                continue
            if isinstance(p_, ast.Compare) and n in p_.comparators:
                continue
            if isinstance(p_, (ast.For, ast.comprehension)) and p_.iter is n:
                continue
            return False
    return True


def _only_looked_up(mod, name):
    '''every occurrence of <x>.name in the module is a read that cannot let the object escape or change'''
    occ = [n for n in ast.walk(mod.tree) if isinstance(n, ast.Attribute) and n.attr == name]
    if not occ:
        return True
    for n in occ:
        if not isinstance(n.ctx, ast.Load):
            return False
        p_ = getattr(n, '_parent', None)
        if isinstance(p_, ast.Subscript) and p_.value is n and isinstance(p_.ctx, ast.Load):
            continue
        if isinstance(p_, ast.Attribute) and p_.value is n and p_.attr in ('get', 'keys', 'values', 'items') and \
                isinstance(getattr(p_, '_parent', None), ast.Call):
            continue
        if isinstance(p_, ast.Compare) and n in p_.comparators:
            continue
        if isinstance(p_, (ast.For, ast.comprehension)) and p_.iter is n:
            continue
        return False
    return True


IMMUTABLE_CTORS = {'tuple', 'frozenset', 'str', 'int', 'float', 'bool', 'bytes', 'object'}


def _shared_default(d):
    '''a parameter default is evaluated ONCE, when the function is defined: a container display or an object constructed there (an id
    generator, a set ...) is one object shared by every call that leaves the parameter out, hence by every metamodel'''
    for n in ast.walk(d):
        if isinstance(n, (ast.List, ast.Dict, ast.Set, ast.ListComp, ast.DictComp, ast.SetComp, ast.GeneratorExp)):
            return True
        if isinstance(n, ast.Call) and (dotted(n.func) or '?') not in IMMUTABLE_CTORS:
            return True
    return False


def fresh(ctx):
    repo = ctx.repo
    r = ctx.rule('C18-FRESH', 'nothing built is remembered by the loader or shared between objects', floor=10, oracle='non-interference')
    for name in ('build_metamodel', 'populate', 'populate_classes', 'populate_associations', 'populate_unique_identifiers',
                 'populate_instances', 'populate_connections', '_populate_matching_class', '_populate_instance_with_positional_arguments',
                 '_populate_instance_with_named_arguments'):
        fn = repo.func(LD + '.' + name)
        st = _self_stores(fn)
        r.check(not st, '%s stores nothing on the loader' % name, fn, construct=LD + '.' + name, key='loader-store',
                msg='%s keeps state on the loader (%s): a later build would see data of an earlier one' % (name, [src(s[0])[:40] for s in st][:2]))
        glob = [n for n in ast.walk(fn) if isinstance(n, (ast.Global, ast.Nonlocal))]
        r.check(not glob, '%s uses no global state' % name, fn, construct=LD + '.' + name, key='global', msg='%s declares global/nonlocal state' % name)
    for modname in ('xtuml.meta', 'xtuml.load'):
        for c in repo.classes(modname):
            for name, v in repo.assigns_in_class(c).items():
                mutable = isinstance(v, (ast.List, ast.Dict, ast.Set, ast.ListComp, ast.DictComp, ast.SetComp)) or \
                    (isinstance(v, ast.Call) and dotted(v.func) in MUTABLE_CTORS)
                if mutable and _only_looked_up(repo.module(modname), name):
                    # a literal table that the module only reads (membership, indexing, .get, iteration) holds no build state
                    mutable = False
                r.check(not mutable, '%s.%s is not a shared mutable class attribute' % (c.name, name), v, construct='%s:%s' % (modname, c.name),
                        key='class-attr ' + name, msg='%s.%s is a mutable class-level value shared by all instances (and thus by all metamodels)' % (c.name, name))
            for m in c.body:
                if isinstance(m, ast.FunctionDef):
                    for d in m.args.defaults + [x for x in m.args.kw_defaults if x is not None]:
                        mutable = _shared_default(d)
                        if mutable:
                            r.violation('%s.%s has a mutable default argument `%s` shared between calls' % (c.name, m.name, src(d)), d,
                                        construct='%s:%s.%s' % (modname, c.name, m.name), key='mutable-default')
        for fn in repo.functions(modname):
            for d in fn.args.defaults + [x for x in fn.args.kw_defaults if x is not None]:
                if _shared_default(d):
                    r.violation('%s has a mutable default argument' % fn.name, d, construct='%s:%s' % (modname, fn.name), key='mutable-default')
        # module-level mutable state
        for st in repo.module(modname).tree.body:
            if isinstance(st, ast.Assign) and isinstance(st.value, (ast.List, ast.Dict, ast.Set)):
                if len(st.targets) == 1 and isinstance(st.targets[0], ast.Name) and _name_only_looked_up(repo.module(modname), st.targets[0].id):
                    r.ok('module level table `%s` of %s is only read' % (st.targets[0].id, modname), st, construct=modname + '|' + st.targets[0].id)
                    continue
                r.violation('module level mutable `%s` in %s' % (src(st.targets[0]), modname), st, construct=modname, key='module-state ' + src(st.targets[0]))
    mi = repo.func('xtuml.meta:MetaClass.__init__')
    r.check(pm.contains('self.clazz = type(str(kind), (Class,), dict(__metaclass__=self))', mi), 'every MetaClass creates its own instance class', mi,
            construct='xtuml.meta:MetaClass.__init__', key='own-clazz', msg='MetaClass.__init__ does not create a new instance class per metaclass')


def stmt_ro(ctx):
    repo = ctx.repo
    r = ctx.rule('C18-STMT-RO', 'the populate passes only read the shared statement objects', floor=6, oracle='ownership')
    for name in ('populate_classes', 'populate_associations', 'populate_unique_identifiers', 'populate_instances',
                 '_populate_matching_class', '_populate_instance_with_positional_arguments', '_populate_instance_with_named_arguments'):
        fn = repo.func(LD + '.' + name)
        bad = []
        for n in ast.walk(fn):
            targets = []
            if isinstance(n, ast.Assign):
                targets = n.targets
            elif isinstance(n, (ast.AugAssign,)):
                targets = [n.target]
            elif isinstance(n, ast.Delete):
                targets = n.targets
            for t in targets:
                b = t
                while isinstance(b, (ast.Attribute, ast.Subscript)):
                    b = b.value
                if isinstance(b, ast.Name) and b.id == 'stmt' and not isinstance(t, ast.Name):
                    bad.append(n)
            if isinstance(n, ast.Call) and isinstance(n.func, ast.Attribute) and n.func.attr in MUTATORS:
                b = n.func.value
                while isinstance(b, (ast.Attribute, ast.Subscript)):
                    b = b.value
                if isinstance(b, ast.Name) and b.id in ('stmt', 'names', 'values') and src(n.func.value) != 'attributes':
                    if b.id == 'stmt' or name == '_populate_matching_class':
                        bad.append(n)
        r.check(not bad, '%s does not write to statement objects' % name, fn, construct=LD + '.' + name, key='stmt-write',
                msg='%s modifies the shared statement data (`%s`): the next build from the same loader sees the modification'
                    % (name, src(bad[0])[:60] if bad else ''))
