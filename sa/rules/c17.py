'''
C17 - Ordered sets behave as insertion-ordered mathematical sets.

Decided part (an inductive shape argument, nothing of the repository is run):

  C17-SHAPE    the representation invariant INV (sa/rules/linkedset.py: the forward chain from the sentinel visits exactly
               the nodes of the dict and the backward chain is its reverse) is preserved by add / discard / pop from every
               well-formed list of 0..3 members and every key position, with the set effect the property states (append
               when new, remove exactly that member, pop first / last); __iter__, __reversed__, __len__ enumerate exactly
               the members in (reverse) insertion order on each of these heaps
  C17-LOCAL    small-model justification: the mutators touch only the sentinel, the affected node and its two neighbours
               (so what holds for three members holds for any number), and discard never writes a slot of the removed
               node (an iterator standing on it still finds its successor)
  C17-INIT     __init__ builds the empty well-formed list and adds the given elements one at a time (in-place union)
  C17-ITERDEL  removing the element that is currently visited, during forward and during reverse iteration, neither skips
               nor repeats another element (the iteration is executed with a removal at every yield)
  C17-EQ       __eq__ is: same length and same element sequence; any other collection is first turned into an ordered set
  C17-ENDS     QuerySet.first / last are the first element of forward / reverse iteration, None for the empty set
  C17-MIXINS   every other operation of the property (remove, clear, |=, &=, -=, ^=, |, &, -, ...) is the MutableSet mixin,
               which is defined on top of add / discard / __contains__ / __iter__ / __len__: the class derives from
               collections.abc.MutableSet and overrides none of them

By induction over the operation history INV holds after every sequence of operations and the contents are those of the
mathematical set in first-insertion order.  Not decided: the behaviour of the collections.abc mixins themselves (trusted)
and hash / equality of the elements.
'''
import ast
import itertools

from ..src import AnalysisError, loc, src, dotted, param_names
from .. import pm, absint
from . import linkedset
from .linkedset import Heap, Exec, _Raise, _Unknown, _KeyTruth, TOOLS

QS = 'xtuml.meta:QuerySet.'
CLS = 'xtuml.tools:OrderedSet'


def run(ctx):
    ctx.guard(linkedset.check, ctx, 'C17-SHAPE')
    ctx.guard(local, ctx)
    ctx.guard(init, ctx)
    ctx.guard(iterdel, ctx)
    ctx.guard(eq, ctx)
    ctx.guard(ends, ctx)
    ctx.guard(mixins, ctx)
    ctx.assume('the mixin methods of collections.abc.MutableSet / Set behave as documented (they call add, discard, __contains__, __iter__, __len__)')
    ctx.assume('elements are hashable and their == agrees with their hash')
    return ('Shape analysis of OrderedSet on a symbolic heap (node identities are symbols, slots are cells): the representation '
            'invariant is preserved by every primitive mutator from every well-formed list of up to three members; a locality '
            'check (only the sentinel, the affected node and its neighbours are touched) extends this to lists of any length; '
            'readers, iteration with removal, __init__, QuerySet.first/last are executed on the same heaps; __eq__ is a table '
            'over abstract states; all remaining operations are MutableSet mixins over the verified primitives.')


def _exec(repo, heap, classes=(TOOLS,)):
    return Exec(repo, heap, classes)


def _unknown(fn, what, u):
    return AnalysisError('%s: %s uses %s, which is outside the idioms the linked-list shape analysis knows' % (loc(fn), what, u))


def local(ctx):
    repo = ctx.repo
    r = ctx.rule('C17-LOCAL', 'add / discard touch only the sentinel, the affected node and its neighbours; discard leaves the removed node\'s own slots alone',
                 floor=10, oracle='small-model argument for the shape analysis')
    n = 5
    for method in ('add', 'discard'):
        fn = repo.func(TOOLS + method)
        keys = ['new'] if method == 'add' else ['k%d' % i for i in range(n)]
        for key in keys:
            h = Heap(n)
            allowed = {'END', h.end.slots[1].name, h.end.slots[2].name}
            if key in h.map:
                x = h.map[key]
                allowed |= {x.name, x.slots[1].name, x.slots[2].name}
            ex = _exec(repo, h)
            try:
                ex.call(method, [key])
            except _Raise:
                pass
            except _Unknown as u:
                raise _unknown(fn, 'OrderedSet.' + method, u)
            extra = sorted(t for t in ex.touched if t not in allowed and not t.startswith('NEW'))
            r.check(not extra, '%s(%s) on five members touches only the sentinel, the node and its neighbours' % (method, key), fn, construct=CLS + '.' + method,
                    key='local ' + method, msg='%s(%s) reads or writes the nodes %s, which are neither the sentinel, the affected node nor one of its '
                                               'neighbours: the operation is not local, the three-member analysis does not carry over' % (method, key, extra))
            if method == 'discard':
                own = sorted(w for w in ex.written if w[0] == 'N' + key)
                r.check(not own, 'discard(%s) does not write the slots of the removed node' % key, fn, construct=CLS + '.discard', key='own-slots',
                        msg='discard(%s) overwrites slot(s) %s of the node it removes: an iteration that is standing on that element can no longer '
                            'find its successor' % (key, [w[1] for w in own]))


def init(ctx):
    repo = ctx.repo
    r = ctx.rule('C17-INIT', '__init__ builds the empty well-formed list and adds the given elements in order', floor=5, oracle='INV; first-insertion order')
    fn = repo.func(TOOLS + '__init__')
    for given, want in ((None, []), ([], []), (['a'], ['a']), (['a', 'b', 'c'], ['a', 'b', 'c']), (['b', 'a', 'b', 'c', 'a'], ['b', 'a', 'c'])):
        h = Heap(None)
        ex = _exec(repo, h)
        try:
            ex.call('__init__', [] if given is None else [given])
            raised = False
        except _Raise:
            raised = True
        except _Unknown as u:
            raise _unknown(fn, 'OrderedSet.__init__', u)
        ok = not raised and h.end is not None and h.map is not None
        bad = h.invariant() if ok else 'the sentinel / dict are not set up'
        got = [x.slots[0] for x in (h.forward() or [])] if ok and bad is None else None
        label = 'OrderedSet(%s)' % ('' if given is None else given)
        r.check(ok and bad is None and got == want, '%s is well formed and holds %s' % (label, want), fn, construct=CLS + '.__init__', key='init %s' % (given,),
                msg='%s: %s; members in order %s, expected %s' % (label, bad or ('raises' if raised else 'ok'), got, want))


def iterdel(ctx):
    repo = ctx.repo
    r = ctx.rule('C17-ITERDEL', 'removing the visited element during iteration neither skips nor repeats other elements', floor=12,
                 oracle='property statement (deletion relies on removal during iteration)')
    for method, label in (('__iter__', 'forward'), ('__reversed__', 'reverse')):
        fn = repo.func(TOOLS + method)
        for n in range(1, 5):
            members = ['k%d' % i for i in range(n)]
            want = members if method == '__iter__' else list(reversed(members))
            # remove every visited element / only the one at position j
            for which in ['all'] + list(range(n)):
                h = Heap(n)
                ex = _exec(repo, h)

                def on_yield(v, h=h, which=which, want=want):
                    if which == 'all' or v == want[which]:
                        ex2 = _exec(repo, h)
                        ex2.call('discard', [v])
                ex.on_yield = on_yield
                try:
                    got = ex.call(method, [])
                except _Raise:
                    got = 'raises'
                except _Unknown as u:
                    raise _unknown(fn, 'OrderedSet.' + method, u)
                left = [x.slots[0] for x in (h.forward() or [])]
                want_left = [] if which == 'all' else [k for k in members if k != want[which]]
                what = 'every visited element' if which == 'all' else 'the element %s when it is visited' % want[which]
                r.check(got == want and left == want_left and h.invariant() is None,
                        '%s iteration over %s while removing %s visits each element once' % (label, members, what), fn, construct=CLS + '.' + method,
                        key='iterdel %s' % label,
                        msg='%s iteration over %s while removing %s yields %s (expected %s) and leaves %s (expected %s)' % (
                            label, members, what, got, want, left, want_left))


def eq(ctx):
    repo = ctx.repo
    r = ctx.rule('C17-EQ', '__eq__: equal exactly to ordered collections with the same elements in the same order', floor=6, oracle='property statement')
    fn = repo.func(TOOLS + '__eq__')
    Q = CLS + '.__eq__'
    O = param_names(fn)[0]

    def same_len(e, s, tr):
        sides = {src(e['_A']), src(e['_B'])}
        if sides == {'len(self)', 'len(%s)' % O}:
            return s['same_len']
        if sides == {'list(self)', 'list(%s)' % O} or sides == {'tuple(self)', 'tuple(%s)' % O}:
            tr.append('sequence')
            return s['same_seq']
        if sides == {'self', 'OrderedSet(iter(%s))' % O} or sides == {'self', 'OrderedSet(%s)' % O}:
            tr.append('converted')
            return s['same_seq']
        return None
    atoms = [('isinstance(%s, OrderedSet)' % O, lambda e, s, tr: s['is_set']), ('_A == _B', same_len),
             ('_A != _B', lambda e, s, tr: (None if same_len(e, s, tr) is None else not same_len(e, s, tr)))]
    it = absint.Interp(fn, atoms)
    for is_set, same_len_, same_seq in itertools.product([True, False], [True, False], [True, False]):
        if same_seq and not same_len_:
            continue
        out, tr = it.run({'is_set': is_set, 'same_len': same_len_, 'same_seq': same_seq})
        v = out.value if out.kind == 'return' else None
        decided = None
        if v is not None and not isinstance(v, ast.Constant):
            try:
                decided = bool(it.cond(v, {'is_set': is_set, 'same_len': same_len_, 'same_seq': same_seq}, []))
            except AnalysisError:
                decided = None
        if decided is not None:
            got = decided
        elif isinstance(v, ast.Constant):
            got = v.value
        elif v is not None and same_len({'_A': v.left, '_B': v.comparators[0]}, {'same_len': same_len_, 'same_seq': same_seq}, []) is not None \
                if isinstance(v, ast.Compare) and len(v.ops) == 1 and isinstance(v.ops[0], (ast.Eq, ast.NotEq)) else False:
            got = same_len({'_A': v.left, '_B': v.comparators[0]}, {'same_len': same_len_, 'same_seq': same_seq}, [])
            if isinstance(v.ops[0], ast.NotEq):
                got = not got
        else:
            got = None
        desc = '__eq__(other is an ordered set=%d, same length=%d, same element sequence=%d)' % (is_set, same_len_, same_seq)
        r.check(got is same_seq, '%s -> %s' % (desc, same_seq), fn, construct=Q, key='eq %d %d %d' % (is_set, same_len_, same_seq),
                msg='%s must be %s; the code yields %r' % (desc, same_seq, out))


def ends(ctx):
    repo = ctx.repo
    r = ctx.rule('C17-ENDS', 'QuerySet.first / last are the ends of the insertion order, None for the empty set', floor=8, oracle='property statement')
    for name in ('first', 'last'):
        fn = repo.func(QS + name)
        for n in range(0, 4):
            h = Heap(n)
            members = ['k%d' % i for i in range(n)]
            ex = _exec(repo, h, classes=(QS, TOOLS))
            try:
                got = ex.call(name, [])
            except _KeyTruth as k:
                got = 'a value that depends on the truth value of an element: %s' % k
            except _Raise:
                got = 'raises'
            except _Unknown as u:
                raise _unknown(fn, 'QuerySet.' + name, u)
            want = None if n == 0 else (members[0] if name == 'first' else members[-1])
            r.check(got == want, 'QuerySet(%s).%s is %s' % (members, name, want), fn, construct=QS + name, key=name,
                    msg='QuerySet(%s).%s yields %r, expected %r' % (members, name, got, want))
    qs = repo.cls('xtuml.meta:QuerySet')
    bases = [dotted(b) for b in qs.bases]
    r.check(bases in (['xtuml.OrderedSet'], ['OrderedSet'], ['xtuml.tools.OrderedSet']), 'QuerySet is an OrderedSet', qs, construct='xtuml.meta:QuerySet', key='base',
            msg='QuerySet derives from %s, not from OrderedSet' % bases)
    extra = sorted(m.name for m in qs.body if isinstance(m, ast.FunctionDef) and m.name not in ('first', 'last') and
                   not (m.name.startswith('_') and not m.name.startswith('__') and repo.absorbed(QS + m.name)))      # a new private helper is read through the methods that use it
    r.check(not extra, 'QuerySet adds only first / last', qs, construct='xtuml.meta:QuerySet', key='extra',
            msg='QuerySet defines %s in addition to first / last; these are not covered by the shape analysis' % extra)


PRIMITIVES = {'__init__', 'add', 'discard', 'pop', '__len__', '__contains__', '__iter__', '__reversed__', '__repr__', '__eq__'}


def mixins(ctx):
    repo = ctx.repo
    r = ctx.rule('C17-MIXINS', 'all other set operations are the MutableSet mixins over the verified primitives', floor=4, oracle='collections.abc contract')
    cls = repo.cls(CLS)
    bases = [dotted(b) for b in cls.bases]
    r.check(any(b and b.endswith('MutableSet') for b in bases), 'OrderedSet derives from MutableSet', cls, construct=CLS, key='base',
            msg='OrderedSet derives from %s: remove / clear / |= / &= / -= / ^= and the set algebra are no longer the MutableSet mixins' % bases)
    defined = [m.name for m in cls.body if isinstance(m, ast.FunctionDef)]
    for need in ('add', 'discard', '__contains__', '__iter__', '__len__', '__reversed__', '__eq__', 'pop'):
        r.check(need in defined, 'OrderedSet defines %s' % need, cls, construct=CLS, key='defines ' + need, msg='OrderedSet no longer defines %s' % need)
    # private helpers are executed by the shape analysis through the primitives that call them
    extra = sorted(d for d in set(defined) - PRIMITIVES if not (d.startswith('_') and not d.startswith('__')))
    r.check(not extra, 'OrderedSet overrides no mixin method', cls, construct=CLS, key='overrides',
            msg='OrderedSet defines %s itself; these methods replace MutableSet mixins and are not covered by the shape analysis' % extra)
    fn = repo.func(TOOLS + '__contains__')
    P = param_names(fn)[0]
    ok = any(isinstance(n, ast.Return) and n.value is not None and pm.match('%s in self.map' % P, n.value) is not None for n in ast.walk(fn))
    r.check(ok, 'membership is membership in the dict', fn, construct=CLS + '.__contains__', key='contains', msg='__contains__ is no longer `key in self.map`')
    fn = repo.func(TOOLS + '__len__')
    ok = any(isinstance(n, ast.Return) and n.value is not None and pm.match('len(self.map)', n.value) is not None for n in ast.walk(fn))
    r.check(ok, 'length is the size of the dict', fn, construct=CLS + '.__len__', key='len', msg='__len__ is no longer len(self.map)')
