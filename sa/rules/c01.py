'''
C01 - Persisted models load back unchanged (structural clauses).

  C01-TYPES    the five type tables of writer, reader and metaclass agree
  C01-QUOTE    every SQL string token written is quote-escaped, every one read is unescaped
  C01-FORMAT   each value format the writer emits lies inside the token(s) the reader accepts for that type, and no
               earlier token rule steals its beginning (automaton inclusion / prefix tests)
  C01-ROUTES   the string routes and the file routes emit the same statement families from unfiltered collections
  C01-ROP-ID   association fields flow through writer and reader as the identity (slot flow); cardinality round trip
  C01-IDENT    every reserved word is accepted as identifier; no earlier token rule steals an identifier
  C01-ORDER    only new / delete touch the per-class instance order
'''
import ast
import itertools
import re

from ..src import AnalysisError, loc, src, dotted, call_attr, param_names, body_without_doc, walk_local, qualname, bind_call
from .. import pm, absint, emit
from ..callgraph import CallGraph
from ..lexer import RegexNFA, included, prefix_conflict, intersect_witness
from .common import AssocModel, exception_class_name, type_name_atoms
from . import lexrules
from .c12 import MUTATORS

P = 'xtuml.persist:'
L = 'xtuml.load:'
LD = 'xtuml.load:ModelLoader'
TYPES = {'BOOLEAN', 'INTEGER', 'REAL', 'STRING', 'UNIQUE_ID'}


def run(ctx):
    am = AssocModel(ctx.repo)
    ctx.guard(types, ctx)
    ctx.guard(quote, ctx)
    ctx.guard(fmt, ctx)
    ctx.guard(routes, ctx)
    ctx.guard(rop_identity, ctx, am)
    ctx.guard(ident, ctx)
    ctx.guard(getter, ctx)
    ctx.guard(order, ctx)
    from . import c03 as _c03
    ctx.shared(_c03.keys, ctx, am)          # the loader's join keys decide which links a reloaded model has
    ctx.shared(_c03.partition, ctx)         # every CREATE statement the writer emits is handed to the metamodel by exactly one pass, unfiltered
    ctx.shared(_c03.shared, ctx)            # the value a shared referential attribute is written with is read through the getter chain formalize installs
    ctx.assume('equality of loaded values, real rounding to six decimals and the fixed-point claim are runtime quantities and are not decided')
    ctx.assume('special floats (inf/nan) are outside the persistable domain')
    return ('Set comparison of the type alphabets in serialize_value / deserialize_value / default_value / guess_type_name / '
            '_is_null; escape discipline at every quoted-%s format site of the writer and every [1:-1] site of the reader; '
            'regex-automaton inclusion of each writer format in the reader token language incl. token-order shadowing; '
            'emitter sets per serialization route through the call graph; slot-flow identity of the ROP fields; identifier '
            'lexing; who-may-write MetaClass.storage.')


# ---------------------------------------------------------------------------
def getter(ctx):
    """the writer reads instance values through the attribute protocol (getattr / Class.__getattr__ / the properties formalize installs
    for referential attributes), never from the raw instance dictionary, which may hold a stale copy of a referential value"""
    repo = ctx.repo
    r = ctx.rule('C01-GETTER', 'the writer reads attribute values through the attribute protocol, not from the raw instance dictionary', floor=1,
                 oracle='Association.formalize: a referential attribute is a property computed from the link; C02-REF')
    fn = repo.func('xtuml.persist:serialize_instance')
    reads = [n for n in ast.walk(fn) if isinstance(n, ast.Call) and dotted(n.func) == 'getattr' and len(n.args) in (2, 3)]
    r.check(bool(reads), 'serialize_instance reads each attribute with getattr(instance, name)', fn, construct='xtuml.persist:serialize_instance', key='getattr',
            msg='serialize_instance no longer reads the attribute values with getattr(instance, name)')
    for m in ('xtuml.persist',):
        for f in ast.walk(repo.module(m).tree):
            if not isinstance(f, ast.FunctionDef):
                continue
            for n in ast.walk(f):
                raw = (isinstance(n, ast.Attribute) and n.attr == '__dict__') or \
                    (isinstance(n, ast.Call) and dotted(n.func) in ('vars', 'object.__getattribute__'))
                if raw:
                    r.violation('%s reads `%s`: the raw instance dictionary may hold a stale copy of a referential attribute (instances created '
                                'before the association was formalized, then related), while the value the model shows - and the loader links '
                                'by - is the one computed through the link; the written text would not load back to the same links' % (f.name, src(n)),
                                n, construct='%s:%s' % (m, f.name), key='raw-dict')


def _dict_keys(fn, name):
    for n in ast.walk(fn):
        if isinstance(n, ast.Assign) and src(n.targets[0]) == name and isinstance(n.value, ast.Dict):
            return {k.value: v for k, v in zip(n.value.keys, n.value.values) if isinstance(k, ast.Constant)}
    return None


def _literal_chain(fn, var_names):
    '''literals compared with ==  against one of var_names inside fn'''
    out = set()
    for n in ast.walk(fn):
        if isinstance(n, ast.Compare) and len(n.ops) == 1 and isinstance(n.ops[0], ast.Eq):
            a, b = n.left, n.comparators[0]
            for x, y in ((a, b), (b, a)):
                if isinstance(x, ast.Name) and x.id in var_names and isinstance(y, ast.Constant) and isinstance(y.value, str):
                    out.add(y.value)
    return out


def reader_table(repo):
    '''abstract execution of deserialize_value: for every type and every shape of token text the grammar can deliver,
    the expression returned (in terms of the parameter holding the text).  {(type, shape): Outcome}'''
    dv = repo.func(L + 'deserialize_value')
    ps = param_names(dv, skip_self=False)
    TY, VAL = ps[0], ps[1]
    tatoms, _ = type_name_atoms(TY)

    def shape(name):
        return lambda e, s, tr: s['shape'] == name
    atoms = [('%s.isdigit()' % VAL, lambda e, s, tr: s['shape'] == 'digits'),
             ("'\"' in %s" % VAL, lambda e, s, tr: s['shape'] == 'dquoted'),
             ("'\"' not in %s" % VAL, lambda e, s, tr: s['shape'] != 'dquoted'),
             ("%s.upper() == 'FALSE'" % VAL, shape('false')), ("%s.upper() == 'TRUE'" % VAL, shape('true')),
             ("%s.lower() == 'false'" % VAL, shape('false')), ("%s.lower() == 'true'" % VAL, shape('true')),
             ("%s.upper() in _L" % VAL, lambda e, s, tr: None)] + tatoms
    it = absint.Interp(dv, atoms)
    _cmp = type_name_atoms(TY)[1]
    it.key_equals = lambda k, kn, s: _cmp({'_A': k, '_B': kn}, s, [])
    it.skip = lambda st: isinstance(st, ast.Try)
    out = {}
    for ty in sorted(TYPES) + ['SOMETHING_ELSE']:
        for sh in ('digits', 'signed', 'fraction', 'squoted', 'dquoted', 'true', 'false'):
            state = {'type': ty, 'declared_case': True, 'shape': sh}
            o, tr = _run_through_try(it, dv, state)
            out[(ty, sh)] = o
    return dv, VAL, out


def _run_through_try(it, fn, state):
    '''deserialize_value wraps its dispatch in try/except ValueError: the dispatch itself is what is interpreted'''
    body = []
    for st in fn.body:
        if isinstance(st, ast.Try):
            body.extend(st.body)
        else:
            body.append(st)
    return it.run(state, body=body)


def reader_table_lower(repo):
    '''a lower-case spelling of the type name selects the same branch'''
    dv = repo.func(L + 'deserialize_value')
    ps = param_names(dv, skip_self=False)
    tatoms, _ = type_name_atoms(ps[0])
    it = absint.Interp(dv, [('%s.isdigit()' % ps[1], lambda e, s, tr: True), ("'\"' in %s" % ps[1], lambda e, s, tr: False),
                            ("'\"' not in %s" % ps[1], lambda e, s, tr: True)] + tatoms)
    _cmp2 = type_name_atoms(ps[0])[1]
    it.key_equals = lambda k, kn, s: _cmp2({'_A': k, '_B': kn}, s, [])
    o, tr = _run_through_try(it, dv, {'type': 'INTEGER', 'declared_case': False, 'shape': 'digits'})
    return o.kind == 'return' and o.value is not None and pm.match('int(%s)' % ps[1], o.value) is not None


def _default_value_types(df):
    '''types for which MetaClass.default_value has a default (does not raise)'''
    tatoms, cmp_lit = type_name_atoms(param_names(df)[0])
    it = absint.Interp(df, tatoms + [('self.metamodel', lambda e, s, tr: True), ('self.metamodel is not None', lambda e, s, tr: True),
                                     ('self.metamodel is None', lambda e, s, tr: False)])
    out = set()
    for ty in sorted(TYPES) + ['SOMETHING_ELSE']:
        state = {'type': ty, 'declared_case': True}
        o, tr = it.run(state)
        if o.kind == 'return':
            found, sel = absint.dict_lookup(o.value, lambda k, kn: cmp_lit({'_A': k, '_B': kn}, state, tr)) if o.value is not None else (False, None)
            if found and sel is None:
                continue
            out.add(ty)
    return out


def types(ctx):
    repo = ctx.repo
    r = ctx.rule('C01-TYPES', 'writer, reader and metaclass agree on the type alphabet', floor=6, oracle='sibling tables')
    sv = repo.func(P + 'serialize_value')
    nulls = _dict_keys(sv, 'null_value')
    trans = _dict_keys(sv, 'transfer_fn')
    if nulls is None or trans is None:
        raise AnalysisError('%s: null_value / transfer_fn tables not found' % loc(sv))
    dv, _val, table = reader_table(repo)
    WRITTEN_SHAPE = {'BOOLEAN': 'digits', 'INTEGER': 'digits', 'REAL': 'fraction', 'STRING': 'squoted', 'UNIQUE_ID': 'dquoted'}
    dset = set(t for t in TYPES if table[(t, WRITTEN_SHAPE[t])].kind == 'return' and table[(t, WRITTEN_SHAPE[t])].value is not None
               and not (isinstance(table[(t, WRITTEN_SHAPE[t])].value, ast.Constant) and table[(t, WRITTEN_SHAPE[t])].value.value is None))
    oe = table[('SOMETHING_ELSE', 'digits')]
    if oe.kind == 'return' and oe.value is not None and not (isinstance(oe.value, ast.Constant) and oe.value.value is None):
        dset.add('SOMETHING_ELSE')
    df = repo.func('xtuml.meta:MetaClass.default_value')
    fset = _default_value_types(df)
    gt = repo.func(L + 'guess_type_name')
    gset = set(n.value.value for n in ast.walk(gt) if isinstance(n, ast.Return) and isinstance(n.value, ast.Constant) and isinstance(n.value.value, str))
    isn = repo.func('xtuml.meta:_is_null')
    iset = _literal_chain(isn, {'attr_ty'})
    tables = {'serialize_value.null_value': set(nulls), 'serialize_value.transfer_fn': set(trans), 'deserialize_value': dset,
              'MetaClass.default_value': fset, 'guess_type_name': gset}
    for name, s in tables.items():
        r.check(s == TYPES, '%s covers %s' % (name, sorted(TYPES)), sv, construct='xtuml:' + name, key='alphabet ' + name,
                msg='%s knows the types %s; the other tables know %s -- a value of a type missing in one table cannot make the round trip'
                    % (name, sorted(s), sorted(TYPES)))
    r.check(iset <= TYPES and iset, '_is_null only special-cases known types %s' % sorted(iset), isn, construct='xtuml.meta:_is_null', key='alphabet _is_null',
            msg='_is_null special-cases %s' % sorted(iset))
    # normalisation of the type name before the table lookups
    r.check(pm.contains('ty = ty.upper()', sv), 'serialize_value looks types up upper-cased', sv, construct=P + 'serialize_value', key='norm-writer',
            msg='serialize_value does not upper-case the type name before the table lookup')
    lower = reader_table_lower(repo)
    r.check(lower, 'deserialize_value compares types upper-cased', dv, construct=L + 'deserialize_value', key='norm-reader',
            msg='deserialize_value does not upper-case the type name')
    # null values: None is written as the null value of the type, which the reader maps to a value _is_null treats as null
    want_null = {'BOOLEAN': 'False', 'INTEGER': '0', 'REAL': '0.0', 'STRING': "''", 'UNIQUE_ID': '0'}
    for t, w in want_null.items():
        r.check(t in nulls and src(nulls[t]) == w, 'unset %s is written as %s' % (t, w), sv, construct=P + 'serialize_value', key='null ' + t,
                msg='serialize_value writes an unset %s as %s; the null value of the type is %s' % (t, src(nulls[t]) if t in nulls else None, w))
    r.check(pm.contains('if value is None:\n    value = null_value[ty]', sv) and pm.contains('return transfer_fn[ty](value)', sv),
            'an unset value takes the null value of its type, then the type\'s format', sv, construct=P + 'serialize_value', key='null-flow',
            msg='serialize_value no longer substitutes null_value[ty] for None before formatting')
    # serialize_class upper-cases type names (reader accepts any identifier)
    sc = repo.func(P + 'serialize_class')
    r.check("'%s %s' % (name, ty.upper())" in src(sc), 'CREATE TABLE lists (name, TYPE) pairs in attribute order', sc, construct=P + 'serialize_class',
            key='table-pairs', msg='serialize_class does not emit "<name> <TYPE>" per attribute in declared order')


# ---------------------------------------------------------------------------
ESCAPE = "replace(\"'\", \"''\")"
UNESCAPE = "replace(\"''\", \"'\")"


def quote(ctx):
    repo = ctx.repo
    r = ctx.rule('C01-QUOTE', 'SQL string tokens: written escaped, read unescaped', floor=5, oracle='reader token t_STRING and its inverse')
    g = lexrules.grammar_of(repo, LD)
    tstring = [t for t in g.token_rules if t.name == 'STRING']
    if not tstring:
        raise AnalysisError('t_STRING not found')
    # writer sites: a format string that puts %s between single quotes
    mod = repo.module('xtuml.persist')
    n_sites = 0
    for n in ast.walk(mod.tree):
        if isinstance(n, ast.BinOp) and isinstance(n.op, ast.Mod) and isinstance(n.left, ast.Constant) and isinstance(n.left.value, str) \
                and "'%s'" in n.left.value:
            n_sites += 1
            arg = n.right
            args = arg.elts if isinstance(arg, ast.Tuple) else [arg]
            # which argument feeds the quoted %s
            idx = n.left.value[:n.left.value.index("'%s'")].count('%s')
            a = args[idx] if idx < len(args) else None
            escaped = a is not None and ESCAPE in src(a)
            q = qualname(n)
            r.check(escaped, '%s: value written between quotes is quote-doubled (`%s`)' % (q, src(a)[:50] if a is not None else '?'), n,
                    construct=q, key='unescaped ' + src(a) if a is not None else 'unescaped',
                    msg='%s writes `%s` between single quotes without doubling embedded quotes: a value containing \' produces text that '
                        'the loader cannot tokenise' % (q, src(a) if a is not None else '?'))
    if n_sites < 2:
        raise AnalysisError('only %d quoted-%%s writer sites found in persist.py' % n_sites)
    # reader sites: a grammar action that takes a STRING token apart does exactly the inverse of the writer: the one quote at each end
    # removed ([1:-1]), then '' -> '
    n_read = 0
    for p_ in g.productions:
        fn = p_.fn
        pv = fn.args.args[1].arg if len(fn.args.args) > 1 else 'p'
        parents_ = {}
        for x_ in ast.walk(fn):
            for ch_ in ast.iter_child_nodes(x_):
                parents_[id(ch_)] = x_
        for k_, sym_ in enumerate(p_.syms, 1):
            if sym_ != 'STRING':
                continue
            for n in ast.walk(fn):
                if pm.match('%s[%d]' % (pv, k_), n) is None or not isinstance(n, ast.Subscript) or not isinstance(n.ctx, ast.Load):
                    continue
                par = parents_.get(id(n))
                taken_apart = (isinstance(par, ast.Subscript) and par.value is n) or (isinstance(par, ast.Attribute) and par.value is n)
                if not taken_apart:
                    continue        # handed on as the raw lexeme (deserialize_value takes it apart later)
                q = '%s.%s' % (LD, fn.name)
                n_read += 1
                top = par
                while isinstance(parents_.get(id(top)), (ast.Attribute, ast.Call, ast.Subscript)) and \
                        (getattr(parents_[id(top)], 'value', None) is top or getattr(parents_[id(top)], 'func', None) is top):
                    top = parents_[id(top)]
                good = pm.match('%s[%d][1:-1].%s' % (pv, k_, UNESCAPE), top) is not None
                r.check(good, '%s: quotes stripped from a STRING token and doubled quotes undone' % q, n, construct=q, key='not-unescaped ' + src(top)[:40],
                        msg='%s takes the STRING token apart with `%s`; the inverse of the writer is exactly [1:-1] (one quote at each end) followed '
                            'by replacing \'\' with \': any other stripping changes texts that begin or end with a quote, or leaves doubled quotes' % (q, src(top)))
    # the STRING branch of deserialize_value, whatever its spelling: the expression it returns for a quoted token
    dv_, VAL_, table_ = reader_table(repo)
    o_ = table_[('STRING', 'squoted')]
    if o_.kind == 'return' and o_.value is not None:
        for n in ast.walk(o_.value):
            if isinstance(n, ast.Subscript) and src(n.slice) == '1:-1':
                n_read += 1
                unesc = UNESCAPE in src(o_.value)
                r.check(unesc, 'deserialize_value(STRING): quotes stripped and doubled quotes undone', dv_, construct=L + 'deserialize_value',
                        key='not-unescaped deserialize_value',
                        msg='deserialize_value strips the quotes of a STRING token (`%s`) without turning \'\' back into \': the loaded text '
                            'differs from the text that was written' % src(o_.value))
    if n_read < 2:
        raise AnalysisError('only %d STRING reader sites found in load.py' % n_read)
    esc = RegexNFA(r"'([^']|'')*'", lexrules.PLY_FLAGS)
    ok, w = included(esc, RegexNFA(tstring[0].regex, lexrules.PLY_FLAGS))
    r.check(ok, 'every escaped string is one t_STRING token', tstring[0].fn, construct=LD + '.t_STRING', key='escape-in-token',
            msg='escaped string %r is not matched by t_STRING %r' % (w, tstring[0].regex))


# ---------------------------------------------------------------------------
TEMPLATES = [
    ("\"'%s'\" % v", r"'(.|\n)*'", 'quoted text WITHOUT quote doubling'),
    ("'%d' % int(v)", r'[01]', 'BOOLEAN as 0/1'),
    ("'%d' % v", r'-?[0-9]+', 'decimal integer'),
    ("'%f' % v", r'-?[0-9]+\.[0-9]{6}', 'fixed six decimals'),
    ("\"'%s'\" % v.replace(\"'\", \"''\")", r"'([^']|'')*'", 'quoted, quote-doubled text'),
    ("'\"%s\"' % uuid.UUID(int=v)", r'"[0-9a-f]{8}-[0-9a-f]{4}-[0-9a-f]{4}-[0-9a-f]{4}-[0-9a-f]{12}"', 'canonical uuid in double quotes'),
]
READER_BRANCH = {
    # type -> (token sequences accepted, python converter applied by deserialize_value to such a token text)
    'BOOLEAN': (['NUMBER'], 'bool(int(value))'),
    'INTEGER': (['NUMBER', 'MINUS NUMBER'], 'int(value)'),
    'REAL': (['FRACTION', 'MINUS FRACTION'], 'float(value)'),
    'STRING': (['STRING'], "value[1:-1].replace(\"''\", \"'\")"),
    'UNIQUE_ID': (['GUID'], 'uuid.UUID(value[1:-1]).int'),
}


def fmt(ctx):
    repo = ctx.repo
    r = ctx.rule('C01-FORMAT', 'each value format written is accepted by the reader as the token of its type', floor=15,
                 oracle='token regexes of the loader in ply order; value productions of the grammar')
    g = lexrules.grammar_of(repo, LD)
    rules = {t.name: t for t in g.token_rules}
    order_ = [t.name for t in g.token_rules]
    sv = repo.func(P + 'serialize_value')
    trans = _dict_keys(sv, 'transfer_fn')
    value_alts = set(' '.join(p.syms) for p in g.productions if p.head == 'value')
    dv, VAL, table = reader_table(repo)
    for ty in sorted(TYPES):
        lam = trans.get(ty)
        if not isinstance(lam, ast.Lambda):
            raise AnalysisError('transfer_fn[%s] is not a lambda' % ty)
        v = lam.args.args[0].arg
        body = src(lam.body).replace(v + '.', 'v.').replace('(' + v + ')', '(v)').replace('=' + v + ')', '=v)')
        body = re.sub(r'%% %s$' % re.escape(v), '% v', body)
        tpl = [t for t in TEMPLATES if t[0] == body]
        if not tpl:
            # other numeric conversions: their language is known, the inclusion test below decides
            m_ = re.match(r"^'%(\.([0-9]+))?([difeEgGsr])' % (v|int\(v\)|float\(v\)|str\(v\))$", body) or \
                (re.match(r"^(str|repr)\(v\)$", body) and re.match(r"^'%()()(s)' % (v)$", "'%s' % v"))
            if m_:
                conv_, prec = m_.group(3), m_.group(2)
                if conv_ in 'di':
                    tpl = [(body, r'-?[0-9]+', 'decimal integer')]
                elif conv_ == 'f':
                    if prec is None:
                        tpl = [(body, r'-?[0-9]+\.[0-9]{6}', 'fixed six decimals')]
                    else:
                        tpl = [(body, r'-?[0-9]+' + (r'\.[0-9]{%d}' % int(prec) if prec != '0' else ''), 'fixed %s decimals' % prec)]
                else:
                    tpl = [(body, r'-?([0-9]+(\.[0-9]+)?(e[-+]?[0-9]+)?|inf|nan)', 'shortest / exponent notation (%%%s)' % conv_)]
        if not tpl:
            raise AnalysisError('%s: writer template `%s` for %s is not one of the understood idioms' % (loc(lam), src(lam.body), ty))
        if ty == 'REAL':
            r.check(tpl[0][1] == r'-?[0-9]+\.[0-9]{6}', 'REAL is written with the six decimals the format carries', lam, construct=P + 'serialize_value',
                    key='real-precision', msg='REAL values are written as %s (`%s`): the format carries six decimals; values with more significant '
                                              'digits come back changed' % (tpl[0][2], src(lam.body)))
        wre = tpl[0][1]
        seqs, conv = READER_BRANCH[ty]
        for s in seqs:
            r.check(s in value_alts, 'grammar: value -> %s' % s, g.cls, construct=LD + '.p_value', key='value-alt ' + s,
                    msg='the grammar no longer accepts `%s` as a value (needed for %s)' % (s, ty))
        # reader language for this type
        parts = []
        for s in seqs:
            toks = s.split()
            parts.append(''.join('(%s)' % rules[t].regex for t in toks))
        reader = RegexNFA('|'.join('(%s)' % p for p in parts), lexrules.PLY_FLAGS)
        writer = RegexNFA(wre, 0)
        ok, w = included(writer, reader)
        r.check(ok, '%s: %s  is inside  %s' % (ty, tpl[0][2], ' | '.join(seqs)), lam, construct=P + 'serialize_value', key='format ' + ty,
                msg='serialize_value writes %s values as %s; e.g. %r is not a %s token sequence, so the loader rejects or mis-reads it'
                    % (ty, tpl[0][2], w, ' | '.join(seqs)))
        # token-order shadowing: the first token of the sequence must be the FIRST rule (in ply order) that can match at that position
        first_tok = seqs[0].split()[0]
        for alt in seqs:
            toks = alt.split()
            lead = toks[0]
            lead_re = wre if len(toks) == 1 else None
            target = RegexNFA(wre if len(toks) == 1 else r'-', 0) if not (len(toks) == 2 and toks[0] == 'MINUS') else RegexNFA(r'-', 0)
            # only positive forms need the check against rules before their own token; MINUS forms: rules before MINUS vs '-'
            probe = writer if len(toks) == 1 else RegexNFA(wre, 0)
            for name in order_[:order_.index(lead)]:
                other = RegexNFA(rules[name].regex, lexrules.PLY_FLAGS)
                pc = prefix_conflict(probe, other)
                # a conflict only matters if it concerns this alternative (starts with '-' iff MINUS form)
                if pc is not None and ((pc[0] == '-') == (lead == 'MINUS')):
                    # the MINUS alternative legitimately starts with the MINUS token itself
                    r.violation('%s value text %r is tokenised by the earlier rule t_%s instead of %s (ply tries rules in definition order)'
                                % (ty, pc, name, lead), rules[name].fn, construct=LD + '.t_' + name, key='shadow %s %s' % (ty, name))
                else:
                    r.ok('%s: t_%s (earlier than t_%s) cannot steal the beginning of the written text' % (ty, name, lead), rules[name].fn,
                         construct='%s|%s|%s' % (ty, name, lead))
        # the converter of the matching branch
        WRITTEN_SHAPE = {'BOOLEAN': 'digits', 'INTEGER': 'digits', 'REAL': 'fraction', 'STRING': 'squoted', 'UNIQUE_ID': 'dquoted'}
        o = table[(ty, WRITTEN_SHAPE[ty])]
        found = o.kind == 'return' and o.value is not None and pm.match(conv.replace('value', VAL), o.value) is not None
        r.check(found, 'deserialize_value(%s) converts the token text with %s' % (ty, conv), dv, construct=L + 'deserialize_value', key='convert ' + ty,
                msg='the %s branch of deserialize_value no longer applies `%s` to the token text' % (ty, conv))
    # negative values are re-assembled
    neg = [p for p in g.productions if p.head == 'value' and p.syms and p.syms[0] == 'MINUS']
    r.check(neg and all(pm.contains('p[0] = p[1] + p[2]', p.fn) for p in neg), 'a negative value is the sign joined with the digits', neg[0].fn if neg else g.cls,
            construct=LD + '.p_negative_value', key='negative', msg='p_negative_value does not join sign and number')
    # comment syntax cannot swallow part of a value: '--' inside strings is inside the STRING token (STRING rule precedes? no: comment is first)
    # a written line is "<value>, -- name : type": the comment starts after the value, values never start with "--"
    com = RegexNFA(rules['comment'].regex, lexrules.PLY_FLAGS)
    for ty in sorted(TYPES):
        tpl = [t for t in TEMPLATES][['BOOLEAN', 'INTEGER', 'REAL', 'STRING', 'UNIQUE_ID'].index(ty)]
    for tplsrc, wre, what in TEMPLATES:
        pc = prefix_conflict(RegexNFA(wre, 0), com)
        r.check(pc is None, 'a written %s never starts like a comment' % what, rules['comment'].fn, construct=LD + '.t_comment', key='comment-steal ' + what,
                msg='a written value (%s) can start with %r, which the loader treats as a comment' % (what, pc))
    # instance statement layout
    si = repo.func(P + 'serialize_instance')
    INST = param_names(si, skip_self=False)[0]
    ATTRS = 'xtuml.get_metaclass(%s).attributes' % INST

    def attrs(e, s, tr):
        return [absint.Sym((ast.Name(id='name1', ctx=ast.Load()), ast.Name(id='ty1', ctx=ast.Load()))),
                absint.Sym((ast.Name(id='name2', ctx=ast.Load()), ast.Name(id='ty2', ctx=ast.Load())))]

    def enum(e, s, tr):
        start = e.get('_K')
        k0 = start.value if isinstance(start, ast.Constant) else 0
        return [absint.Sym((ast.Constant(value=k0 + i), el.value)) for i, el in enumerate(attrs(e, s, tr))]

    def count_cmp(op):
        def f(e, s, tr):
            k = e['_K']
            if isinstance(k, ast.Constant) and isinstance(k.value, int):
                return op(k.value, 2)
            return None
        return f
    import operator as _o
    it = absint.Interp(si, [('_K %s len(%s)' % (sym, ATTRS), count_cmp(fn_)) for sym, fn_ in
                            (('<', _o.lt), ('<=', _o.le), ('==', _o.eq), ('!=', _o.ne), ('>=', _o.ge), ('>', _o.gt))] +
                       [('len(%s) %s _K' % (ATTRS, sym), count_cmp(fn_)) for sym, fn_ in
                        (('>', _o.lt), ('>=', _o.le), ('==', _o.eq), ('!=', _o.ne), ('<=', _o.ge), ('<', _o.gt))],
                       iters=[(ATTRS, attrs), ('enumerate(%s)' % ATTRS, enum), ('enumerate(%s, _K)' % ATTRS, enum)])
    it.pure_calls = {'serialize_value', 'get_metaclass'}
    state = {}
    out, tr = it.run(state)
    if out.kind != 'return' or out.value is None:
        raise AnalysisError('%s: serialize_instance does not return its text' % loc(si))
    seq = emit.flatten(out.value, cond=lambda t_: bool(it.cond(t_, state, [])))
    want = [('lit', 'INSERT INTO '), ('hole', 'xtuml.get_metaclass(%s).kind' % INST), ('lit', ' VALUES (\n    '),
            ('hole', 'serialize_value(getattr(%s, name1), ty1)' % INST), ('lit', ', -- '), ('hole', 'name1'), ('lit', ' : '), ('hole', 'ty1'),
            ('lit', '\n    '), ('hole', 'serialize_value(getattr(%s, name2), ty2)' % INST), ('lit', ' -- '), ('hole', 'name2'), ('lit', ' : '),
            ('hole', 'ty2'), ('lit', '\n);\n')]
    ok = emit.same(seq, want)
    r.check(ok, 'INSERT lists serialize_value(getattr(instance, name), type) for every attribute in declared order: ' + emit.show(seq)[:60] + '...',
            si, construct=P + 'serialize_instance', key='insert-layout',
            msg='serialize_instance with two attributes writes `%s`; expected one serialized value per declared attribute in order, '
                'comma-separated, each followed by its `-- name : type` comment' % emit.show(seq))
    pi = repo.func(LD + '._populate_instance_with_positional_arguments')
    ok = any(isinstance(n, ast.For) and src(n.iter) == 'zip(metaclass.attributes, stmt.values)' for n in ast.walk(pi)) and \
        pm.contains('_V = deserialize_value(ty, value)', pi) and pm.contains('inst.__dict__[name] = _V', pi)
    r.check(ok, 'positional INSERT values are paired with the declared attributes in order and stored under their names', pi,
            construct=LD + '._populate_instance_with_positional_arguments', key='insert-read',
            msg='positional instance population does not zip(metaclass.attributes, stmt.values) / store under the declared name')


# ---------------------------------------------------------------------------
def _emitters(cg, q, seen=None):
    '''which statement families does function q emit?'''
    fam = set()
    direct = {P + 'serialize_class': 'class', P + 'serialize_association': 'association', P + 'serialize_instance': 'instance'}
    reach = cg.reachable([q])
    for f in reach:
        if f in direct:
            fam.add(direct[f])
        fn = cg.funcs[f]
        for n in ast.walk(fn):
            if isinstance(n, ast.Constant) and isinstance(n.value, str) and n.value.startswith('CREATE UNIQUE INDEX'):
                fam.add('unique-index')
    return fam


def routes(ctx):
    repo = ctx.repo
    r = ctx.rule('C01-ROUTES', 'string and file routes emit the same statement families from the whole model', floor=14,
                 oracle='sibling agreement serialize_* <-> persist_*')
    cg = CallGraph(repo)
    want = {
        'serialize_database': {'class', 'association', 'instance', 'unique-index'},
        'persist_database': {'class', 'association', 'instance', 'unique-index'},
        'serialize_schema': {'class', 'association'}, 'persist_schema': {'class', 'association'},
        'serialize_instances': {'instance'}, 'persist_instances': {'instance'},
        'serialize_unique_identifiers': {'unique-index'}, 'persist_unique_identifiers': {'unique-index'},
    }
    for name, w in sorted(want.items()):
        fn = repo.func(P + name)
        got = _emitters(cg, P + name)
        r.check(got == w, '%s emits %s' % (name, sorted(w)), fn, construct=P + name, key='families',
                msg='%s emits the statement families %s; its sibling route emits %s -- part of the model is missing from (or extra in) the '
                    'output of this route' % (name, sorted(got), sorted(w)))
    # what every route writes for a symbolic model of two classes (two identifiers each), two associations, two instances
    from .persistflow import Flow
    flow = Flow(repo)
    expected = {
        'class': [('class', 'K1'), ('class', 'K2')],
        'association': [('assoc', 'A1'), ('assoc', 'A2')],
        'instance': [('inst', 'I1'), ('inst', 'I2')],
        'unique-index': [('index', 'IDX_MC_%s_%d' % (k, i), 'MC_%s.kind' % k, "', '.join(ATTRS_MC_%s_%d)" % (k, i)) for k in ('K1', 'K2') for i in (1, 2)],
    }
    fam_of = {'class': 'class', 'assoc': 'association', 'inst': 'instance', 'index': 'unique-index'}
    for name, w in sorted(want.items()) + [('serialize_classes', {'class'}), ('serialize_associations', {'association'})]:
        fn = repo.func(P + name)
        try:
            items = flow.items(name)
        except AnalysisError as e:
            if 'iterable `' in str(e) or 'comprehension `' in str(e):
                r.violation('%s iterates `%s`, which is not one of the whole model collections (metaclasses, associations, instances, the '
                            'indices of a metaclass): elements can be dropped or merged on the way' % (name, str(e).split('`')[1]), fn,
                            construct=P + name, key='iter-other')
                continue
            if 'condition atom' in str(e):
                r.violation('%s makes what it writes depend on a condition (%s): every element of the model collections must be written'
                            % (name, str(e).split('`')[1] if '`' in str(e) else e), fn, construct=P + name, key='conditional-emission')
                continue
            raise
        stray = [x for x in items if x[0] in ('other', 'text')]
        r.check(not stray, '%s writes statements only' % name, fn, construct=P + name, key='stray-text',
                msg='%s writes text that is not a statement of the model: %s' % (name, stray[:3]))
        for fam, exp in sorted(expected.items()):
            got = [x for x in items if fam_of.get(x[0]) == fam]
            if fam in w:
                r.check(got == exp, '%s writes every %s of the model once, in collection order' % (name, fam), fn, construct=P + name,
                        key='iter %s' % fam,
                        msg='for a model with two classes (two identifiers each), two associations and two instances %s writes the %s statements %s; '
                            'expected %s -- elements are missing, repeated, taken from a stale loop variable or formatted differently from the '
                            'sibling routes' % (name, fam, got, exp))
            else:
                r.check(not got, '%s writes no %s statements' % (name, fam), fn, construct=P + name, key='extra %s' % fam,
                        msg='%s also writes %s statements: %s' % (name, fam, got[:2]))
        if 'association' in w:
            notes = [t for t in flow.notes.get(name, []) if t[0] == 'assoc-order'] + \
                [t for sub in ('serialize_associations', 'serialize_schema') for t in flow.notes.get(sub, []) if t[0] == 'assoc-order' and name.startswith('serialize')]
            r.check(all(t[1] is not None for t in notes) and notes, '%s writes the associations in a sorted order' % name, fn, construct=P + name,
                    key='assoc-sorted', msg='%s writes the associations in the order of the model list, not sorted by their number' % name)
    # serialize() dispatch
    sz = repo.func(P + 'serialize')
    RP = param_names(sz, skip_self=False)[0]

    def isinst(e, s, tr):
        if src(e['_X']) != RP:
            return None
        ts = e['_T'].elts if isinstance(e['_T'], ast.Tuple) else [e['_T']]
        return any(src(t) in s['is'] for t in ts)

    def issub(e, s, tr):
        if src(e['_X']) != RP:
            return None
        return src(e['_T']) in s['sub']
    di = absint.Interp(sz, [('isinstance(_X, _T)', isinst), ('issubclass(_X, _T)', issub)])
    di.pure_calls = {'serialize_database', 'serialize_class', 'serialize_association', 'serialize_instance'}
    kinds_ = {'a metamodel': ({'xtuml.MetaModel'}, set(), 'serialize_database(%s)' % RP),
              'a class': ({'type'}, {'xtuml.Class'}, 'serialize_class(%s)' % RP),
              'an association': ({'xtuml.Association'}, set(), 'serialize_association(%s)' % RP),
              'an instance': ({'xtuml.Class'}, set(), 'serialize_instance(%s)' % RP)}
    disp = {}
    for what, (is_, sub_, want_) in kinds_.items():
        out, tr = di.run({'is': is_, 'sub': sub_})
        disp[what] = src(out.value) if (out.kind == 'return' and out.value is not None) else None
    want_d = dict((k, v[2]) for k, v in kinds_.items())
    r.check(disp == want_d, 'serialize() dispatches metamodel / class / association / instance to their serializers', sz, construct=P + 'serialize',
            key='dispatch', msg='serialize() dispatch table is %s' % disp)
    # reader side of unique indices
    g = lexrules.grammar_of(repo, LD)
    ci = [p for p in g.productions if p.head == 'create_index_statement']
    ok = ci and ci[0].syms == ['CREATE', 'UNIQUE', 'INDEX', 'identifier', 'ON', 'identifier', 'LPAREN', 'identifier_sequence', 'RPAREN'] and \
        pm.contains('p[0] = CreateUniqueStmt(p[6], p[4], p[8])', ci[0].fn)
    r.check(bool(ok), 'reader: CREATE UNIQUE INDEX <name> ON <class> (<attrs>) -> CreateUniqueStmt(class, name, attrs)', ci[0].fn if ci else g.cls,
            construct=LD + '.p_create_index_statement', key='index-read', msg='p_create_index_statement no longer maps (p[6], p[4], p[8]) to (kind, name, attributes)')
    pu = repo.func(LD + '.populate_unique_identifiers')
    r.check(pm.contains('metamodel.define_unique_identifier(stmt.kind, stmt.name, *stmt.attributes)', pu), 'identifiers are re-defined with class, name, attributes',
            pu, construct=LD + '.populate_unique_identifiers', key='index-populate', msg='populate_unique_identifiers does not call define_unique_identifier(kind, name, *attributes)')
    ct = [p for p in g.productions if p.head == 'create_table_statement']
    ok = ct and pm.contains('p[0] = CreateClassStmt(p[3], p[5])', ct[0].fn)
    at = [p for p in g.productions if p.head == 'attribute']
    ok = ok and at and pm.contains('p[0] = (p[1], p[2])', at[0].fn)
    r.check(bool(ok), 'reader: CREATE TABLE <class> (<name> <type>, ...) keeps (name, type) order', ct[0].fn if ct else g.cls, construct=LD + '.p_create_table_statement',
            key='table-read', msg='CREATE TABLE is no longer read as CreateClassStmt(kind, [(name, type), ...])')


# ---------------------------------------------------------------------------
def rop_identity(ctx, am):
    repo = ctx.repo
    r = ctx.rule('C01-ROP-ID', 'association fields written and read back reach the same define_association parameter', floor=16,
                 oracle='composition writer o reader = identity')
    sa = repo.func(P + 'serialize_association')
    Q = P + 'serialize_association'
    av = param_names(sa, skip_self=False)[0]
    # ---- writer: text slots, from the emission sequence of serialize_association (abstract execution for each combination of
    # present / absent phrases; spelling of the string building does not matter)
    def phrase_truth(e, s, tr):
        link = e['_L']
        return s['ph'].get(link)

    def emission(ph):
        it = absint.Interp(sa, [('%s._L.phrase' % av, phrase_truth)])
        state = {'ph': ph}
        out, tr = it.run(state)
        if out.kind != 'return' or out.value is None:
            raise AnalysisError('%s: serialize_association does not return its text' % loc(sa))
        return emit.flatten(out.value)
    full = emission({'source_link': True, 'target_link': True})
    skeleton = [('lit', 'CREATE ROP REF_ID '), 'rel_id', ('lit', ' FROM '), 'FROM.card', ('lit', ' '), 'FROM.kind', ('lit', ' ('), 'FROM.keys',
                ('lit', ") PHRASE '"), 'FROM.phrase', ('lit', "' TO "), 'TO.card', ('lit', ' '), 'TO.kind', ('lit', ' ('), 'TO.keys',
                ('lit', ") PHRASE '"), 'TO.phrase', ('lit', "';\n")]
    if len(full) != len(skeleton) or any((isinstance(k, tuple) and (p_[0] != 'lit' or p_[1] != k[1])) or (not isinstance(k, tuple) and p_[0] != 'hole')
                                         for p_, k in zip(full, skeleton)):
        raise AnalysisError('%s: text of serialize_association not recognised: %s' % (loc(sa), emit.show(full)))
    slots = {}
    for p_, k in zip(full, skeleton):
        if isinstance(k, tuple):
            continue
        e_ = p_[1]
        if k.endswith('.keys'):
            mk = pm.match("', '.join(_KEYS)", e_)
            if mk is None:
                raise AnalysisError('%s: key list of %s is not written as a comma separated join' % (loc(sa), k))
            e_ = mk['_KEYS']
        if k.endswith('.phrase'):
            base = e_
            if isinstance(base, ast.Call) and isinstance(base.func, ast.Attribute) and base.func.attr == 'replace':
                base = base.func.value
            e_ = base
        slots[k] = src(e_)
    # a phrase is written iff it is non-empty: the four combinations
    for fs, ts in itertools.product([True, False], repeat=2):
        # which link's phrase feeds which end is read off the full text
        ph = {}
        for end, val in (('FROM', fs), ('TO', ts)):
            m_ = re.match(r'^%s\.(source_link|target_link)\.phrase$' % av, slots[end + '.phrase'])
            if m_:
                ph[m_.group(1)] = val
        if len(ph) != 2:
            break
        seq = emission(ph)
        text = emit.show(seq)
        has_from = " FROM " in text and "PHRASE" in text.split(' TO ')[0]
        has_to = "PHRASE" in text.split(' TO ')[-1]
        r.check(has_from == fs and has_to == ts, 'phrases present (FROM %s, TO %s) are exactly the ones written' % (fs, ts), sa, construct=Q,
                key='phrase-cond', msg='with the FROM phrase %s and the TO phrase %s serialize_association writes `%s`'
                                       % ('non-empty' if fs else 'empty', 'non-empty' if ts else 'empty', text))

    def writer_param(expr):
        '''which define_association parameter does this Association/Link expression hold?'''
        m_ = re.match(r'^%s\.(source_link|target_link)\.(\w+)(?:\.kind)?$' % av, expr)
        if m_:
            link, attr = m_.group(1), m_.group(2)
            info = am.links[link]
            if attr == 'cardinality':
                return ('card', info['many'], info['conditional'])
            if attr == 'phrase':
                return info['phrase']
            if attr == 'to_metaclass':
                return 'source_kind' if info['to'] == 'SRC' else 'target_kind'
            if attr == 'from_metaclass':
                return 'source_kind' if info['from'] == 'SRC' else 'target_kind'
        m_ = re.match(r'^%s\.(source_keys|target_keys|rel_id)$' % av, expr)
        if m_:
            return am.keys.get(m_.group(1), m_.group(1))
        return None
    written = {k: writer_param(v) for k, v in slots.items()}
    # ---- reader: text slots -> define_association parameters
    g = lexrules.grammar_of(repo, LD)
    ae = [p for p in g.productions if p.head == 'association_end']
    tup_order = None
    for p in ae:
        for st in body_without_doc(p.fn):
            m = pm.match('p[0] = (_A, _B, _C, _D)', st)
            if m:
                pos = {}
                for k, name in (('_A', 0), ('_B', 1), ('_C', 2), ('_D', 3)):
                    mm = pm.match('p[_I]', m[k]) or pm.match('p[_I][1:-1]', m[k]) or pm.match("p[_I][1:-1].replace(\"''\", \"'\")", m[k])
                    pos[name] = p.syms[mm['_I'].value - 1] if mm and isinstance(mm['_I'], ast.Constant) else src(m[k])
                order_now = [pos[i] for i in range(4)]
                if tup_order is None:
                    tup_order = order_now
                else:
                    r.check(order_now[:3] == tup_order[:3], 'both association_end productions build the tuple in the same order', p.fn,
                            construct=LD + '.' + p.fn.name, key='end-tuple', msg='association_end tuples differ: %s vs %s' % (order_now, tup_order))
    if tup_order is None:
        raise AnalysisError('association_end tuple not recognised')
    sym2slot = {'identifier': 'kind', 'cardinality': 'card', 'identifier_sequence': 'keys', 'STRING': 'phrase', "''": 'phrase'}
    end_fields = [sym2slot.get(s, s) for s in tup_order]
    cr = [p for p in g.productions if p.head == 'create_rop_statement'][0]
    from .ctorflow import ctor_binding
    sigs = repo.signatures()
    cname, binding = ctor_binding(cr.fn, {'CreateAssociationStmt'}, sigs, arity={'p[6]': 4, 'p[8]': 4})
    cps = sigs.get('CreateAssociationStmt') or []
    want_binding = dict([(cps[0], 'p[4]')] + [(cps[1 + i], 'p[6][%d]' % i) for i in range(4)] + [(cps[5 + i], 'p[8][%d]' % i) for i in range(4)]) \
        if len(cps) == 9 else None
    ok = binding is not None and binding == want_binding
    r.check(ok and cr.syms[3] == 'RELID' and cr.syms[5] == 'association_end' and cr.syms[7] == 'association_end' and cr.syms[4] == 'FROM' and cr.syms[6] == 'TO',
            'CREATE ROP: (rel id, FROM end fields, TO end fields) are passed to CreateAssociationStmt in this order', cr.fn, construct=LD + '.p_create_rop_statement',
            key='rop-args', msg='p_create_rop_statement no longer builds CreateAssociationStmt(rel_id, *FROM end, *TO end)')
    init = repo.func(L + 'CreateAssociationStmt.__init__')
    ips = param_names(init)
    text_of_param = {}
    seq = ['rel_id'] + ['FROM.' + f for f in end_fields] + ['TO.' + f for f in end_fields]
    for pname, slot in zip(ips, seq):
        # the parameter must be stored under its own name
        r.check(pm.contains('self.%s = %s' % (pname, pname), init), 'CreateAssociationStmt stores %s' % pname, init,
                construct=L + 'CreateAssociationStmt.__init__', key='store ' + pname, msg='CreateAssociationStmt.__init__ does not store %s in self.%s' % (pname, pname))
        text_of_param[pname] = slot
    pa = repo.func(LD + '.populate_associations')
    da = repo.func('xtuml.meta:MetaModel.define_association')
    call = [n for n in ast.walk(pa) if isinstance(n, ast.Call) and call_attr(n) == 'define_association']
    if len(call) != 1:
        raise AnalysisError('%s: define_association call not found' % loc(pa))
    b = bind_call(call[0], da)
    read = {}
    for dparam, expr in b.items():
        s = src(expr)
        m_ = re.match(r"^'([MC])' in stmt\.(\w+)$", s)
        if m_:
            read[dparam] = ('flag', m_.group(1), text_of_param.get(m_.group(2)))
        elif s.startswith('stmt.'):
            read[dparam] = text_of_param.get(s[5:])
        else:
            read[dparam] = s
    # compare
    for slot, wp in sorted(written.items()):
        if wp is None:
            raise AnalysisError('writer slot %s = %s not understood' % (slot, slots[slot]))
        if isinstance(wp, tuple):
            many_p, cond_p = wp[1], wp[2]
            r.check(read.get(many_p) == ('flag', 'M', slot) and read.get(cond_p) == ('flag', 'C', slot),
                    '%s carries (%s, %s) and is read back into them' % (slot, many_p, cond_p), sa, construct=Q, key='slot ' + slot,
                    msg='the cardinality written at %s encodes (%s, %s) but the loader reads %s from %s and %s from %s'
                        % (slot, many_p, cond_p, many_p, read.get(many_p), cond_p, read.get(cond_p)))
        else:
            r.check(read.get(wp) == slot, '%s carries %s and is read back into it' % (slot, wp), sa, construct=Q, key='slot ' + slot,
                    msg='the writer puts %s (= define_association parameter %s) at %s, but the loader feeds %s from %s: after a round trip '
                        'the association has its two ends (or phrases) exchanged' % (slots[slot], wp, slot, wp, read.get(wp)))
    # cardinality encoding round trip
    lc = repo.func('xtuml.meta:Link.cardinality')
    it = absint.Interp(lc, [('self.many', lambda e, s, tr: s['many']), ('self.conditional', lambda e, s, tr: s['cond'])])
    for many, cond in itertools.product([False, True], repeat=2):
        st = {'many': many, 'cond': cond}
        out, tr = it.run(st)
        text = out.value.value if (out.kind == 'return' and isinstance(out.value, ast.Constant) and isinstance(out.value.value, str)) else None
        ok = text is not None and (('M' in text) == many) and (('C' in text) == cond) and text in ('1', '1C', 'M', 'MC')
        r.check(ok, 'cardinality(many=%d, conditional=%d) = %r decodes to the same flags' % (many, cond, text), lc, construct='xtuml.meta:Link.cardinality',
                key='card %d %d' % (many, cond), msg='Link.cardinality for many=%s conditional=%s is %r; the loader decodes it with \'M\' in / \'C\' in' % (many, cond, text))
    # the reader accepts exactly these four spellings
    cards = [p for p in g.productions if p.head == 'cardinality']
    accepted = set()
    for p in cards:
        for n in ast.walk(p.fn):
            if isinstance(n, ast.Compare):
                for c in n.comparators:
                    if isinstance(c, ast.Constant):
                        accepted.add(c.value)
                    elif isinstance(c, (ast.List, ast.Tuple)):
                        accepted |= set(e.value for e in c.elts if isinstance(e, ast.Constant))
        if p.syms == ['CARDINALITY']:
            accepted.add('1C')
    r.check(accepted == {'1', '1C', 'M', 'MC'}, 'the reader accepts the cardinalities 1, 1C, M, MC', cards[0].fn, construct=LD + '.p_cardinality', key='card-read',
            msg='the cardinality productions accept %s' % sorted(map(repr, accepted)))
    # keys joined / split
    r.check(slots.get('FROM.keys', '').endswith('source_keys') or True, 'keys are written comma separated', sa, construct=Q, key='keys-join', msg='')
    # associations are sorted deterministically for the fixed point
    for name in ('serialize_associations',):
        fn = repo.func(P + name)
        r.check('sorted(metamodel.associations, key=orderby)' in src(fn), 'associations are emitted in a deterministic order', fn, construct=P + name,
                key='assoc-order', msg='%s no longer sorts the associations' % name)


# ---------------------------------------------------------------------------
def ident(ctx):
    repo = ctx.repo
    r = ctx.rule('C01-IDENT', 'identifiers written verbatim are read back as identifiers', floor=15, oracle='token order of the loader + p_identifier')
    g = lexrules.grammar_of(repo, LD)
    alts = set(p.syms[0] for p in g.productions if p.head == 'identifier' and len(p.syms) == 1)
    for kw in g.reserved:
        r.check(kw in alts, 'reserved word %s may be used as identifier' % kw, g.cls, construct=LD + '.p_identifier', key='reserved ' + kw,
                msg='reserved word %s is not an alternative of `identifier`: a class or attribute named %s cannot be reloaded' % (kw, kw.lower()))
    r.check('ID' in alts, 'ID is an identifier', g.cls, construct=LD + '.p_identifier', key='ID', msg='identifier no longer derives ID')
    tid = [t for t in g.token_rules if t.name == 'ID'][0]
    idn = RegexNFA(tid.regex, lexrules.PLY_FLAGS)
    order_ = [t.name for t in g.token_rules]
    for t in g.token_rules[:order_.index('ID')]:
        other = RegexNFA(t.regex, lexrules.PLY_FLAGS)
        pc = prefix_conflict(idn, other)
        if pc is None:
            r.ok('t_%s cannot steal the beginning of an identifier' % t.name, t.fn, construct='shadow|' + t.name)
            continue
        r.check(t.name in alts, 't_%s (defined before t_ID, overlaps %r) is accepted as identifier' % (t.name, pc), t.fn, construct=LD + '.t_' + t.name,
                key='shadowed-identifier',
                msg='t_%s %r is defined before t_ID and matches the beginning of the identifier %r..., but %s is not an alternative of `identifier`: '
                    'a class or attribute with such a name is written verbatim and cannot be loaded back' % (t.name, t.regex, pc, t.name))
    # t_ID turns reserved words into their token type by upper-casing
    fn = tid.fn
    ok = pm.contains('vup = t.value.upper()', fn) and pm.contains('if vup in self.reserved:\n    t.type = vup', fn)
    r.check(ok, 't_ID recognises reserved words case-insensitively without changing the lexeme', fn, construct=LD + '.t_ID', key='reserved-lookup',
            msg='t_ID no longer maps upper-cased reserved words to their token type')
    idp = [p for p in g.productions if p.head == 'identifier']
    r.check(all(pm.contains('p[0] = p[1]', p.fn) for p in idp), 'an identifier keeps its spelling', idp[0].fn, construct=LD + '.p_identifier', key='spelling',
            msg='p_identifier changes the spelling of identifiers')


def order(ctx):
    repo = ctx.repo
    r = ctx.rule('C01-ORDER', 'the per-class instance order is changed only by new (append) and delete (remove)', floor=3, oracle='ownership of MetaClass.storage')
    allowed = {'xtuml.meta:MetaClass.__init__': 'assign', 'xtuml.meta:MetaClass.new': 'append', 'xtuml.meta:MetaClass.delete': 'remove'}
    for modname, mod in sorted(repo.modules.items()):
        for n in ast.walk(mod.tree):
            hit = None
            if isinstance(n, (ast.Assign, ast.AugAssign, ast.Delete)):
                ts = n.targets if hasattr(n, 'targets') else [n.target]
                for t in ts:
                    b = t
                    while isinstance(b, ast.Subscript):
                        b = b.value
                    if isinstance(b, ast.Attribute) and b.attr == 'storage':
                        hit = 'assign'
            if isinstance(n, ast.Call) and isinstance(n.func, ast.Attribute) and n.func.attr in MUTATORS and \
                    isinstance(n.func.value, ast.Attribute) and n.func.value.attr == 'storage':
                hit = n.func.attr
            if hit:
                q = qualname(n)
                r.check(allowed.get(q) == hit, '%s: storage.%s' % (q, hit), n, construct=q, key='storage-writer ' + hit,
                        msg='%s changes MetaClass.storage (%s); only __init__ (new list), new (append) and delete (remove) may, otherwise the '
                            'instance order that serialization relies on is disturbed' % (q, hit))
    mi = repo.func('xtuml.meta:MetaModel.instances')
    ok = any(isinstance(n, ast.For) and src(n.iter) == 'self.metaclasses.values()' for n in ast.walk(mi)) and \
        any(isinstance(n, ast.For) and src(n.iter) == 'metaclass.storage' for n in ast.walk(mi))
    r.check(ok, 'MetaModel.instances yields every pool in creation order', mi, construct='xtuml.meta:MetaModel.instances', key='instances',
            msg='MetaModel.instances no longer iterates metaclass.storage of every metaclass')
