'''
C14 - Component extraction mirrors the BridgePoint class model.

  C14-KINDS     navigation chains of ooaofooa.py conform to the schema
  C14-SIDES     provenance of every define_association argument (which BridgePoint instance / attribute feeds which end)
  C14-DISPATCH  mk_association handles exactly the subtypes of R_REL (R206)
  C14-ORDER     attributes are taken along R103 in modelled order
  C14-TYPES     data type mapping, attribute list, identifiers
  C14-FORWARD   configuration parameters of the entry points reach mk_component
'''
import ast
import itertools

from ..src import AnalysisError, loc, src, dotted, call_attr, param_names, body_without_doc, walk_local, bind_call
from .. import pm, absint
from ..schema import schema as get_schema
from . import kindrules, chain

OOA = 'bridgepoint.ooaofooa'


def run(ctx):
    repo = ctx.repo
    ki = kindrules.infer(repo, OOA)
    ctx.guard(kindrules.kinds_rule, ctx, 'C14-KINDS', OOA, 55, ki)
    ctx.guard(sides, ctx)
    ctx.guard(dispatch, ctx)
    ctx.guard(order, ctx)
    ctx.guard(types, ctx)
    ctx.guard(forward, ctx)
    from . import scope
    ctx.guard(scope.containment, ctx, 'C14-SCOPE')
    from . import c01 as _c01
    from .common import AssocModel as _AM
    ctx.shared(_c01.rop_identity, ctx, _AM(ctx.repo))   # the extracted associations are written by serialize_association
    ctx.shared(_c01.quote, ctx)                         # ... and their phrases (free text with apostrophes) survive writing and loading the schema
    ctx.assume('the effect of edit scripts on concrete BridgePoint models is not decided')
    ctx.assume('writing the schema and loading it back is decided by the C01 rules')
    return ('Schema type-check of the ooaofooa navigations; provenance (after substituting local definitions) of each keyword '
            'argument of the three define_association call sites compared with the role table referring=R_RGO side / '
            'referred=R_RTO side; dispatch table vs schema subtypes; succession-order reader rule on R103; abstract table of '
            'the data type mapping; parameter forwarding of the public entry points.')


def _defs(fn):
    '''local name -> list of defining expressions (top-level statements incl. if/else branches)'''
    out = {}
    for n in ast.walk(fn):
        if isinstance(n, ast.FunctionDef) and n is not fn:
            continue
        if isinstance(n, ast.Assign):
            for t in n.targets:
                if isinstance(t, ast.Name):
                    out.setdefault(t.id, []).append(n.value)
                elif isinstance(t, ast.Tuple) and isinstance(n.value, ast.Call):
                    for i, e in enumerate(t.elts):
                        if isinstance(e, ast.Name):
                            out.setdefault(e.id, []).append(('tuple', i, n.value))
    return out


def _resolve(expr, defs, depth=0):
    '''source text of expr with single-definition locals substituted'''
    if depth > 60:
        return src(expr)
    if isinstance(expr, ast.Name) and expr.id in defs and len(defs[expr.id]) == 1:
        d = defs[expr.id][0]
        if isinstance(d, tuple):
            return '%s[%d]' % (_resolve(d[2], defs, depth + 1), d[1])
        return _resolve(d, defs, depth + 1)
    if isinstance(expr, ast.Attribute):
        return '%s.%s' % (_resolve(expr.value, defs, depth + 1), expr.attr)
    if isinstance(expr, ast.Call):
        args = [_resolve(a, defs, depth + 1) for a in expr.args]
        return '%s(%s)' % (_resolve(expr.func, defs, depth + 1), ', '.join(args))
    if isinstance(expr, ast.Subscript):
        return '%s[%s]' % (_resolve(expr.value, defs, depth + 1), src(expr.slice))
    return src(expr)


def _da_call(fn):
    calls = [n for n in ast.walk(fn) if isinstance(n, ast.Call) and call_attr(n) == 'define_association']
    if len(calls) != 1:
        raise AnalysisError('%s: expected one define_association call in %s' % (loc(fn), fn.name))
    return calls[0]


def sides(ctx):
    repo = ctx.repo
    r = ctx.rule('C14-SIDES', 'each end of a pyxtuml association is fed from the matching end of the BridgePoint relationship', floor=30,
                 oracle='formalize(): source = referring class = holder of source_keys; BridgePoint: R_RGO refers, R_RTO is referred to')
    da = repo.func('xtuml.meta:MetaModel.define_association')
    # ---- _get_related_attributes: l1 from O_RATTR (referential attribute), l2 from O_OIDA (identifying attribute)
    gra = repo.nfunc(OOA + ':_get_related_attributes')       # normal form: the temporaries are folded into the append calls
    Q = OOA + ':_get_related_attributes'
    ps = param_names(gra, skip_self=False)
    rets = [n for n in ast.walk(gra) if isinstance(n, ast.Return)]
    ok = len(rets) == 1 and isinstance(rets[0].value, ast.Tuple) and len(rets[0].value.elts) == 2
    if not ok:
        raise AnalysisError('%s: _get_related_attributes does not return a pair' % loc(gra))
    first, second = [src(e) for e in rets[0].value.elts]
    lp = [n for n in ast.walk(gra) if isinstance(n, ast.For)]
    if len(lp) != 1:
        raise AnalysisError('%s: loop of _get_related_attributes not found' % loc(gra))
    lp = lp[0]
    ref = lp.target.id
    body = lp.body
    app = {}
    cur = None
    for st in body:
        m = pm.match('_V = _E', st)
        if m and isinstance(m['_V'], ast.Name):
            cur = src(m['_E'])
            curv = m['_V'].id
        m = pm.match('_L.append(_X.Name)', st)
        if m:
            x_ = m['_X']
            app[src(m['_L'])] = cur if (isinstance(x_, ast.Name) and cur and x_.id == curv) else src(x_)
    r.check(app.get(first) == 'one(%s).O_RATTR[108].O_ATTR[106]()' % ref, 'first list = names of the referential attributes (O_RATTR over R108)',
            gra, construct=Q, key='l1', msg='the first list of _get_related_attributes is filled from `%s`, not from the referential attribute' % app.get(first))
    r.check(app.get(second) == 'one(%s).O_RTIDA[111].O_OIDA[110].O_ATTR[105]()' % ref,
            'second list = names of the identifying attributes referred to (O_OIDA over R110/R105)', gra, construct=Q, key='l2',
            msg='the second list of _get_related_attributes is filled from `%s`, not from the referred identifying attribute' % app.get(second))
    r.check(pm.match('many(%s).O_RTIDA[110].O_REF[111](_F)' % ps[1], lp.iter) is not None,
            'references are enumerated from the referred-to side (R_RTO) and filtered to the referring participant', lp, construct=Q, key='iter',
            msg='_get_related_attributes does not enumerate many(r_rto).O_RTIDA[110].O_REF[111](filter)')
    lam = [n for n in ast.walk(gra) if isinstance(n, ast.Lambda)]
    r.check(len(lam) == 1 and pm.match('%s.OIR_ID == %s.OIR_ID' % (lam[0].args.args[0].arg, ps[0]), lam[0].body) is not None,
            'only references of the referring participant (same OIR_ID) are taken', gra, construct=Q, key='filter',
            msg='the reference filter of _get_related_attributes is not `ref.OIR_ID == r_rgo.OIR_ID`')

    # ---- simple association
    fn = repo.func(OOA + ':mk_simple_association')
    Q = OOA + ':mk_simple_association'
    defs = _defs(fn)
    # r_form / r_rgo are reassigned in the unformalised branch: use the first definition
    first_defs = {k: [v[0]] for k, v in defs.items()}
    call = _da_call(fn)
    kw = {k.arg: k.value for k in call.keywords}
    rgo = "one(one(r_simp).R_FORM[208]()).R_RGO[205]()"
    rto = "one(one(r_simp).R_PART[207]()).R_RTO[204]()"
    want = {
        'rel_id': 'one(r_simp).R_REL[206]().Numb',
        'source_kind': 'one(%s).R_OIR[203].O_OBJ[201]().Key_Lett' % rgo,
        'target_kind': 'one(%s).R_OIR[203].O_OBJ[201]().Key_Lett' % rto,
        'source_keys': '_get_related_attributes(%s, %s)[0]' % (rgo, rto),
        'target_keys': '_get_related_attributes(%s, %s)[1]' % (rgo, rto),
        'source_conditional': 'one(r_simp).R_FORM[208]().Cond',
        'target_conditional': 'one(r_simp).R_PART[207]().Cond',
        'source_many': 'one(r_simp).R_FORM[208]().Mult',
        'target_many': 'one(r_simp).R_PART[207]().Mult',
    }
    _cmp(r, Q, call, kw, first_defs, want)
    _phrases(r, Q, fn, kw, 'source_o_obj.Obj_ID != target_o_obj.Obj_ID', {'source_phrase': 'r_part.Txt_Phrs', 'target_phrase': 'r_form.Txt_Phrs'})

    # ---- linked association
    outer = repo.func(OOA + ':mk_linked_association')
    inner = [n for n in outer.body if isinstance(n, ast.FunctionDef)]
    if len(inner) != 1:
        raise AnalysisError('%s: _mk_assoc not found' % loc(outer))
    fn = inner[0]
    Q = OOA + ':mk_linked_association._mk_assoc'
    s1, s2 = param_names(fn, skip_self=False)[:2]
    defs = dict(_defs(outer))
    defs.update(_defs(fn))
    call = _da_call(fn)
    kw = {k.arg: k.value for k in call.keywords}
    rgo = "one(r_assoc).R_ASSR[211].R_RGO[205]()"
    rto = "one(%s).R_RTO[204]()" % s1
    want = {
        'rel_id': 'one(r_assoc).R_REL[206]().Numb',
        'source_kind': 'one(%s).R_OIR[203].O_OBJ[201]().Key_Lett' % rgo,
        'target_kind': 'one(%s).R_OIR[203].O_OBJ[201]().Key_Lett' % rto,
        'source_keys': '_get_related_attributes(%s, %s)[0]' % (rgo, rto),
        'target_keys': '_get_related_attributes(%s, %s)[1]' % (rgo, rto),
        'source_conditional': '%s.Cond' % s2,
        'target_conditional': 'False',
        'source_many': '%s.Mult' % s2,
        'target_many': 'False',
    }
    _cmp(r, Q, call, kw, defs, want)
    _phrases(r, Q, fn, kw, '%s.Obj_ID != %s.Obj_ID' % (s1, s2), {'source_phrase': '%s.Txt_Phrs' % s1, 'target_phrase': '%s.Txt_Phrs' % s2})
    # both sides are formalised, each once
    calls = [src(n) for n in ast.walk(outer) if isinstance(n, ast.Call) and dotted(n.func) == fn.name]
    odefs = _defs(outer)
    sides_ = []
    for n in ast.walk(outer):
        if isinstance(n, ast.Call) and dotted(n.func) == fn.name and len(n.args) == 2:
            sides_.append((_resolve(n.args[0], odefs), _resolve(n.args[1], odefs)))
    aone, aoth = 'one(r_assoc).R_AONE[209]()', 'one(r_assoc).R_AOTH[210]()'
    r.check(sorted(sides_) == sorted([(aone, aoth), (aoth, aone)]), 'the link class is formalised to both participants, each once, with the other as '
            'opposite side', outer, construct=OOA + ':mk_linked_association', key='both-sides',
            msg='mk_linked_association calls _mk_assoc with %s; expected (one side, other side) and (other side, one side)' % sides_)

    # ---- sub/super
    fn = repo.func(OOA + ':mk_subsuper_association')
    Q = OOA + ':mk_subsuper_association'
    defs = _defs(fn)
    call = _da_call(fn)
    kw = {k.arg: k.value for k in call.keywords}
    lp = [n for n in ast.walk(fn) if isinstance(n, ast.For)]
    r.check(len(lp) == 1 and pm.match('many(r_subsup).R_SUB[213]()', lp[0].iter) is not None and call in list(ast.walk(lp[0])),
            'one association per subtype participant (R213)', fn, construct=Q, key='per-subtype',
            msg='mk_subsuper_association does not define one association for every R_SUB across R213')
    sub = lp[0].target.id if lp else 'r_sub'
    rgo = 'one(%s).R_RGO[205]()' % sub
    rto = 'one(r_subsup).R_SUPER[212].R_RTO[204]()'
    want = {
        'rel_id': 'one(r_subsup).R_REL[206]().Numb',
        'source_kind': 'one(%s).R_OIR[203].O_OBJ[201]().Key_Lett' % rgo,
        'target_kind': 'one(%s).R_OIR[203].O_OBJ[201]().Key_Lett' % rto,
        'source_keys': '_get_related_attributes(%s, %s)[0]' % (rgo, rto),
        'target_keys': '_get_related_attributes(%s, %s)[1]' % (rgo, rto),
        'source_conditional': 'True', 'target_conditional': 'False', 'source_many': 'False', 'target_many': 'False',
        'source_phrase': "''", 'target_phrase': "''",
    }
    _cmp(r, Q, call, kw, defs, want)


def _cmp(r, Q, call, kw, defs, want):
    for k, w in sorted(want.items()):
        if k not in kw:
            r.violation('%s: define_association is called without %s' % (Q, k), call, construct=Q, key='missing ' + k)
            continue
        got = _resolve(kw[k], defs)
        r.check(got == w, '%s: %s <- %s' % (Q.split(':')[1], k, w), kw[k], construct=Q, key='side ' + k,
                msg='%s passes %s=%s (i.e. %s); the %s end must be fed from %s -- fields of the two ends are swapped or taken from '
                    'the wrong participant' % (Q, k, src(kw[k]), got, k.split('_')[0], w))


def _phrases(r, Q, fn, kw, cond, crossed):
    '''value of the two phrase arguments of define_association under both outcomes of the "same class?" test: a small evaluation of the
    top-level statements that assign them (default-then-override, if/else and conditional expressions are all the same to it)'''
    ct = ast.parse(cond, mode='eval').body
    a_, b_ = src(ct.left), src(ct.comparators[0])

    def outcome(test, same):
        '''truth of `test` when the two classes are / are not the same; None when the test is about something else'''
        if isinstance(test, ast.UnaryOp) and isinstance(test.op, ast.Not):
            o = outcome(test.operand, same)
            return None if o is None else not o
        if isinstance(test, ast.Compare) and len(test.ops) == 1 and isinstance(test.ops[0], (ast.Eq, ast.NotEq)) and \
                {src(test.left), src(test.comparators[0])} == {a_, b_}:
            return same if isinstance(test.ops[0], ast.Eq) else not same
        return None

    def value(e, env, same):
        if isinstance(e, ast.Name) and e.id in env:
            return env[e.id]
        if isinstance(e, ast.IfExp):
            o = outcome(e.test, same)
            if o is None:
                return '?'
            return value(e.body if o else e.orelse, env, same)
        if isinstance(e, ast.BoolOp) or isinstance(e, ast.Call):
            return '?' + src(e)
        return src(e)

    def run(stmts, env, same):
        for st in stmts:
            if isinstance(st, ast.Assign):
                v = value(st.value, env, same)
                for t in st.targets:
                    if isinstance(t, ast.Name):
                        env[t.id] = v
                    elif isinstance(t, (ast.Tuple, ast.List)) and isinstance(st.value, (ast.Tuple, ast.List)) and len(t.elts) == len(st.value.elts):
                        for t2, v2 in zip(t.elts, st.value.elts):
                            if isinstance(t2, ast.Name):
                                env[t2.id] = value(v2, env, same)
            elif isinstance(st, ast.If):
                o = outcome(st.test, same)
                if o is None:
                    # a test about something else: both branches, assignments to phrase variables there are not understood
                    touched = {n.id for x in st.body + st.orelse for n in ast.walk(x) if isinstance(n, ast.Name) and isinstance(n.ctx, ast.Store)}
                    for k in touched & set(pvars):
                        env[k] = '?'
                else:
                    run(st.body if o else st.orelse, env, same)
    pvars = [kw[k].id for k in crossed if isinstance(kw.get(k), ast.Name)]
    ok = all(k in kw for k in crossed)
    got = {}
    if ok:
        for same in (False, True):
            env = {}
            run(body_without_doc(fn), env, same)
            for k, w in crossed.items():
                g = value(kw[k], env, same)
                got[(k, same)] = g
                ok = ok and g == (w if same else "''")
    r.check(ok, '%s: phrases are empty between different classes and crossed (%s) for a reflexive relationship'
            % (Q.split(':')[1], crossed), fn, construct=Q, key='phrases',
            msg='%s: phrases must be empty when the two classes differ and otherwise %s (the phrase used to navigate from a class is the '
                'one written at the other end); the code passes %s' % (Q, crossed, {('%s, %s class' % (k[0], 'same' if k[1] else 'different')): v for k, v in sorted(got.items())}))


def dispatch(ctx):
    repo = ctx.repo
    sc = get_schema(repo)
    r = ctx.rule('C14-DISPATCH', 'mk_association handles exactly the subtypes of R_REL over R206', floor=4, oracle='schema subtype set of R206')
    fn = repo.func(OOA + ':mk_association')
    # abstract execution for every kind of R206 subtype (table lookup, if/elif chain and mixtures alike)
    from .. import absint
    subs = set(sc.subkinds('R_REL', 206))

    def kind_of(x):
        return pm.match('type(_X).__name__', x) is not None or pm.match('_X.__class__.__name__', x) is not None

    def cmp_(e, s, tr):
        a_, b_ = e['_A'], e['_B']
        lit, other = (a_, b_) if isinstance(a_, ast.Constant) else (b_, a_)
        if isinstance(lit, ast.Constant) and isinstance(lit.value, str) and kind_of(other):
            return s['kind'] == lit.value
        return None

    def in_(e, s, tr):
        L = e['_L']
        if kind_of(e['_A']) and isinstance(L, (ast.Tuple, ast.List, ast.Set, ast.Dict)):
            ks = L.keys if isinstance(L, ast.Dict) else L.elts
            if all(isinstance(k, ast.Constant) for k in ks):
                return s['kind'] in [k.value for k in ks]
        return None
    it = absint.Interp(fn, [('_A == _B', cmp_), ('_A != _B', lambda e, s, tr: (None if cmp_(e, s, tr) is None else not cmp_(e, s, tr))),
                            ('_A in _L', in_), ('_A not in _L', lambda e, s, tr: (None if in_(e, s, tr) is None else not in_(e, s, tr)))])
    it.key_equals = lambda k, kn, s: (s['kind'] == kn.value) if (kind_of(k) and isinstance(kn, ast.Constant)) else None
    it.pure_calls = {'subtype', 'mk_simple_association', 'mk_linked_association', 'mk_subsuper_association', 'mk_derived_association'}
    table = {}
    applied = True
    for k in sorted(subs | {'R_OTHER'}):
        out, tr = it.run({'kind': k})
        if out.kind == 'return' and isinstance(out.value, ast.Call) and isinstance(out.value.func, ast.Name):
            table[k] = out.value.func.id
            applied = applied and pm.match('%s(m, subtype(r_rel, 206))' % out.value.func.id, out.value) is not None
    handled = set(k for k in table if k != 'R_OTHER')
    r.check(handled == subs and 'R_OTHER' not in table, 'handled kinds = %s' % sorted(subs), fn, construct=OOA + ':mk_association', key='keys',
            msg='mk_association handles %s; the schema has the R206 subtypes %s' % (sorted(table), sorted(subs)))
    want = {'R_SIMP': 'mk_simple_association', 'R_ASSOC': 'mk_linked_association', 'R_SUBSUP': 'mk_subsuper_association', 'R_COMP': 'mk_derived_association'}
    for k, v in want.items():
        r.check(table.get(k) == v, '%s -> %s' % (k, v), fn, construct=OOA + ':mk_association', key='handler ' + k,
                msg='mk_association maps %s to %s, expected %s' % (k, table.get(k), v))
    r.check(applied and bool(table), 'the handler is chosen by the kind of the R206 subtype instance and applied to it', fn,
            construct=OOA + ':mk_association', key='apply', msg='mk_association does not dispatch on type(subtype(r_rel, 206)).__name__')


def order(ctx):
    repo = ctx.repo
    r = ctx.rule('C14-ORDER', 'class attributes are collected along R103 in modelled order', floor=2, oracle='CHAIN-DIR on R103 (PAttr_ID)')
    fn = repo.func(OOA + ':mk_class')
    sites = chain.reader_sites(fn, 103)
    if len(sites) < 2:
        raise AnalysisError('%s: R103 traversal of mk_class not found' % loc(fn))
    for s in sites:
        chain.check_reader(ctx, r, s, OOA + ':mk_class')
    # the loop appends in traversal order and the list is passed unchanged
    ok = pm.contains('attributes.append((o_attr.Name, ty))', fn) and pm.contains('_M = m.define_class(o_obj.Key_Lett, list(attributes), o_obj.Descrip)', fn)
    r.check(ok, 'attributes are appended as (Name, type) in traversal order and passed to define_class', fn, construct=OOA + ':mk_class', key='append',
            msg='mk_class does not append (o_attr.Name, ty) in traversal order / pass the list to define_class(o_obj.Key_Lett, ...)')
    r.check(pm.contains('_A = one(o_obj).O_ATTR[102](first_filter)', fn), 'the traversal starts at the attribute of this class without predecessor', fn,
            construct=OOA + ':mk_class', key='start', msg='mk_class does not start at one(o_obj).O_ATTR[102](first_filter)')


def types(ctx):
    repo = ctx.repo
    r = ctx.rule('C14-TYPES', 'data type mapping, derived attribute filter, identifiers', floor=9, oracle='property statement')
    fn = repo.func(OOA + ':_get_data_type_name')
    Q = OOA + ':_get_data_type_name'
    p = param_names(fn, skip_self=False)[0]
    rec = []

    def rebind(e, s, tr):
        s['rebound'] = True
        return True

    def is_core_nav(x):
        return pm.match('one(%s).S_CDT[17]()' % p, x) is not None

    def core_truth(e, s, tr):
        x = e['_X']
        if is_core_nav(x):
            return s['core'] and not s.get('rebound')
        if pm.match('one(%s).S_EDT[17]()' % p, x) is not None:
            return s['edt'] and not s.get('rebound')
        if isinstance(x, ast.Name) and x.id == p:
            return s['udt'] if s.get('rebound') else True
        return None

    def in_range(e, s, tr):
        return s['inrange'] if is_core_nav(e['_X']) else None
    atoms = [('_X.Core_Typ in range(1, 6)', in_range), ('_X.Core_Typ in (1, 2, 3, 4, 5)', in_range), ('1 <= _X.Core_Typ <= 5', in_range),
             ('1 <= _X.Core_Typ < 6', in_range),
             ('_X is None', lambda e, s, tr: (None if core_truth(e, s, tr) is None else not core_truth(e, s, tr))),
             ('_X is not None', core_truth), ('_X', core_truth)]
    effects = [('%s = one(%s).S_UDT[17].S_DT[18]()' % (p, p), rebind)]
    it = absint.Interp(fn, atoms, effects)
    for core, inrange, edt, udt in itertools.product([False, True], repeat=4):
        if inrange and not core:
            continue
        if sum([core, edt, udt]) > 1:
            continue
        st = dict(core=core, inrange=inrange, edt=edt, udt=udt)
        out, tr = it.run(dict(st))
        got = src(out.value) if out.kind == 'return' and out.value is not None else None
        if got == 'None':
            got = None
        if core and inrange:
            want = '%s.Name.upper()' % p
        elif edt:
            want = "'INTEGER'"
        elif udt:
            want = '_get_data_type_name(%s)' % p
        else:
            want = None
        desc = 'type(core=%d, core type 1..5=%d, enumeration=%d, user type=%d)' % (core, inrange, edt, udt)
        r.check(got == want, '%s -> %s' % (desc, want), fn, construct=Q, key='dtname %d%d%d%d' % (core, inrange, edt, udt),
                msg='_get_data_type_name for %s yields %s; expected %s' % (desc, got, want))
    fn = repo.func(OOA + ':get_attribute_type')
    ok = pm.match(['_R = one(o_attr).O_RATTR[106].O_BATTR[113].O_ATTR[106]()',
                   'if _R:\n    return get_attribute_type(_R)\nelse:\n    return one(o_attr).S_DT[114]()'], body_without_doc(fn)) is not None
    r.check(ok, 'a referential attribute takes the type of the attribute it refers to (recursively), others their own S_DT', fn,
            construct=OOA + ':get_attribute_type', key='attr-type', msg='get_attribute_type no longer follows R106/R113 to the base attribute')
    mk = repo.func(OOA + ':mk_class')
    Q = OOA + ':mk_class'
    ok = pm.contains('_S = get_attribute_type(o_attr)', mk) and pm.contains('_T = _get_data_type_name(_S)', mk)
    r.check(ok, 'each attribute is typed by _get_data_type_name(get_attribute_type(o_attr))', mk, construct=Q, key='typing',
            msg='mk_class does not type attributes through get_attribute_type / _get_data_type_name')
    # derived attribute filter
    wl = [n for n in ast.walk(mk) if isinstance(n, ast.While)]
    ok = False
    if wl:
        for st in wl[0].body:
            if isinstance(st, ast.If) and src(st.test) == 'not derived_attributes and one(o_attr).O_BATTR[106].O_DBATTR[107]()':
                ok = all(isinstance(x, ast.Pass) or isinstance(x, ast.Expr) for x in st.body)
    r.check(ok, 'derived attributes are omitted exactly when derived_attributes is false', mk, construct=Q, key='derived-filter',
            msg='mk_class does not skip derived attributes under `not derived_attributes and <attribute is derived>`')
    ok = False
    for lp in [n for n in ast.walk(mk) if isinstance(n, ast.For)]:
        if pm.match('many(o_obj).O_ID[104]()', lp.iter) is not None:
            iv = lp.target.id
            names_ok = pm.contains('_OIDA = many(%s).O_OIDA[105]()' % iv, lp) and pm.contains('_ATTRS = many(_OIDA).O_ATTR[105]()', lp)
            call_ok = pm.contains('m.define_unique_identifier(o_obj.Key_Lett, %s.Oid_ID + 1, *names)' % iv, lp)
            ok = names_ok and call_ok
    r.check(ok, 'identifier I<Oid_ID+1> is defined over the attribute names of R105', mk, construct=Q, key='identifiers',
            msg='mk_class does not define identifier Oid_ID + 1 with the names of the attributes across R105')


def forward(ctx):
    repo = ctx.repo
    r = ctx.rule('C14-FORWARD', 'configuration parameters of the public entry points reach mk_component', floor=6,
                 oracle='property statement (restricting to a component / derived attributes changes exactly that part)')
    # every parameter of the entry points is used
    for q in (OOA + ':load_component', OOA + ':load_metamodel', OOA + ':ModelLoader.build_component', OOA + ':mk_component', OOA + ':_mk_loader'):
        fn = repo.func(q)
        used = set(n.id for n in ast.walk(fn) if isinstance(n, ast.Name) and isinstance(n.ctx, ast.Load))
        for p in param_names(fn):
            r.check(p in used, '%s uses its parameter `%s`' % (q, p), fn, construct=q, key='unused ' + p,
                    msg='%s ignores its parameter `%s`: the caller\'s choice has no effect' % (q, p))
    lc = repo.func(OOA + ':load_component')
    ok = False
    for n in ast.walk(lc):
        if isinstance(n, ast.Call) and call_attr(n) == 'build_component':
            b = {}
            bc = repo.func(OOA + ':ModelLoader.build_component')
            try:
                b = bind_call(n, bc)
            except AnalysisError:
                b = {}
            ok = 'name' in b and src(b['name']) == 'name'
    r.check(ok, 'load_component forwards `name` to build_component', lc, construct=OOA + ':load_component', key='forward-name',
            msg='load_component does not pass `name` to build_component: a named component cannot be selected')
    bc = repo.func(OOA + ':ModelLoader.build_component')
    calls = [n for n in ast.walk(bc) if isinstance(n, ast.Call) and dotted(n.func) == 'mk_component']
    r.check(calls and all([src(a) for a in c.args] == ['mm', 'c_c', 'derived_attributes'] for c in calls),
            'build_component passes (metamodel, component, derived_attributes) to mk_component', bc, construct=OOA + ':ModelLoader.build_component',
            key='forward-mk', msg='build_component does not call mk_component(mm, c_c, derived_attributes)')
    r.check(pm.contains("_C = mm.select_any('C_C', where(Name=name))", bc), 'the component is selected by its name', bc,
            construct=OOA + ':ModelLoader.build_component', key='select', msg='build_component does not select the C_C by Name=name')
    # abstract execution: (component found?, name given?) -> outcome
    from .. import absint
    import itertools as _it2

    def sel(e, s, tr):
        s.setdefault('env', {})[e['_C'].id] = 'c_c'
        return True

    def truthy(e, s, tr):
        x = e['_X']
        if isinstance(x, ast.Name) and s.get('env', {}).get(x.id) == 'c_c':
            return s['found']
        if isinstance(x, ast.Name) and x.id == 'name':
            return s['named']
        return None
    bi = absint.Interp(bc, [('name is None', lambda e, s, tr: not s['named']), ('name is not None', lambda e, s, tr: s['named']),
                            ('_X is None', lambda e, s, tr: (None if truthy(e, s, tr) is None else not truthy(e, s, tr))),
                            ('_X is not None', lambda e, s, tr: truthy(e, s, tr)), ('_X', truthy)],
                       [("_C = mm.select_any('C_C', where(Name=name))", sel), ('mm = self.build_metamodel()', lambda e, s, tr: True)])
    bi.pure_calls = {'mk_component'}
    ok = True
    for found, named in _it2.product([True, False], repeat=2):
        if found and not named:
            continue        # a component selected by Name=None does not exist
        out, tr = bi.run({'found': found, 'named': named})
        if named and not found:
            ok = ok and out.kind == 'raise'
        else:
            ok = ok and out.kind == 'return' and out.value is not None and pm.match('mk_component(mm, _C, derived_attributes)', out.value) is not None
    r.check(ok, 'an unknown component name is rejected; otherwise the selected component (or the whole model) is built', bc,
            construct=OOA + ':ModelLoader.build_component', key='unknown-name',
            msg='build_component does not raise for a name that matches no component')
    mc = repo.func(OOA + ':mk_component')
    r.check(pm.contains('mk_class(target, o_obj, derived_attributes)', mc), 'mk_component forwards derived_attributes to mk_class', mc,
            construct=OOA + ':mk_component', key='forward-derived', msg='mk_component does not pass derived_attributes to mk_class')
    lam = [n for n in ast.walk(mc) if isinstance(n, ast.Lambda)]
    ok = any(src(l.body) == 'c_c is None or is_contained_in(%s, c_c)' % l.args.args[0].arg for l in lam)
    r.check(ok, 'the component filter admits everything without a component and only contained elements with one', mc,
            construct=OOA + ':mk_component', key='filter', msg='mk_component no longer filters with `c_c is None or is_contained_in(sel, c_c)`')
    for kind, maker in (('O_OBJ', 'mk_class'), ('R_REL', 'mk_association')):
        ok = any(isinstance(n, ast.For) and src(n.iter) == "bp_model.select_many('%s', c_c_filt)" % kind and
                 any(isinstance(c, ast.Call) and dotted(c.func) == maker for c in ast.walk(n)) for n in ast.walk(mc))
        r.check(ok, 'every %s in scope is converted by %s' % (kind, maker), mc, construct=OOA + ':mk_component', key='convert ' + kind,
                msg='mk_component does not apply %s to every %s selected with the component filter' % (maker, kind))
    r.check(any(isinstance(n, ast.For) and src(n.iter) == 'target.associations' and pm.contains('_A.formalize()', n) for n in ast.walk(mc)),
            'every association of the component is formalised', mc, construct=OOA + ':mk_component', key='formalize',
            msg='mk_component does not formalize the associations it defined')
    gs = repo.func('bridgepoint.gen_sql_schema:main')
    from .common import resolve_locals
    ok = any(pm.match('_L.build_component(opts.component, opts.derived)', resolve_locals(gs, env_['_C'], pure_only=False)) is not None
             for _n, env_ in pm.find('xtuml.persist_database(_C, opts.output)', gs))
    r.check(ok, 'gen_sql_schema passes -c / -d to build_component and writes the component', gs, construct='bridgepoint.gen_sql_schema:main', key='cli',
            msg='gen_sql_schema.main does not call build_component(opts.component, opts.derived) and persist the result to opts.output')
