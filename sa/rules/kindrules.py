'''
Schema conformance of the model-walking modules: every navigation step, relate/unrelate call and new(...) call is
type-checked against the ooaofooa schema with the kind inference of sa/kinds.py.
'''
import ast

from ..src import AnalysisError, loc, src, dotted, call_attr, param_names, qualname
from .. import pm
from ..kinds import KindInfer, chain_of, rel_of
from ..schema import schema as get_schema
from . import nodes

_cache = {}


def prebuild_accept_kinds(repo):
    f = nodes.facts(repo)

    def fn(ki, func, arg, env, cls):
        if func is None:
            return None
        hcls = func.name[7:] if func.name.startswith('accept_') else None
        classes = set()
        if isinstance(arg, ast.Attribute) and isinstance(arg.value, ast.Name) and arg.value.id == 'node':
            if hcls:
                classes = nodes.field_classes(f, hcls, arg.attr)
            else:
                for (c, fld) in f.field_pos:
                    if fld == arg.attr:
                        classes |= nodes.field_classes(f, c, fld)
        elif isinstance(arg, ast.Attribute) and isinstance(arg.value, ast.Attribute) and src(arg.value).startswith('node.'):
            # node.event_specification.event_data
            inner = arg.value.attr
            for (c, fld) in f.field_pos:
                if fld == inner:
                    for ic in nodes.field_classes(f, c, fld):
                        classes |= nodes.field_classes(f, ic, arg.attr)
        elif isinstance(arg, ast.Name) and hcls:
            # loop variable over node.children
            classes = nodes.child_classes(f, hcls)
        out = None
        for c in classes:
            k = ki._lookup_method(cls, 'accept_' + c)
            if k:
                out = (out or frozenset()) | k
        return out
    return fn


def infer(repo, modname, accept_kinds=None, ctor_params=None, handler_param_is_kind=False, name_convention=True):
    key = (id(repo), modname)
    if key not in _cache:
        sc = get_schema(repo)
        ki = KindInfer.__new__(KindInfer)
        # two-phase init so that constructor-parameter kinds are known before solving
        ki.repo, ki.schema, ki.modname, ki.mod = repo, sc, modname, repo.module(modname)
        ki.node_field_kinds = accept_kinds
        ki.subtype_name = 'subtype'
        ki.method_returns, ki.attr_kinds, ki.kw_param_kinds = {}, {}, {}
        ki.all_kinds = set(sc.kinds)
        ki._envs = {}
        ki.ctor_param_kinds = ctor_params or {}
        ki.handler_param_is_kind = handler_param_is_kind
        ki.name_convention = name_convention
        ki._solve()
        _cache[key] = ki
    return _cache[key]


def prebuild_ctor_params(repo):
    '''kinds of the second constructor argument of each concrete prebuilder, from prebuild_action.walker_map'''
    fn = repo.func('bridgepoint.prebuild:prebuild_action')
    out = {}
    for n in ast.walk(fn):
        if isinstance(n, ast.Assign) and isinstance(n.value, ast.Dict) and isinstance(n.targets[0], ast.Name) \
                and n.targets[0].id == 'walker_map':
            for k, v in zip(n.value.keys, n.value.values):
                if isinstance(k, ast.Constant) and isinstance(v, ast.Name):
                    cls = repo.class_by_name('bridgepoint.prebuild', v.id)
                    if cls is None:
                        raise AnalysisError('%s: walker_map names unknown class %s' % (loc(v), v.id))
                    init = repo.methods(cls).get('__init__')
                    if init is None:
                        continue
                    ps = param_names(init)
                    if len(ps) >= 2:
                        out[(v.id, ps[1])] = frozenset([k.value])
    if len(out) < 5:
        raise AnalysisError('prebuild_action.walker_map not understood')
    return out


def kinds_rule(ctx, rule_id, modname, floor_nav, ki, desc=None):
    repo = ctx.repo
    sc = get_schema(repo)
    r = ctx.rule(rule_id, desc or 'navigation chains, relate/unrelate and new() calls of %s conform to the ooaofooa schema' % modname,
                 floor=floor_nav, oracle='ooaofooa schema text in bridgepoint/schema.py + navigation semantics from define_association')
    stats = {'chains': 0, 'steps': 0, 'relates': 0, 'relates_decided': 0, 'news': 0, 'unknown_roots': 0}
    for cls, fn in ki._functions():
        env = ki.func_env(fn, cls)
        q = '%s:%s%s' % (modname, (cls.name + '.') if cls else '', fn.name)
        seen_sub = set()
        for n in ast.walk(fn):
            ch = chain_of(n) if isinstance(n, (ast.Call, ast.Subscript)) else None
            par = getattr(n, '_parent', None)
            if ch is not None and isinstance(n, ast.Subscript) and (
                    isinstance(par, ast.Attribute) or (isinstance(par, ast.Call) and par.func is n)):
                ch = None       # not the outermost expression of its chain
            if ch is not None and id(ch[2][-1].node) in seen_sub:
                ch = None
            if ch is not None:
                seen_sub.add(id(ch[2][-1].node))
                issues, nsteps, res = ki.check_chain(n, env, cls)
                stats['chains'] += 1
                stats['steps'] += nsteps
                if ki.expr_kinds(ch[1], env, cls) is None:
                    stats['unknown_roots'] += 1
                if issues:
                    for i in issues:
                        r.violation('%s: `%s`: %s -- UnknownLinkException / UnknownClassException on every execution'
                                    % (q, src(n).split('\n')[0][:100], i.message), i.node, construct=q, key=i.key)
                else:
                    r.ok('%s: chain %s (%d steps)' % (q, src(n).split('\n')[0][:80], nsteps), n, construct=q + '|' + src(n))
            if isinstance(n, ast.Call) and dotted(n.func) in ('relate', 'xtuml.relate', 'unrelate', 'xtuml.unrelate'):
                issues, decided = ki.check_relate(n, env, cls)
                stats['relates'] += 1
                stats['relates_decided'] += 1 if decided else 0
                for i in issues:
                    r.violation('%s: `%s`: %s' % (q, src(n), i.message), i.node, construct=q, key=i.key)
                if not issues:
                    r.ok('%s: %s' % (q, src(n)), n, construct=q + '|' + src(n))
            if isinstance(n, ast.Call) and call_attr(n) == 'new' and n.args and isinstance(n.args[0], ast.Constant) \
                    and isinstance(n.args[0].value, str):
                stats['news'] += 1
                k = sc.kind(n.args[0].value)
                if k is None:
                    r.violation('%s: `%s` creates an instance of %s, which is not a class of the schema' % (q, src(n)[:80], n.args[0].value),
                                n, construct=q, key='new-unknown ' + n.args[0].value)
                    continue
                attrs = set(a.upper() for a in sc.attrs(k))
                bad = [kw.arg for kw in n.keywords if kw.arg and kw.arg.upper() not in attrs]
                r.check(not bad, '%s: new(%s, %s)' % (q, k, ', '.join(kw.arg for kw in n.keywords if kw.arg)), n, construct=q,
                        key='new-attr %s %s' % (k, bad),
                        msg='%s: `%s` sets %s, which %s does not have -- the value is stored outside the schema and never persisted'
                            % (q, src(n)[:100], bad, k))
    ctx.extra.setdefault('kinds', {})[modname] = stats
    return r, stats
